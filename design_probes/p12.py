import itertools, collections, time
from urllib.parse import urlsplit, unquote, parse_qsl
from werkzeug.routing import Map, Rule
from werkzeug.exceptions import NotFound, MethodNotAllowed, HTTPException
from werkzeug.routing.exceptions import RequestRedirect
from werkzeug.datastructures import MultiDict
bad=collections.Counter();ex={}
def rec(k,v): bad[k]+=1; ex.setdefault(k,v)
RULES=[("/a",{}),("/a/",{}),("/b/<int:x>",{}),("/b/<int:x>/",{}),("/<string:s>/",{}),("/<path:p>",{}),("/<path:p>/",{}),("/d/",{"defaults":{"x":1},"endpoint":"d"}),("/d/<int:x>",{"endpoint":"d"}),
       ("/al/<int:x>",{"endpoint":"d","alias":True}),("/ns/",{"strict_slashes":False}),("/nm//x",{"merge_slashes":False}),("/é/<s>/",{})]
paths=["/a","/a/","/a//","//a","//a/","///a//","/b/1","/b//1","/b/1/","//evil.com/a","//evil.com//a/","/x","/x/","/é/y","/é//y","/a b","/a%20b/","/d/1","/d/2","/d//1","/al/1","/al/2","/ns","/ns//","/nm//x","/nm/x","/x/y/z","/x//y/","/"]
qs=[None,"x=1&y=é",{"x":"a b"},MultiDict([("k","1"),("k","2")])]
def q_norm(q):
    if q is None: return []
    if isinstance(q,str): return parse_qsl(q,keep_blank_values=True)
    if isinstance(q,MultiDict): return list(q.items(multi=True))
    return list(q.items())
t0=time.time();N=0;red=0
for r in (1,2,3):
  for combo in itertools.combinations(range(len(RULES)),r):
    if r==3 and sum(combo)%5: continue
    for strict in (True,False):
      for merge in (True,False):
        for rd in (True,False):
          try: m=Map([Rule(RULES[i][0],**{"endpoint":f"e{i}",**RULES[i][1]}) for i in combo],strict_slashes=strict,merge_slashes=merge,redirect_defaults=rd)
          except Exception as e: rec("mapexc",repr(e)); continue
          for scheme,server,script,sub in (("http","example.com","/",""),("https","example.com:8080","/app","sub"),("ws","example.com","/app/","")):
            for q in qs[:2] if r>1 else qs:
              ad=m.bind(server,script_name=script,subdomain=sub,url_scheme=scheme,query_args=q)
              for p in paths:
                N+=1
                try: first=("match",)+ad.match(p)
                except RequestRedirect as e: first=("redir",e.new_url)
                except HTTPException as e: first=("http",type(e).__name__)
                except Exception as e: rec("exc:"+type(e).__name__,(combo,p,str(e)[:60])); continue
                if first[0]!="redir": continue
                red+=1
                ctx=([RULES[i][0] for i in combo],strict,merge,rd,scheme,server,script,sub,p,first[1])
                sp=urlsplit(first[1])
                host=(sub+"." if sub else "")+server
                if sp.scheme!=scheme: rec("scheme",ctx)
                if sp.netloc!=host: rec("host",ctx)
                root=script.rstrip("/")
                if not sp.path.startswith(root+"/"): rec("root",ctx); continue
                if sorted(parse_qsl(sp.query,keep_blank_values=True))!=sorted(q_norm(q)): rec("query",ctx+(sp.query,))
                # follow
                hops=0; cur=first; seen=[p]
                while cur[0]=="redir" and hops<5:
                    sp=urlsplit(cur[1]); np=unquote(sp.path[len(root):]); hops+=1
                    if np in seen: rec("loop",ctx+(seen,)); break
                    seen.append(np)
                    try: cur=("match",)+ad.match(np)
                    except RequestRedirect as e: cur=("redir",e.new_url)
                    except HTTPException as e: cur=("http",type(e).__name__)
                if hops>2: rec("hops>2",ctx+(seen,))
                if cur[0]=="http": rec("redirect-to-"+cur[1],ctx+(seen,))
print(N,red,round(time.time()-t0,1),bad)
for k,v in ex.items(): print(k,v)
