import itertools, collections, time, warnings, io
warnings.simplefilter("ignore")
from werkzeug import http
from werkzeug.datastructures import Accept, MIMEAccept, LanguageAccept, CharsetAccept, Authorization, WWWAuthenticate
from werkzeug.exceptions import HTTPException
from werkzeug.wrappers import Request
from werkzeug.test import create_environ
bad=collections.Counter();ex={}
def rec(k,v): bad[k]+=1; ex.setdefault(k,v)
T=["a","q","0","1",".",",",";","=",'"',"\\","*","%","'","/","-",":","[","]","@"," ","%41","%FF","\xff","W/","bytes","UTF-8''","*0","Basic ","QTpi","\xc3\xa9","Mon, 01 Jan 2024 00:00:00 GMT","\xc3"]
def seqs(n):
    yield ""
    for k in range(1,n+1):
        for t in itertools.product(T,repeat=k): yield "".join(t)
def acc(cls):
    def f(v):
        a=http.parse_accept_header(v,cls)
        for o in ("text/html","en","utf-8","gzip","*"):
            try: o in a; a.quality(o); a.find(o)
            except ValueError as e:
                if cls is MIMEAccept and "/" not in o or o=="*": pass
                else: raise
        a.best_match(["text/html","a/b"]); a.best; str(a)
    return f
SINKS={"options":http.parse_options_header,"list":http.parse_list_header,"dict":http.parse_dict_header,"set":http.parse_set_header,
 "accept":acc(Accept),"mime":acc(MIMEAccept),"lang":acc(LanguageAccept),"charset":acc(CharsetAccept),"cc":http.parse_cache_control_header,"csp":http.parse_csp_header,
 "etags":http.parse_etags,"range":http.parse_range_header,"crange":http.parse_content_range_header,"ifrange":http.parse_if_range_header,"date":http.parse_date,"age":http.parse_age,
 "cookie":http.parse_cookie,"cookie_env":lambda v:http.parse_cookie({"HTTP_COOKIE":v}),"auth":Authorization.from_header,"wwwauth":WWWAuthenticate.from_header}
ATTRS=[n for n in dir(Request) if not n.startswith("_") and not callable(getattr(Request,n)) or isinstance(getattr(Request,n,None),property)]
ATTRS=[n for n in dir(Request) if not n.startswith("_") and (isinstance(getattr(Request,n),property) or not callable(getattr(Request,n)))]
VARS=["HTTP_HOST","CONTENT_TYPE","CONTENT_LENGTH","QUERY_STRING","PATH_INFO","HTTP_COOKIE","HTTP_AUTHORIZATION","HTTP_ACCEPT","HTTP_ACCEPT_LANGUAGE","HTTP_ACCEPT_CHARSET","HTTP_ACCEPT_ENCODING","HTTP_CACHE_CONTROL",
      "HTTP_IF_MATCH","HTTP_IF_NONE_MATCH","HTTP_IF_MODIFIED_SINCE","HTTP_IF_RANGE","HTTP_RANGE","HTTP_X_FORWARDED_FOR","HTTP_PRAGMA","HTTP_DATE","HTTP_MAX_FORWARDS","HTTP_TRANSFER_ENCODING","HTTP_USER_AGENT","HTTP_REFERER","HTTP_ORIGIN","HTTP_ACCESS_CONTROL_REQUEST_HEADERS","HTTP_CONTENT_MD5","HTTP_CONTENT_ENCODING","HTTP_IF_UNMODIFIED_SINCE"]
t0=time.time();N=0
inputs=list(seqs(2))
print(len(inputs),len(ATTRS))
for v in inputs:
    for name,f in SINKS.items():
        N+=1
        try: f(v)
        except HTTPException: pass
        except Exception as e: rec(f"{name}:{type(e).__name__}",(v,str(e)[:60]))
    for var in VARS:
        env=create_environ(method="POST",data=b"a=1&b=2"); env[var]=v
        if var!="CONTENT_TYPE": env["CONTENT_TYPE"]="application/x-www-form-urlencoded"
        req=Request(env)
        for a in ATTRS:
            N+=1
            try: getattr(req,a)
            except HTTPException: pass
            except Exception as e: rec(f"{var}.{a}:{type(e).__name__}",(v,str(e)[:60]))
print(N,round(time.time()-t0,1),len(bad))
for k,v in sorted(bad.items()): print(k,v,ex[k])
