import itertools, collections, copy, pickle, time
from werkzeug.datastructures import MultiDict, Headers, HeaderSet
bad=collections.Counter();ex={}
def rec(k,v): bad[k]+=1; ex.setdefault(k,v)
# ---------- MultiDict model: ordered dict key -> list
class MDModel:
    def __init__(s,d=None): s.d=collections.OrderedDict((k,list(v)) for k,v in (d or {}).items())
    def clone(s): return MDModel(s.d)
K=["a","A","b"]; V=[1,2]
def md_ops():
    for k in K:
        yield ("getitem",k); yield ("get",k); yield ("getlist",k); yield ("contains",k); yield ("delitem",k)
        yield ("pop",k); yield ("pop_d",k); yield ("poplist",k); yield ("setdefault",k); yield ("setlistdefault",k)
        for v in V: yield ("setitem",k,v); yield ("add",k,v); yield ("setdefault_v",k,v)
        yield ("setlist",k,(1,2)); yield ("setlist",k,()); yield("setlistdefault_v",k,(2,))
    yield ("popitem",); yield ("popitemlist",); yield ("clear",); yield ("update_pairs",(("a",2),("b",1))); yield ("update_dict",{"a":[1,2],"b":[]}); yield("ior",{"A":2})
def apply_real(md,op):
    n=op[0]
    if n=="getitem": return md[op[1]]
    if n=="get": return md.get(op[1])
    if n=="getlist": return md.getlist(op[1])
    if n=="contains": return op[1] in md
    if n=="delitem": del md[op[1]]; return None
    if n=="pop": return md.pop(op[1])
    if n=="pop_d": return md.pop(op[1],"D")
    if n=="poplist": return md.poplist(op[1])
    if n=="setdefault": return md.setdefault(op[1])
    if n=="setdefault_v": return md.setdefault(op[1],op[2])
    if n=="setlistdefault": return list(md.setlistdefault(op[1]))
    if n=="setlistdefault_v": return list(md.setlistdefault(op[1],op[2]))
    if n=="setitem": md[op[1]]=op[2]; return None
    if n=="add": md.add(op[1],op[2]); return None
    if n=="setlist": md.setlist(op[1],op[2]); return None
    if n=="popitem": return md.popitem()
    if n=="popitemlist": return md.popitemlist()
    if n=="clear": md.clear(); return None
    if n=="update_pairs": md.update(op[1]); return None
    if n=="update_dict": md.update(op[1]); return None
    if n=="ior": md|=op[1]; return None
def apply_model(m,op):
    d=m.d; n=op[0]
    def first(k):
        if k in d and d[k]: return d[k][0]
        raise KeyError(k)
    if n=="getitem": return first(op[1])
    if n=="get": return d[op[1]][0] if op[1] in d and d[op[1]] else None
    if n=="getlist": return list(d.get(op[1],[]))
    if n=="contains": return op[1] in d
    if n=="delitem":
        if op[1] not in d: raise KeyError(op[1])
        del d[op[1]]; return None
    if n=="pop":
        if op[1] not in d: raise KeyError(op[1])
        l=d.pop(op[1])
        if not l: raise KeyError(op[1])
        return l[0]
    if n=="pop_d":
        if op[1] not in d: return "D"
        l=d.pop(op[1]); return l[0] if l else "D"
    if n=="poplist": return d.pop(op[1],[])
    if n=="setdefault":
        if op[1] not in d: d[op[1]]=[None]
        return first(op[1])
    if n=="setdefault_v":
        if op[1] not in d: d[op[1]]=[op[2]]
        return first(op[1])
    if n=="setlistdefault":
        if op[1] not in d: d[op[1]]=[]
        return list(d[op[1]])
    if n=="setlistdefault_v":
        if op[1] not in d: d[op[1]]=list(op[2])
        return list(d[op[1]])
    if n=="setitem": d[op[1]]=[op[2]]; return None
    if n=="add": d.setdefault(op[1],[]).append(op[2]); return None
    if n=="setlist": d[op[1]]=list(op[2]); return None
    if n=="popitem":
        if not d: raise KeyError()
        k,l=d.popitem()
        if not l: raise KeyError(k)
        return (k,l[0])
    if n=="popitemlist":
        if not d: raise KeyError()
        return d.popitem()
    if n=="clear": d.clear(); return None
    if n in("update_pairs",):
        for k,v in op[1]: d.setdefault(k,[]).append(v)
        return None
    if n in ("update_dict","ior"):
        for k,v in op[1].items():
            for x in (v if isinstance(v,(list,tuple,set)) else [v]): d.setdefault(k,[]).append(x)
        return None
def reads_real(md):
    out={}
    for name,f in [("len",lambda:len(md)),("keys",lambda:list(md.keys())),("items",lambda:list(md.items())),("items_m",lambda:list(md.items(multi=True))),
                   ("values",lambda:list(md.values())),("lists",lambda:list(md.lists())),("listvalues",lambda:[list(x) for x in md.listvalues()]),
                   ("to_dict",lambda:md.to_dict()),("to_dict_f",lambda:md.to_dict(flat=False)),("get_int",lambda:md.get("a",type=str)),("iter",lambda:list(md))]:
        try: out[name]=f()
        except Exception as e: out[name]=("EXC",type(e).__name__)
    return out
def reads_model(m):
    d=m.d; ne=[(k,l) for k,l in d.items() if l]
    return {"len":len(d),"keys":list(d),"items":[(k,l[0]) for k,l in ne],"items_m":[(k,v) for k,l in d.items() for v in l],"values":[l[0] for k,l in ne],
            "lists":[(k,list(l)) for k,l in d.items()],"listvalues":[list(l) for l in d.values()],"to_dict":{k:l[0] for k,l in ne},"to_dict_f":{k:list(l) for k,l in d.items()},
            "get_int":(str(d["a"][0]) if "a" in d and d["a"] else None),"iter":list(d)}
def canon(md): return tuple((k,tuple(l)) for k,l in dict.items(md))
def build(hist,init):
    md=MultiDict(init); m=MDModel({}); 
    for k,v in (init or []): m.d.setdefault(k,[]).append(v)
    for op in hist:
        try: apply_real(md,op)
        except Exception: pass
        try: apply_model(m,op)
        except Exception: pass
    return md,m
t0=time.time()
seen={}; frontier=collections.deque([()]); init=[("a",1)]
seen[canon(MultiDict(init))]=(); trans=0
OPS=list(md_ops())
while frontier:
    hist=frontier.popleft()
    for op in OPS:
        md,m=build(hist,init); trans+=1
        try: r1=("ok",apply_real(md,op))
        except Exception as e: r1=("exc","KeyError" if isinstance(e,KeyError) else type(e).__name__)
        try: r2=("ok",apply_model(m,op))
        except KeyError: r2=("exc","KeyError")
        if r1!=r2: rec("ret:"+op[0],(hist,op,r1,r2))
        a,b=reads_real(md),reads_model(m)
        for k in a:
            if a[k]!=b[k]: rec("read:"+k,(hist,op,a[k],b[k]))
        c=canon(md)
        if sum(len(l) for _,l in c)<=3 and len(c)<=3 and c not in seen:
            seen[c]=hist+(op,); frontier.append(hist+(op,))
print("states",len(seen),"trans",trans,round(time.time()-t0,1),"s")
print(bad)
for k,v in ex.items(): print(k,v)
