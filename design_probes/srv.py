import socket, time, threading, io
from werkzeug.serving import WSGIRequestHandler
class StubServer:
    ssl_context=None; multithread=False; multiprocess=False; passthrough_errors=False
    server_address=("127.0.0.1",5000); _server_version="Werkzeug/test"
    def __init__(s,app): s.app=app; s.logs=[]
    def log(s,type,msg,*a): s.logs.append((type,msg%a if a else msg))
def run(app, raw):
    a,b=socket.socketpair()
    b.sendall(raw); b.shutdown(socket.SHUT_WR)
    srv=StubServer(app)
    class H(WSGIRequestHandler):
        def log(self,*a,**k): pass
    H(a,("127.0.0.1",1234),srv)
    a.close()
    out=b""
    while True:
        d=b.recv(65536)
        if not d: break
        out+=d
    b.close()
    return out
seen={}
def app(environ,start_response):
    seen['body']=environ['wsgi.input'].read()
    seen['path']=environ['PATH_INFO']
    start_response("200 OK",[("X","y")])
    return [b"hello",b"",b"world"]
t=time.perf_counter()
N=200
for i in range(N):
    out=run(app,b"POST /a%20b?x=1 HTTP/1.1\r\nHost: h\r\nTransfer-Encoding: chunked\r\n\r\n3\r\nabc\r\n0\r\n\r\n")
print((time.perf_counter()-t)/N*1000,"ms"); print(out, seen)
