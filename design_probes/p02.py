import io, itertools, collections, time, warnings
warnings.simplefilter("ignore")
from werkzeug.test import encode_multipart, EnvironBuilder
from werkzeug.formparser import MultiPartParser
from werkzeug.datastructures import MultiDict, FileStorage
from werkzeug.wrappers import Request
from werkzeug.urls import _urlencode
bad=collections.Counter();ex={}
def rec(k,v): bad[k]+=1; ex.setdefault(k,v)
def strings(A,n):
    yield A[0][:0]
    for k in range(1,n+1):
        for t in itertools.product(A,repeat=k): yield A[0][:0].join(t)
BND="bnd"
TA=["a","\r","\n","-"," ","é",'"',"%"]
tvals=list(strings(TA,3))+["--bnd"[1:],"x--bnd","\r\n--bn","bnd--","\r\n--bndX","x\r\n-"]
BA=[b"a",b"\r",b"\n",b"-",b"\x00",b"\xff"]
bvals=list(strings(BA,3))+[b"x--bnd",b"\r\n--bn",b"bnd--",b"\r\n--bndX",b"a"*40000]
names=["a","é","n m","x;y","'","=","名","a*","𝄞"]
def ill(v,b):  # cannot be carried
    d=("--"+BND); 
    if isinstance(v,bytes): d=d.encode(); return v.startswith(d) or any(nl+d in v for nl in (b"\r\n",b"\n",b"\r"))
    return v.startswith(d) or any(nl+d in v for nl in ("\r\n","\n","\r"))
t0=time.time();N=0
def roundtrip(fields,files,tag):
    global N; N+=1
    md=MultiDict()
    for k,v in fields: md.add(k,v)
    for k,fn,ct,data in files: md.add(k,FileStorage(io.BytesIO(data),filename=fn,name=k,content_type=ct))
    _,body=encode_multipart(md,boundary=BND)
    form,fl=MultiPartParser().parse(io.BytesIO(body),BND.encode(),len(body))
    gf=list(form.items(multi=True)); gl=[(k,f.filename,f.content_type,f.read()) for k,f in fl.items(multi=True)]
    if gf!=list(fields): rec(tag+":fields",(fields,gf,body[:200]))
    if gl!=list(files): rec(tag+":files",(files,gl,body[:200]))
for v in tvals:
    if ill(v,BND): continue
    for nm in names[:3]: roundtrip([(nm,v)],[],"single-field")
for nm in names: roundtrip([(nm,"v")],[(nm,nm+".txt","text/plain",b"d")],"names")
for d in bvals:
    if ill(d,BND): continue
    roundtrip([],[("f","f.bin","application/octet-stream",d)],"single-file")
small=[v for v in strings(TA,1)]
for v1,v2 in itertools.product(small,repeat=2):
    roundtrip([("a",v1),("a",v2)],[],"pair"); roundtrip([("a",v1)],[("f","f","text/plain",v2.encode())],"mixed")
# urlencoded
UA=["a","&","=","+","%"," ",";","#","é","𝄞","\0","%41"]
uvals=list(strings(UA,2))
for k in uvals[:60]:
    for v in uvals:
        N+=1
        pairs=[(k or "k",v),("z",""),(k or "k","2")]
        b=EnvironBuilder(method="POST",data=MultiDict(pairs),query_string=MultiDict(pairs)); req=b.get_request(Request)
        if list(req.form.items(multi=True))!=sorted(pairs,key=lambda p:[x[0] for x in pairs].index(p[0])) and sorted(req.form.items(multi=True))!=sorted(pairs): rec("urlenc-form",(pairs,list(req.form.items(multi=True))))
        if sorted(req.args.items(multi=True))!=sorted(pairs): rec("urlenc-args",(pairs,list(req.args.items(multi=True))))
print(N,round(time.time()-t0,1))
for k,v in sorted(bad.items()): print(k,v,str(ex[k])[:300])
