import itertools, collections, posixpath, os, unicodedata
from werkzeug.security import safe_join
from werkzeug.utils import secure_filename
bad=collections.Counter();ex={}
def rec(k,v): bad[k]+=1; ex.setdefault(k,v)
AT=["..",".","","/","//","\\","C:","~","%2e%2e","a\0b","a","a.b",".a","a/..","a/../..","../a","/etc","..a","a/./..","./..","..\\a"]
N=0
for base in ["/base/dir","rel/dir","","/","."]:
    nb=posixpath.normpath(posixpath.join("/cwd",base or "."))
    for n in (1,2,3):
        for t in itertools.product(AT,repeat=n):
            N+=1
            try: r=safe_join(base,*t)
            except Exception as e: rec("exc:"+type(e).__name__,(base,t)); continue
            if r is None: continue
            nr=posixpath.normpath(posixpath.join("/cwd",r))
            if not (nr==nb or nr.startswith(nb.rstrip("/")+"/")): rec("escape",(base,t,r,nr))
M=0
for cp in range(0x10000):
    if 0xD800<=cp<=0xDFFF: continue
    c=chr(cp)
    for s in (c,"a"+c+"b",c+"a","a"+c):
        M+=1; f=secure_filename(s)
        if not f.isascii() or any(ch in f for ch in "/\\ \t\n") or f.startswith(".") or secure_filename(f)!=f: rec("secure_filename",(s,f))
print(N,M,bad,ex)
