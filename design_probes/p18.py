import itertools, collections, time, contextvars
from werkzeug.local import Local, LocalStack, LocalProxy, LocalManager, release_local
bad=collections.Counter();ex={}
def rec(k,v): bad[k]+=1; ex.setdefault(k,v)
OPS=["set x=1","set x=2","set y=1","get x","del x","iter","push 1","push 2","pop","top","release","cleanup","proxy x","proxy top","spawn"]
class World:
    def __init__(s):
        s.loc=Local(); s.st=LocalStack(); s.mgr=LocalManager([s.loc,s.st]); s.px=s.loc("x"); s.pt=s.st()
def do(w,op):
    loc,st=w.loc,w.st
    if op.startswith("set "):
        k,v=op[4:].split("="); setattr(loc,k,int(v)); return None
    if op=="get x":
        try: return loc.x
        except AttributeError: return "AE"
    if op=="del x":
        try: del loc.x; return None
        except AttributeError: return "AE"
    if op=="iter": return sorted(loc)
    if op.startswith("push "): st.push(int(op[5:])); return None
    if op=="pop": return st.pop()
    if op=="top": return st.top
    if op=="release": release_local(loc); release_local(st); return None
    if op=="cleanup": w.mgr.cleanup(); return None
    if op=="proxy x":
        try: return (w.px+0, bool(w.px), repr(w.px))
        except RuntimeError: return ("RE",bool(w.px),repr(w.px))
    if op=="proxy top":
        try: return (w.pt+0, bool(w.pt))
        except RuntimeError: return ("RE",bool(w.pt),repr(w.pt))
def model_do(m,op):
    d,s=m
    if op.startswith("set "):
        k,v=op[4:].split("="); d=dict(d); d[k]=int(v); return (d,s),None
    if op=="get x": return m,(d["x"] if "x" in d else "AE")
    if op=="del x":
        if "x" in d: d=dict(d); del d["x"]; return (d,s),None
        return m,"AE"
    if op=="iter": return m,sorted(d.items())
    if op.startswith("push "): return (d,s+(int(op[5:]),)),None
    if op=="pop": return ((d,s[:-1]),s[-1]) if s else (m,None)
    if op=="top": return m,(s[-1] if s else None)
    if op in("release","cleanup"): return ({},()),None
    if op=="proxy x":
        if "x" in d: return m,(d["x"],bool(d["x"]),repr(d["x"]))
        return m,("RE",False,"<LocalProxy unbound>")
    if op=="proxy top":
        if s: return m,(s[-1],bool(s[-1]))
        return m,("RE",False,"<LocalProxy unbound>")
def observe(w): 
    return (dict(w.loc), tuple(w.st._storage.get([])))
def interleavings(lens):
    # all merge orders of sequences with given lengths
    def rec_(rem):
        if not any(rem): yield (); return
        for i,r in enumerate(rem):
            if r:
                rem2=list(rem); rem2[i]-=1
                for rest in rec_(rem2): yield (i,)+rest
    yield from rec_(list(lens))
def run(progs,order,parent_pre):
    w=World()
    root=contextvars.copy_context()
    ctxs=[]; models=[]
    # parent prefix executed in root, then ctx0 = root itself continues, ctx1 = child copy (spawned at point), ctx2 sibling fresh
    for op in parent_pre: root.run(do,w,op)
    mroot=({},())
    for op in parent_pre: mroot,_=model_do(mroot,op)
    ctxs=[root.copy() for _ in progs]; models=[mroot for _ in progs]
    idx=[0]*len(progs)
    for step,c in enumerate(order):
        op=progs[c][idx[c]]; idx[c]+=1
        if op=="spawn":
            ctxs.append(ctxs[c].copy()); models.append(models[c]); continue
        r=ctxs[c].run(do,w,op); models[c],mr=model_do(models[c],op)
        if r!=mr: rec("ret",(parent_pre,progs,order,step,op,r,mr)); return
        for j,cx in enumerate(ctxs):
            ob=cx.run(observe,w)
            if ob!=(models[j][0],models[j][1]): rec("leak",(parent_pre,progs,order,step,op,j,ob,models[j])); return
t0=time.time();N=0;steps=0
A=[o for o in OPS]
for pre in [(),("set x=1","push 1")]:
    for p0 in itertools.product(A,repeat=2):
        for p1 in itertools.product(A,repeat=2):
            for order in interleavings([2,2]):
                N+=1; run([p0,p1],order,pre)
print(N,round(time.time()-t0,1),bad)
for k,v in ex.items(): print(k,v)
