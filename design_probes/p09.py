import io, itertools, collections, time
from werkzeug.wsgi import LimitedStream
from werkzeug.exceptions import ClientDisconnected, RequestEntityTooLarge
bad=collections.Counter();ex={}
def rec(k,v): bad[k]+=1; ex.setdefault(k,v)
class Env:
    """underlying stream whose answers are chosen by a choice list; default = full answer"""
    def __init__(s,data,choices,has_readinto):
        s.data=data; s.pos=0; s.choices=choices; s.ci=0; s.points=[]; s.calls=0; s.has_readinto=has_readinto
    def _answer(s,asked):
        s.calls+=1
        if s.calls>50: raise RuntimeError("HANG")
        left=len(s.data)-s.pos
        full=min(asked,left) if asked>=0 else left
        # options: full, shorter lengths full-1..1, 0 (early EOF) only meaningful if full>0, error
        opts=[full]+list(range(full-1,0,-1))+([0] if full>0 else [])+["ERR"]
        c=s.choices[s.ci] if s.ci<len(s.choices) else 0
        s.points.append(len(opts)); s.ci+=1
        return opts[c]
    def read(s,n=-1):
        a=s._answer(n)
        if a=="ERR": raise OSError("boom")
        out=s.data[s.pos:s.pos+a]; s.pos+=a; return out
class EnvRI(Env):
    def readinto(s,b):
        a=s._answer(len(b))
        if a=="ERR": raise OSError("boom")
        b[:a]=s.data[s.pos:s.pos+a]; s.pos+=a; return a
OPS={"read1":lambda f:f.read(1),"read2":lambda f:f.read(2),"read":lambda f:f.read(),"readline":lambda f:f.readline(),"readline2":lambda f:f.readline(2),
     "readlines":lambda f:b"".join(f.readlines()),"readinto3":lambda f:(lambda b:(lambda n:bytes(b[:n or 0]))(f.readinto(b)))(bytearray(3)),"next":lambda f:next(iter(f),b""),}
def run(data,limit,is_max,wrap,ri,ops,choices):
    env=(EnvRI if ri else Env)(data,choices,ri)
    ls=LimitedStream(env,limit,is_max)
    f=ls if wrap is None else io.BufferedReader(ls,buffer_size=wrap)
    got=b""; outcome=[]
    for op in ops:
        try:
            r=OPS[op](f)
            if op=="exhaust": pass
            got+=r or b""; outcome.append(("ok",r))
        except ClientDisconnected: outcome.append(("CD",)); break
        except RequestEntityTooLarge: outcome.append(("RETL",)); break
        except RuntimeError as e:
            outcome.append(("HANG",)) ; break
        except Exception as e: outcome.append(("EXC",type(e).__name__,str(e)[:40])); break
    return env,ls,got,outcome
def explore(cfg):
    data,limit,is_max,wrap,ri,ops=cfg
    n=0
    stack=[[]]
    while stack:
        pre=stack.pop()
        env,ls,got,outcome=run(data,limit,is_max,wrap,ri,ops,pre); n+=1
        # oracle
        ctx=(cfg,pre,outcome,got,env.pos)
        if not data.startswith(got): rec("not-prefix",ctx)
        if len(got)>limit: rec("over-limit-out",ctx)
        if env.pos>limit: rec("over-read",ctx)
        if wrap is None and ls._pos!=env.pos: rec("pos-mismatch",ctx)
        for o in outcome:
            if o[0] in("EXC","HANG"): rec("bad-exc:"+o[1] if o[0]=="EXC" else "hang",ctx)
        for i in range(len(pre),len(env.points)):
            for alt in range(1,env.points[i]):
                stack.append(pre+[0]*(i-len(pre))+[alt])
    return n
t0=time.time(); tot=0; cfgs=0
for nlen in (0,1,3):
  data=b"ab\ncd"[:nlen] if nlen<5 else b"ab\ncd"
  for limit in sorted({0,max(nlen-1,0),nlen,nlen+1,nlen+3}):
    for is_max in (False,True):
      for wrap in (None,2):
        for ri in (False,True):
          for ops in itertools.product(OPS,repeat=2):
            tot+=explore((data,limit,is_max,wrap,ri,ops)); cfgs+=1
print(cfgs,tot,round(time.time()-t0,1),"s",bad)
for k,v in ex.items(): print(k,v)
