import itertools, collections, uuid
from urllib.parse import unquote, urlsplit, parse_qsl
from werkzeug.routing import Map, Rule, Submount, Subdomain
from werkzeug.exceptions import HTTPException
bad=collections.Counter();ex={}
def rec(k,v): bad[k]+=1; ex.setdefault(k,v)
A=["a","é"," ",";","?","#","%","+","&","=",":","@","~",'"',"<","𝄞","%2F",".","\n","\\"]
def strings(A,n):
    for k in range(1,n+1):
        for t in itertools.product(A,repeat=k): yield "".join(t)
svals=list(strings(A,2))
rules=[Rule("/s/<string:v>",endpoint="s"),Rule("/s2/<string(length=2):v>",endpoint="s2"),Rule("/i/<int:v>",endpoint="i"),Rule("/si/<int(signed=True):v>",endpoint="si"),
 Rule("/fd/<int(fixed_digits=3):v>",endpoint="fd"),Rule("/f/<float:v>",endpoint="f"),Rule("/sf/<float(signed=True):v>",endpoint="sf"),Rule("/any/<any(a,b):v>",endpoint="any"),
 Rule("/u/<uuid:v>",endpoint="u"),Rule("/p/<path:v>",endpoint="p"),Rule("/pb/<path:v>/",endpoint="pb"),Rule("/two/<v>/x/<int:w>",endpoint="two"),
 Submount("/sub",[Rule("/m/<v>",endpoint="sm")]),Subdomain("sd",[Rule("/d/<v>",endpoint="sd")]),Rule("/def/",endpoint="def",defaults={"v":1}),Rule("/def/<int:v>",endpoint="def")]
m=Map(rules)
vals={"s":svals,"s2":[v for v in svals if len(v)==2],"i":[0,1,7,10,123],"si":[0,-1,-12,5],"fd":[0,7,12,123],"f":[0.0,1.5,10.25],"sf":[-1.5,2.0,-0.0],
 "any":["a","b"],"u":[uuid.UUID(int=1),uuid.UUID("12345678-1234-5678-1234-567812345678")],"p":["a/b","a/b/c","é/x y","a//b","a"]+[s for s in svals[:50]],"pb":["a/b","a"],"sm":svals[:80],"sd":svals[:80],"def":[1,2]}
n=0
for script in ["/","/app","/app/"]:
  for fe in (False,True):
    ad=m.bind("example.com",script_name=script,subdomain="")
    for ep,vs in vals.items():
      for v in vs:
        values={"v":v}
        if ep=="two": values["w"]=3
        n+=1
        try: url=ad.build(ep,values,force_external=fe)
        except Exception as e: rec("build-exc",(ep,v,repr(e))); continue
        sp=urlsplit(url)
        path=sp.path
        root=script.rstrip("/")
        if not path.startswith(root+"/"): rec("root",(ep,v,url)); continue
        pi=unquote(path[len(root):])
        sub="sd" if ep=="sd" else ""
        ad2=m.bind("example.com",script_name=script,subdomain=sub)
        try: got=ad2.match(pi)
        except HTTPException as e: rec("match-exc:"+type(e).__name__,(ep,v,url,pi)); continue
        exp=dict(values)
        if got!=(ep,exp): rec("mismatch",(ep,v,url,got))
        try:
            url2=ad2.build(got[0],got[1],force_external=fe)
            if urlsplit(url2).path!=path: rec("converse",(ep,v,url,url2))
        except Exception as e: rec("build2-exc",(ep,v,repr(e)))
print(n,bad)
for k,v in ex.items(): print(k,v)
