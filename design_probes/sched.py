import sys, threading, contextvars, time
from werkzeug.local import Local, LocalStack
TARGET = Local.__setattr__.__code__.co_filename
class Sched:
    def __init__(self, bodies, choices):
        self.n=len(bodies); self.bodies=bodies; self.choices=list(choices); self.pos=0
        self.sems=[threading.Semaphore(0) for _ in bodies]; self.main=threading.Semaphore(0)
        self.done=[False]*self.n; self.points=[]; self.cur=None
    def _trace(self, tid):
        def local(frame, event, arg):
            if event=="line": self._yield(tid)
            return local
        def glob(frame, event, arg):
            if event=="call" and frame.f_code.co_filename==TARGET: return local
            return None
        return glob
    def _yield(self, tid):
        self.main.release(); self.sems[tid].acquire()
    def _run(self, tid):
        self.sems[tid].acquire()
        sys.settrace(self._trace(tid))
        try: self.bodies[tid]()
        finally:
            sys.settrace(None); self.done[tid]=True; self.main.release()
    def run(self):
        ths=[threading.Thread(target=self._run,args=(i,)) for i in range(self.n)]
        for t in ths: t.start()
        cur=0
        while not all(self.done):
            enabled=[i for i in range(self.n) if not self.done[i]]
            # canonical order: current first
            if cur in enabled: enabled=[cur]+[i for i in enabled if i!=cur]
            c=self.choices[self.pos] if self.pos<len(self.choices) else 0
            self.points.append((len(enabled), cur in enabled))
            cur=enabled[c]; self.pos+=1
            self.sems[cur].release(); self.main.acquire()
        for t in ths: t.join()
        return self.points
def explore(mk, bound):
    runs=0; outcomes={}
    def rec(prefix, cost):
        nonlocal runs
        bodies, obs = mk()
        s=Sched(bodies, prefix); pts=s.run(); runs+=1
        outcomes[obs()]=outcomes.get(obs(),0)+1
        for i in range(len(prefix), len(pts)):
            nen, cur_en = pts[i]
            for alt in range(1,nen):
                c = cost + (1 if cur_en else 0)
                # recompute cost of prefix up to i: count preemptions in default continuation = 0
                if c>bound: continue
                rec(prefix+[0]*(i-len(prefix))+[alt], c)
    rec([],0); return runs,outcomes
def mk():
    loc=Local(); loc.x=(0,)
    ctx=contextvars.copy_context()
    res={}
    def a():
        def f(): loc.x=loc.x+(1,); res['a']=loc.x
        ctx.copy().run(f)
    def b():
        def f(): loc.y=5; res['b']=(loc.x, getattr(loc,'y',None))
        ctx.copy().run(f)
    return [a,b], (lambda: (res.get('a'),res.get('b'), loc.x, getattr(loc,'y',None)))
t=time.perf_counter()
for bound in (0,1,2):
    print(bound, explore(mk,bound), round(time.perf_counter()-t,2))
