import itertools, collections, time, re, warnings
warnings.simplefilter("ignore")
from werkzeug.http import dump_cookie, parse_cookie
from werkzeug.sansio.http import parse_cookie as sparse
from werkzeug.test import Client
from werkzeug.wrappers import Request, Response
bad=collections.Counter();ex={}
def rec(k,v): bad[k]+=1; ex.setdefault(k,v)
OCT=r"[\x21\x23-\x2B\x2D-\x3A\x3C-\x5B\x5D-\x7E]"
VAL=re.compile(rf'(?:{OCT}*|"(?:{OCT}| |\\[0-3][0-7][0-7]|\\"|\\\\)*")\Z')
def check(v,ctx=""):
    h=dump_cookie("k",v,path=None)
    if not h.isascii(): rec("nonascii",(v,h)); 
    assert h.startswith("k=")
    val=h[2:]
    if not VAL.match(val): rec("value-syntax",(v,h))
    r1=sparse(h).get("k"); r2=parse_cookie({"HTTP_COOKIE":h}).get("k")
    if r1!=v: rec("roundtrip-sansio",(v,h,r1))
    if r2!=v: rec("roundtrip-environ",(v,h,r2))
t0=time.time();N=0
for cp in range(0,0x10000):
    if 0xD800<=cp<=0xDFFF: continue
    c=chr(cp)
    for v in (c,"a"+c+"b",c+c): N+=1; check(v)
A=["a",'"',";",",","\\","="," ","\t","\r","\n","\0","\x19","\x1a","\x1f","\x7f","%","é","😀","\\054"]
for n in (1,2,3):
    for t in itertools.product(A,repeat=n): N+=1; check("".join(t))
print(N,round(time.time()-t0,1))
for k,v in sorted(bad.items()): print(k,v,ex[k])
# jar
@Request.application
def app(req):
    if req.path=="/set":
        r=Response("ok"); r.set_cookie("k",req.args["v"]); return r
    return Response(req.cookies.get("k","<none>"))
jbad=collections.Counter();jex={}
for t in itertools.product(A,repeat=2):
    v="".join(t)
    c=Client(app); c.get("/set",query_string={"v":v}); got=c.get("/get").text
    if got!=v: jbad["jar"]+=1; jex.setdefault("jar",(v,got))
print(jbad,jex)
