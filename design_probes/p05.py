import io, itertools, collections, time
from http import HTTPStatus
from werkzeug.wrappers import Response
from werkzeug.test import create_environ
from werkzeug.wsgi import FileWrapper
from werkzeug.datastructures import Headers
bad=collections.Counter();ex={}
def rec(k,v): bad[k]+=1; ex.setdefault(k,v)
class CloseIter:
    def __init__(s,items): s.it=iter(items); s.closed=0
    def __iter__(s): return s
    def __next__(s): return next(s.it)
    def close(s): s.closed+=1
class CountFile(io.BytesIO):
    closed_n=0
    def close(s): s.closed_n+=1; super().close()
def gen(items):
    for i in items: yield i
BODIES={
 "str":lambda:("héllo",None,False),"bytes":lambda:(b"hello",None,False),"list":lambda:(["a","bé",""],None,False),"tuple_b":lambda:((b"a",b"",b"bc"),None,False),
 "gen":lambda:(gen([b"ab",b"",b"c"]),None,False),"closable":lambda:((lambda c:(c,c,False))(CloseIter([b"ab",b"c"]))),"empty":lambda:(None,None,False),
 "fw":lambda:((lambda f:(FileWrapper(f,2),f,True))(CountFile(b"abcde"))),
}
STATUS=[100,101,200,201,204,206,301,304,404,500,HTTPStatus.NO_CONTENT,"204 NO CONTENT","304 x","299 Custom","200"]
def expected_bytes(name):
    return {"str":"héllo".encode(),"bytes":b"hello","list":"abé".encode(),"tuple_b":b"abc","gen":b"abc","closable":b"abc","empty":b"","fw":b"abcde"}[name]
t0=time.time();N=0
for bname,mk in BODIES.items():
  for st in STATUS:
    for method in ("GET","HEAD","POST"):
      for ncb in (0,1,2):
        for loc in (None,"/rel","http://h/abs","/é x","//other/p"):
          for auto in (True,False):
            N+=1
            body,closer,dp=mk()
            r=Response(body,status=st,direct_passthrough=dp); r.autocorrect_location_header=auto
            if loc: r.headers["Location"]=loc
            calls=[0]*ncb
            for i in range(ncb): r.call_on_close(lambda i=i:calls.__setitem__(i,calls[i]+1))
            env=create_environ(method=method)
            ctx=(bname,st,method,ncb,loc,auto)
            try:
                app_iter,status,headers=r.get_wsgi_response(env)
                data=b"".join(app_iter)
                if hasattr(app_iter,"close"): app_iter.close()
            except Exception as e: rec("exc:"+type(e).__name__,ctx+(str(e)[:50],)); continue
            code=int(status.split()[0]); H=Headers(headers)
            for k,v in headers:
                if not isinstance(v,str) or "\r" in v or "\n" in v: rec("hdr-value",ctx+(k,v))
            nobody=method=="HEAD" or 100<=code<200 or code in(204,304)
            if nobody and data: rec("body-on-bodyless",ctx+(data,))
            if (100<=code<200 or code==204) and "Content-Length" in H: rec("cl-on-1xx204",ctx)
            if not nobody and data!=expected_bytes(bname): rec("body-bytes",ctx+(data,))
            if "Content-Length" in H and not nobody and int(H["Content-Length"])!=len(data): rec("cl-mismatch",ctx+(H["Content-Length"],len(data)))
            if loc and not H["Location"].isascii(): rec("loc-nonascii",ctx+(H["Location"],))
            if any(c!=1 for c in calls): rec("callbacks:"+("dp" if dp else "normal"),ctx+(calls,))
            if isinstance(closer,CloseIter) and closer.closed!=1: rec("iter-close",ctx+(closer.closed,))
            if isinstance(closer,CountFile) and closer.closed_n!=1: rec("file-close:"+("nobody" if nobody else "body"),ctx+(closer.closed_n,))
print(N,round(time.time()-t0,1))
for k,v in sorted(bad.items()): print(k,v,ex[k])
