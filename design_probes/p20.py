import types, json
import werkzeug.debug as dbg
from werkzeug.test import Client, create_environ
from werkzeug.wrappers import Response
class FakeTime:
    now=1_700_000_000.0
    @staticmethod
    def time(): return FakeTime.now
    @staticmethod
    def sleep(s): FakeTime.now+=s
dbg.time=FakeTime
def app(e,s): raise RuntimeError("x")
d=dbg.DebuggedApplication(app,evalex=True)
d.pin_cookie_name; d.pin="123-456-789"
def pinauth(pin,cookie=None):
    env=create_environ(f"/?__debugger__=yes&cmd=pinauth&pin={pin}&s={d.secret}",headers={"Host":"localhost"})
    if cookie: env["HTTP_COOKIE"]=f"{d.pin_cookie_name}={cookie}"
    status=[]
    body=b"".join(d(env,lambda s,h: status.append((s,h))))
    return json.loads(body), d._failed_pin_auth.value
for i in range(12): r=pinauth("000")
print("after 12 wrong:",r); print("right:",pinauth("123456789"))
for i in range(250): r=pinauth("x",cookie="1|deadbeef")
print("after bad cookies:",r); print("right:",pinauth("123456789"))
