import io, itertools, collections, time
from werkzeug.formparser import MultiPartParser, FormDataParser
from werkzeug.sansio.multipart import MultipartDecoder, NeedData, Field, File, Data, Epilogue
from werkzeug.exceptions import RequestEntityTooLarge
from werkzeug.wrappers import Request
from werkzeug.test import create_environ
bad=collections.Counter();ex={}
def rec(k,v): bad[k]+=1; ex.setdefault(k,v)
B=b"bnd"
def body(parts):
    b=b""
    for name,fn,payload in parts:
        b+=b"\r\n--"+B+b'\r\nContent-Disposition: form-data; name="'+name+b'"'
        if fn is not None: b+=b'; filename="'+fn+b'"'
        b+=b"\r\n\r\n"+payload
    return b+b"\r\n--"+B+b"--\r\n"
class Short(io.BytesIO):
    pass
def parse(bd,bs,mfms,mparts):
    p=MultiPartParser(max_form_memory_size=mfms,max_form_parts=mparts,buffer_size=bs)
    try:
        form,files=p.parse(io.BytesIO(bd),B,len(bd))
        return ("ok",list(form.items(multi=True)),[(k,f.filename,f.read()) for k,f in files.items(multi=True)])
    except RequestEntityTooLarge: return ("RETL",)
    except Exception as e: return ("EXC",type(e).__name__,str(e)[:40])
L=64
cases={
 "field L-1":[(b"a",None,b"x"*(L-1))],"field L":[(b"a",None,b"x"*L)],"field L+1":[(b"a",None,b"x"*(L+1))],"field 3L":[(b"a",None,b"x"*(3*L))],
 "file 3L":[(b"f",b"f.bin",b"y"*(3*L))],"file 3L nl":[(b"f",b"f.bin",(b"y"*10+b"\r\n")*20)],"5 parts":[(b"a%d"%i,None,b"v") for i in range(5)],
 "field crlf":[(b"a",None,b"\r\n"*(L))],
}
t0=time.time();N=0
for cname,parts in cases.items():
    bd=body(parts); ref=parse(bd,len(bd)+1,None,None)
    assert ref[0]=="ok",ref
    for mfms in (None,L,10*L):
        for mparts in (None,1,5,6):
            outs=collections.Counter()
            for bs in range(1,len(bd)+2):
                N+=1
                out=parse(bd,bs,mfms,mparts); outs[out[0]]+=1
                ctx=(cname,mfms,mparts,bs,out[:1])
                if out[0]=="EXC": rec("exc",ctx+out)
                if out[0]=="ok" and out!=ref: rec("not-pure-guard",ctx)
                big_field=any(fn is None and mfms is not None and len(pl)>mfms for _,fn,pl in parts)
                many=mparts is not None and len(parts)>mparts
                if (big_field or many) and out[0]!="RETL": rec("limit-bypassed",ctx)
                if not big_field and not many and out[0]=="RETL":
                    rec("spurious-RETL:"+cname+f":mfms={mfms}",ctx)
print(N,round(time.time()-t0,1))
for k,v in sorted(bad.items()): print(k,v,ex[k])
# urlencoded without content length
for cl,term in ((None,True),("200",False)):
    env=create_environ(method="POST",data=b"a="+b"x"*198,content_type="application/x-www-form-urlencoded")
    if cl is None: del env["CONTENT_LENGTH"]; env["wsgi.input_terminated"]=True
    class R(Request): max_form_memory_size=50
    try: print("urlencoded",cl,term,len(R(env).form["a"]))
    except Exception as e: print("urlencoded",cl,term,type(e).__name__)
