import itertools, collections, re, uuid, sys, time
from werkzeug.routing import Map, Rule
from werkzeug.exceptions import NotFound, MethodNotAllowed
from werkzeug.routing.exceptions import RequestRedirect
# --- rule grammar: a rule is (segments, trailing_slash, methods); segment = ("lit",text) | ("var",pre,conv,args,name,post) ; optional final ("path",name)
CONV={
 "string":(r"[^/]+",lambda s:s,100),
 "string(length=2)":(r"[^/]{2}",lambda s:s,100),
 "string(minlength=2)":(r"[^/]{2,}",lambda s:s,100),
 "int":(r"\d+",int,50),
 "int(fixed_digits=2)":(r"\d+",int,50),   # validation: len==2
 "float":(r"\d+\.\d+",float,50),
 "any(a,b)":(r"(?:a|b)",lambda s:s,100),
 "uuid":(r"[A-Fa-f0-9]{8}-[A-Fa-f0-9]{4}-[A-Fa-f0-9]{4}-[A-Fa-f0-9]{4}-[A-Fa-f0-9]{12}",uuid.UUID,100),
 "path":(r"[^/](?:.*[^/])?",lambda s:s,200),
}
def rule_string(segs,trail):
    out=""
    for s in segs:
        out+="/"
        if s[0]=="lit": out+=s[1]
        else: out+=f"{s[1]}<{s[2]}:{s[3]}>{s[4]}"
    return out+("/" if trail else "")
def seg_regex(s):
    if s[0]=="lit": return re.escape(s[1])
    return re.escape(s[1])+f"(?P<{s[3]}>{CONV[s[2]][0]})"+re.escape(s[4])
def rule_regex(segs,trail):
    return re.compile("".join("/"+seg_regex(s) for s in segs)+("/" if trail else "")+r"\Z",re.S)
def admit(r,path):
    """exact admission of path by rule pattern -> args or None"""
    m=r["re"].match(path)
    if not m: return None
    args={}
    for s in r["segs"]:
        if s[0]=="var":
            raw=m.group(s[3])
            if s[2]=="int(fixed_digits=2)" and len(raw)!=2: return None
            args[s[3]]=CONV[s[2]][1](raw)
    return args
def mk(segs,trail,methods,endpoint):
    return dict(segs=segs,trail=trail,methods=None if methods is None else (set(methods)|({"HEAD"} if "GET" in methods else set())),endpoint=endpoint,str=rule_string(segs,trail),re=rule_regex(segs,trail),
                re_noslash=rule_regex(segs,False),re_slash=rule_regex(segs,True))
def ok_method(r,m): return r["methods"] is None or m in r["methods"]
def better(r1,r2):
    """r1 strictly beats r2 per documented order; None if incomparable"""
    for a,b in itertools.zip_longest(r1["segs"],r2["segs"]):
        if a is None or b is None: return None
        if a==b: continue
        if a[0]=="lit" and b[0]=="lit": return None   # different literals can't both admit
        if a[0]=="lit" and b[0]=="var" and not b[1] and not b[4]: return True
        if b[0]=="lit" and a[0]=="var" and not a[1] and not a[4]: return False
        if a[0]=="var" and b[0]=="var" and not(a[1] or a[4] or b[1] or b[4]):
            wa,wb=CONV[a[2]][2],CONV[b[2]][2]
            if wa<wb: return True
            if wb<wa: return False
        return None
    return None
def ref(rules,path,method,strict,merge):
    def analyse(p):
        E=[];R=[]
        for r in rules:
            a=admit(r,p)
            if a is not None: E.append((r,a))
            if not strict:
                # non-strict: branch rule admits without slash; leaf admits with slash
                if r["trail"] and not p.endswith("/"):
                    m=admit(r,p+"/")
                    if m is not None: E.append((r,m))
                if not r["trail"] and p.endswith("/") and p!="/":
                    m=admit(r,p[:-1])
                    if m is not None: E.append((r,m))
            else:
                if r["trail"] and not p.endswith("/"):
                    m=admit(r,p+"/")
                    if m is not None: R.append((r,m))
        return E,R
    E,R=analyse(path)
    return E,R
# universe
def universe():
    lits=["a","b","12"]
    vars_=[("var","",c,"x","") for c in ["string","string(length=2)","int","int(fixed_digits=2)","float","any(a,b)"]]+[("var","p","int","x",""),("var","","string","x","s")]
    segs1=[("lit",l) for l in lits]+vars_
    U=[]
    for s in segs1:
        for trail in (False,True):
            U.append(([s],trail))
    for s1 in [("lit","a"),("var","","string","y","")]:
        for s2 in [("lit","b"),("var","","int","x",""),("var","","string","x","")]:
            for trail in (False,True): U.append(([s1,s2],trail))
    U.append(([("var","","path","x","")],False)); U.append(([("lit","a"),("var","","path","x","")],False)); U.append(([("var","","path","x","")],True))
    return U
U=universe()
segvals=["a","b","12","1","123","1.5","xy","x","p1","xs",""]
paths=set()
for n in (1,2,3):
    for t in itertools.product(segvals,repeat=n):
        if n==3 and ("" not in t): continue
        paths.add("/"+"/".join(t))
paths=sorted(paths)
print(len(U),len(paths))
bad=collections.Counter();ex={}
def rec(k,v): bad[k]+=1; ex.setdefault(k,v)
t0=time.time(); nmaps=0; nev=0
import random
pairs=list(itertools.combinations(range(len(U)),2))
for (i,j) in pairs[::7]:
  for methods in ((None,None),(["GET"],["POST"])):
    for strict in (True,False):
      for order in ((i,j),(j,i)):
        rs=[mk(U[i][0],U[i][1],methods[0],f"e{i}"),mk(U[j][0],U[j][1],methods[1],f"e{j}")]
        rsm={r["endpoint"]:r for r in rs}
        try: m=Map([Rule(rsm[f"e{k}"]["str"],endpoint=f"e{k}",methods=rsm[f"e{k}"]["methods"]) for k in order],strict_slashes=strict,merge_slashes=False)
        except Exception as e: rec("mapexc",(rs[0]["str"],rs[1]["str"],repr(e))); continue
        ad=m.bind("h"); nmaps+=1
        for p in paths:
            if "//" in p[:-1] and False: continue
            for meth in ("GET","POST"):
                nev+=1
                try:
                    rule,args=ad.match(p,method=meth,return_rule=True); out=("match",rule.endpoint,dict(args))
                except RequestRedirect as e: out=("redir",e.new_url)
                except MethodNotAllowed as e: out=("405",frozenset(e.valid_methods))
                except NotFound: out=("404",)
                pn="/"+p.lstrip("/")
                E,R=ref(rs,pn,meth,strict,False)
                Em=[(r,a) for r,a in E if ok_method(r,meth)]; Eo=[(r,a) for r,a in E if not ok_method(r,meth)]
                Rm=[(r,a) for r,a in R if ok_method(r,meth)]
                ctx=(rs[0]["str"],rs[1]["str"],order,strict,p,meth,out,[(r["str"]) for r,a in E],[r["str"] for r,a in R])
                if out[0]=="match":
                    c=[(r,a) for r,a in Em if r["endpoint"]==out[1] and a==out[2]]
                    if not c: rec("match-not-admitted",ctx)
                    else:
                        for r2,_ in Em+Rm:
                            if better(r2,c[0][0]) is True: rec("match-not-best",ctx)
                elif out[0]=="redir":
                    if not Rm: rec("redir-unjustified",ctx)
                    elif out[1]!="http://h"+pn+"/": rec("redir-target",ctx)
                    else:
                        for r2,_ in Em:
                            if all(better(r2,r) is True for r,_ in Rm): rec("redir-not-best",ctx)
                elif out[0]=="405":
                    if Em or Rm: rec("405-but-admitted",ctx)
                    elif not Eo: rec("405-no-rule",ctx)
                    else:
                        exp=frozenset().union(*[r["methods"] for r,_ in Eo])
                        if exp!=out[1]: rec("405-methods",ctx+(exp,))
                else:
                    if Em or Rm: rec("404-but-admitted",ctx)
                    elif [1 for r,a in Eo if admit(r,pn) is not None]: rec("404-should-405",ctx)
print(nmaps,nev,round(time.time()-t0,1),bad)
for k,v in ex.items(): print(k,v)
