import itertools, collections
from werkzeug.urls import iri_to_uri, uri_to_iri
bad=collections.Counter();ex={}
def rec(k,v,got): bad[k]+=1; ex.setdefault(k,(v,got))
A=["a","é","%C3%A9","%FF","%2F","%3F","%23","%25","%26","%3D"," ",";","+","/","%zz","%2f"]
def seqs(A,n):
    yield ""
    for k in range(1,n+1):
        for t in itertools.product(A,repeat=k): yield "".join(t)
hosts=["example.com","EXAMPLE.com","bücher.example","xn--bcher-kva.example","127.0.0.1","[::1]"]
users=["","u@","u:p@","ü:p%40x@"]
ports=["",":80",":8080"]
comp=list(seqs(A,2))
n=0
def check(x):
    global n; n+=1
    try:
        u=iri_to_uri(x)
    except Exception as e: rec("exc-iri_to_uri",x,repr(e)); return
    if not u.isascii(): rec("nonascii",x,u)
    if iri_to_uri(u)!=u: rec("idem",x,(u,iri_to_uri(u)))
    try: i=uri_to_iri(u)
    except Exception as e: rec("exc-uri_to_iri",(x,u),repr(e)); return
    u2=iri_to_uri(i)
    if u2!=u: rec("fix-uri",x,(u,i,u2))
    i2=uri_to_iri(u2)
    if i2!=i: rec("fix-iri",x,(i,i2))
for sch in ["http://","https://",""]:
  for us in users:
    for h in hosts:
      for p in ports:
        if sch=="" : base=""
        else: base=sch+us+h+p
        for c in comp[:60]:
            check(base+"/"+c)
        if sch=="": break
      if sch=="": break
    if sch=="": break
for pth in comp:
    for q in ["","?"+comp[5],"?a=%26&b=é"]:
        check("http://example.com/"+pth+q)
for q in comp: check("http://example.com/p?"+q); check("http://example.com/p#"+q)
print(n,bad)
for k,v in ex.items(): print(k,v)
