import itertools, collections, datetime as dtm
from werkzeug import http
from werkzeug.datastructures import ETags, Range, ContentRange, IfRange, Authorization, WWWAuthenticate, ResponseCacheControl, RequestCacheControl, ContentSecurityPolicy
bad=collections.Counter(); ex={}
def rec(k,v,got): bad[k]+=1; ex.setdefault(k,(v,got))
T=["a","b c","é",",","W/x","a,b"]
for r in range(0,3):
  for s in itertools.combinations(T,r):
    for w in itertools.combinations(T,2-r if r<2 else 0):
        e=ETags(s,w); p=http.parse_etags(e.to_header())
        if (p.as_set(),p.as_set(True),p.star_tag)!=(e.as_set(),e.as_set(True),e.star_tag): rec("etags",(s,w,e.to_header()),(p.as_set(),p.as_set(True)))
# ranges
singles=[(s,e) for s in range(0,5) for e in range(s+1,6)]+[(s,None) for s in range(0,4)]+[(-n,None) for n in range(1,4)]
for rg in singles:
    r=Range("bytes",[rg]); p=http.parse_range_header(r.to_header())
    if p is None or list(p.ranges)!=[rg]: rec("range1",(rg,r.to_header()),p and p.ranges)
for a,b in itertools.product(singles,repeat=2):
    try: r=Range("bytes",[a,b])
    except ValueError: continue
    p=http.parse_range_header(r.to_header())
    if p is None or list(p.ranges)!=[a,b]: rec("range2",(a,b,r.to_header()),p and p.ranges)
for st in range(0,5):
  for sp in range(st+1,6):
    for ln in [None]+list(range(0,7)):
        try: c=ContentRange("bytes",st,sp,ln)
        except AssertionError: continue
        p=http.parse_content_range_header(c.to_header())
        if p is None or (p.units,p.start,p.stop,p.length)!=("bytes",st,sp,ln): rec("crange",(st,sp,ln,c.to_header()),p)
for ln in [None,0,5]:
    c=ContentRange("bytes",None,None,ln); p=http.parse_content_range_header(c.to_header())
    if p is None or (p.start,p.stop,p.length)!=(None,None,ln): rec("crange*",(ln,c.to_header()),p)
# dates
tzs=[None,dtm.timezone.utc,dtm.timezone(dtm.timedelta(hours=5,minutes=30)),dtm.timezone(dtm.timedelta(hours=-8)),dtm.timezone(dtm.timedelta(hours=14))]
for y in (1000,1969,1970,2000,2024,9999):
  for (mo,d) in ((1,1),(2,28),(2,29),(12,31)):
    for (h,mi,s) in ((0,0,0),(12,34,56),(23,59,59)):
      for tz in tzs:
        try: x=dtm.datetime(y,mo,d,h,mi,s,tzinfo=tz)
        except ValueError: continue
        try:
            hd=http.http_date(x); p=http.parse_date(hd)
        except Exception as e: rec("date-exc",(x,),repr(e)); continue
        xa=x if tz else x.replace(tzinfo=dtm.timezone.utc)
        if p is None or p!=xa: rec("date",(x,hd),p)
# auth basic
A=["a","é"," ",":","%","="]
def strings(A,n):
    yield ""
    for k in range(1,n+1):
        for t in itertools.product(A,repeat=k): yield "".join(t)
for u in strings(A,2):
    if ":" in u: continue
    for pw in strings(A,2):
        a=Authorization("basic",{"username":u,"password":pw}); p=Authorization.from_header(a.to_header())
        if p is None or (p.username,p.password)!=(u,pw): rec("basic",(u,pw),p and (p.username,p.password))
for tok in ["abc","a=b","abc=","a b","==", "a=b=c"]:
    a=Authorization("bearer",token=tok); p=Authorization.from_header(a.to_header())
    if p is None or p!=a: rec("bearer",tok,p and (p.type,p.token,p.parameters))
    a=WWWAuthenticate("bearer",token=tok); p=WWWAuthenticate.from_header(a.to_header())
    if p is None or p!=a: rec("wbearer",tok,p and (p.type,p.token,p.parameters))
for params in [{"realm":"a b"},{"realm":'q"x',"nonce":"n,1"},{"a":None},{"realm":""},{"a":"b","c":"d e"}]:
    for typ in ("digest","custom","basic"):
        a=WWWAuthenticate(typ,dict(params)); p=WWWAuthenticate.from_header(a.to_header())
        if p is None or p!=a: rec("wparams",(typ,params,a.to_header()),p and (p.type,p.token,dict(p.parameters)))
        a=Authorization(typ if typ!="basic" else "x",dict(params)); p=Authorization.from_header(a.to_header())
        if p is None or p!=a: rec("aparams",(typ,params,a.to_header()),p and (p.type,p.token,dict(p.parameters)))
for age in [0,1,59,60,86400,2**31,dtm.timedelta(seconds=5),dtm.timedelta(days=1,microseconds=3)]:
    p=http.parse_age(http.dump_age(age)); exp=age if isinstance(age,dtm.timedelta) else dtm.timedelta(seconds=age)
    if p!=dtm.timedelta(seconds=int(exp.total_seconds())): rec("age",age,p)
print(bad)
for k,v in ex.items(): print(k,v)
