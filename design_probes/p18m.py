import werkzeug.local as L
def bad_setattr(self,name,value):
    values=self._Local__storage.get({})
    values[name]=value
    self._Local__storage.set(values)
L.Local.__setattr__=bad_setattr
exec(open("p18.py").read().replace("for p0 in itertools.product(A,repeat=2):","for p0 in itertools.product(A[:6],repeat=2):").replace("for p1 in itertools.product(A,repeat=2):","for p1 in itertools.product(A[:6],repeat=2):"))
