import io, itertools, collections, time, re
from werkzeug.wrappers import Response
from werkzeug.test import create_environ
from werkzeug.wsgi import FileWrapper
from werkzeug.exceptions import RequestedRangeNotSatisfiable
bad=collections.Counter();ex={}
def rec(k,v): bad[k]+=1; ex.setdefault(k,v)
class NonSeek:
    def __init__(s,d): s.b=io.BytesIO(d)
    def read(s,n=-1): return s.b.read(n)
def bodies(data):
    yield "list1",lambda:[data],False
    for k in (1,2,3):
        yield f"list{k}e",lambda k=k:[x for i in range(0,len(data),k) for x in (data[i:i+k],b"")],False
        yield f"listk{k}",lambda k=k:[data[i:i+k] for i in range(0,len(data),k)],False
    yield "gen",lambda:(data[i:i+2] for i in range(0,len(data),2)),False
    for bs in (1,2,3,8):
        yield f"fw{bs}",lambda bs=bs:FileWrapper(io.BytesIO(data),bs),True
        yield f"fwns{bs}",lambda bs=bs:FileWrapper(NonSeek(data),bs),True
def ref_range(hdr,n):
    """return ('none'|'416'|(start,stop))"""
    if hdr is None: return "none"
    m=re.fullmatch(r"\s*bytes\s*=(.*)",hdr,re.I)
    if not m: return "416" if "=" in hdr else "416"
    specs=[s.strip() for s in m.group(1).split(",")]
    if len(specs)!=1: return "416"
    s=specs[0]
    m2=re.fullmatch(r"(\d+)\s*-\s*(\d*)",s)
    if m2:
        a=int(m2.group(1)); b=int(m2.group(2)) if m2.group(2) else None
        if b is not None and b<a: return "416"
        if a>=n: return "416"
        return (a,min(b+1,n) if b is not None else n)
    m3=re.fullmatch(r"-\s*(\d+)",s)
    if m3:
        k=int(m3.group(1))
        if k==0: return "416"
        if k>n: return "either"
        return (n-k,n)
    return "416"
t0=time.time();N=0
hdrs=[None]+[f"bytes={a}-{b}" for a in range(0,8) for b in range(0,8)]+[f"bytes={a}-" for a in range(0,8)]+[f"bytes=-{a}" for a in range(0,8)]+["bytes=0-1,3-4","bytes=0-0,-1","bytes= 1 - 2 ","items=0-1","bytes=","bytes=a-b","bytes=--1","bytes=1","bytes 1-2","BYTES=1-2","bytes=1-2-3","bytes=+1-2"]
for n in range(0,7):
    data=bytes(range(65,65+n))
    for bname,mk,dp in bodies(data):
        for h in hdrs:
            for method in ("GET","HEAD","POST"):
                N+=1
                env=create_environ(method=method,headers={"Range":h} if h is not None else {})
                r=Response(mk(),direct_passthrough=dp)
                ctx=(n,bname,h,method)
                try:
                    r.make_conditional(env,accept_ranges=True,complete_length=n)
                    app_iter,status,headers=r.get_wsgi_response(env)
                    body=b"".join(app_iter)
                    code=int(status.split()[0]); H=dict(headers)
                except RequestedRangeNotSatisfiable: code=416; body=None
                except Exception as e: rec("exc:"+type(e).__name__,ctx+(str(e)[:50],)); continue
                exp=ref_range(h,n) if method in("GET","HEAD") and n>0 else "none"
                if code==206:
                    m=re.fullmatch(r"bytes (\d+)-(\d+)/(\d+)",H.get("Content-Range",""))
                    if not m: rec("206-no-cr",ctx); continue
                    a,b,l=int(m.group(1)),int(m.group(2))+1,int(m.group(3))
                    if l!=n or not(0<=a<b<=n): rec("206-cr-bounds",ctx+(a,b,l))
                    if H.get("Content-Length")!=str(b-a): rec("206-cl",ctx+(H.get("Content-Length"),a,b))
                    if method=="GET" and body!=data[a:b]: rec("206-body",ctx+(body,data[a:b]))
                    if exp=="none" or exp=="416": rec("206-unexpected",ctx+(exp,))
                    elif exp!="either" and exp!=(a,b): rec("206-wrong-range",ctx+(exp,(a,b)))
                elif code==416:
                    if exp not in("416","either"): rec("416-unexpected",ctx+(exp,))
                elif code==200:
                    if exp not in ("none",): rec("200-unexpected",ctx+(exp,))
                    if method!="HEAD" and body!=data: rec("200-body",ctx+(body,))
                else: rec("code",ctx+(code,))
print(N,round(time.time()-t0,1),bad)
for k,v in ex.items(): print(k,v)
