import itertools, collections, re, codecs
from werkzeug.http import parse_accept_header
from werkzeug.datastructures import Accept, MIMEAccept, LanguageAccept, CharsetAccept
QS=[None,"0","0.001","0.5","1","1.000","x","-1","1.5"]
def qval(q):
    if q is None: return 1.0
    if not re.fullmatch(r"-?\d+(\.\d+)?",q): return None
    v=float(q); return v if 0<=v<=1 else None
fam={
 "mime":(MIMEAccept,["text/html","text/html;level=1","text/*","*/*","application/json","TEXT/HTML"],["text/html","text/plain","application/json","text/html;level=1","image/png"]),
 "lang":(LanguageAccept,["en","en-US","en_us","de","*","EN"],["en","en-US","de","fr","en_GB"]),
 "charset":(CharsetAccept,["utf-8","UTF8","latin1","iso-8859-1","*"],["utf-8","iso-8859-1","ascii","UTF-8"]),
 "enc":(Accept,["gzip","identity","*","GZIP"],["gzip","br","identity"]),
}
def spec_mime(r): 
    parts=re.split(r"/|(?:\s*;\s*)",r); return tuple(p!="*" for p in parts)
def match_mime(offer,r):
    o=re.split(r"/|(?:\s*;\s*)",offer.lower()); i=re.split(r"/|(?:\s*;\s*)",r.lower())
    if i[0]=="*" and i[1]=="*": return True
    if i[0]!=o[0]: return False
    if i[1]=="*": return True
    return i[1]==o[1] and sorted(i[2:])==sorted(o[2:])
def norm_cs(n):
    try: return codecs.lookup(n).name
    except LookupError: return n.lower()
M={"mime":(match_mime,spec_mime),
   "lang":(lambda o,r: r=="*" or re.split("[_-]",o.lower())==re.split("[_-]",r.lower()), lambda r:(r!="*",)),
   "charset":(lambda o,r: r=="*" or norm_cs(o)==norm_cs(r), lambda r:(r!="*",)),
   "enc":(lambda o,r: r=="*" or o.lower()==r.lower(), lambda r:(r!="*",))}
def ref_best(f,items,offers):
    match,spec=M[f]
    items=[(r,qval(q)) for r,q in items]; items=[(r,q) for r,q in items if q is not None]
    best=None;bk=None
    for idx,o in enumerate(offers):
        ms=[(spec(r),q) for r,q in items if match(o,r)]
        if not ms: continue
        s=max(m[0] for m in ms); q=max(m[1] for m in ms if m[0]==s)
        if q<=0: continue
        k=(q,s)
        if bk is None or k>bk: best,bk=o,k
    return best
bad=collections.Counter();ex={}
tot=0
for f,(cls,ranges,offers) in fam.items():
    items1=[(r,q) for r in ranges for q in QS]
    hdrs=[[a] for a in items1]+[[a,b] for a in items1 for b in items1]
    offs=[list(p) for n in (1,2,3) for p in itertools.permutations(offers,n)]
    for h in hdrs[::1 if f!="mime" else 1]:
        hs=",".join(r if q is None else f"{r};q={q}" for r,q in h)
        acc=parse_accept_header(hs,cls)
        for of in offs[::3]:
            tot+=1
            try: got=acc.best_match(of)
            except Exception as e: got=("EXC",type(e).__name__)
            exp=ref_best(f,h,of)
            if got!=exp:
                if f=="lang" and exp is None: bad[f+"-fallback"]+=1; ex.setdefault(f+"-fallback",(hs,of,got,exp)); continue
                bad[f]+=1; ex.setdefault(f,(hs,of,got,exp))
print(tot,bad)
for k,v in ex.items(): print(k,v)
