import itertools, collections, time, datetime as dtm
from werkzeug.wrappers import Response
from werkzeug.datastructures import WWWAuthenticate, ContentRange, ContentSecurityPolicy, HeaderSet
bad=collections.Counter();ex={}
def rec(k,v): bad[k]+=1; ex.setdefault(k,v)
# op = (family, name, fn(view,resp))
def cc_ops():
    for attr in ("no_cache","no_store","max_age","public","private","must_revalidate","s_maxage","immutable","stale_if_error"):
        for v in (True,False,None,0,5,"x"):
            yield ("cc",f"set {attr}={v!r}",lambda view,r,a=attr,v=v:setattr(view,a,v))
        yield ("cc",f"del {attr}",lambda view,r,a=attr:delattr(view,a))
    yield ("cc","item max-age=3",lambda view,r:view.__setitem__("max-age","3"))
    yield ("cc","pop public",lambda view,r:view.pop("public",None))
    yield ("cc","clear",lambda view,r:view.clear())
    yield ("cc","update",lambda view,r:view.update({"x-y":"1"}))
    yield ("cc","setdefault",lambda view,r:view.setdefault("private",None))
def set_ops(prop):
    for v in ("Foo","foo","FOO","bar"):
        yield (prop,f"add {v}",lambda view,r,v=v:view.add(v))
        yield (prop,f"remove {v}",lambda view,r,v=v:view.remove(v))
        yield (prop,f"discard {v}",lambda view,r,v=v:view.discard(v))
    yield (prop,"clear",lambda view,r:view.clear())
    yield (prop,"update",lambda view,r:view.update(["a","B"]))
    yield (prop,"setitem0",lambda view,r:view.__setitem__(0,"zed"))
    yield (prop,"delitem0",lambda view,r:view.__delitem__(0))
def www_ops():
    yield ("www","token=",lambda v,r:setattr(v,"token","tok"))
    yield ("www","token=None",lambda v,r:setattr(v,"token",None))
    yield ("www","type=",lambda v,r:setattr(v,"type","digest"))
    yield ("www","realm=",lambda v,r:setattr(v,"realm","r 1"))
    yield ("www","item",lambda v,r:v.__setitem__("nonce","n"))
    yield ("www","delitem",lambda v,r:v.__delitem__("realm"))
    yield ("www","param-set",lambda v,r:v.parameters.__setitem__("qop","auth"))
    yield ("www","params=",lambda v,r:setattr(v,"parameters",{"a":"b"}))
GET={"cc":lambda r:r.cache_control,"vary":lambda r:r.vary,"allow":lambda r:r.allow,"www":lambda r:r.www_authenticate}
HDR={"cc":"Cache-Control","vary":"Vary","allow":"Allow","www":"WWW-Authenticate"}
def snapshot(fam,view):
    if fam=="cc": return dict(view)
    if fam in("vary","allow"): return list(view)
    if fam=="www": return (view.type,view.token,dict(view.parameters))
def run(fam,ops):
    r=Response(); view=GET[fam](r)
    for i,(f,name,fn) in enumerate(ops):
        try: fn(view,r); err=None
        except (KeyError,IndexError,AttributeError) as e: err=type(e).__name__
        except Exception as e: rec("exc:"+type(e).__name__,(fam,[o[1] for o in ops[:i+1]],str(e)[:50])); return
        hdr=r.headers.get(HDR[fam]); ser=view.to_header()
        empty=(not view) if fam!="www" else False
        names=[o[1] for o in ops[:i+1]]
        if fam=="www" and hdr is None and err is None and i==0 and False: pass
        if err is None:
            if empty:
                if hdr is not None: rec(fam+":empty-but-header",(names,hdr))
            elif hdr!=ser: rec(fam+":drift",(names,hdr,ser))
        fresh=GET[fam](r)
        if err is None and not empty and snapshot(fam,fresh)!=snapshot(fam,view): rec(fam+":reread",(names,snapshot(fam,fresh),snapshot(fam,view)))
t0=time.time();N=0
for fam,gen in (("cc",cc_ops()),("vary",set_ops("vary")),("www",www_ops())):
    ops=list(gen)
    for n in (1,2):
        for seq in itertools.product(ops,repeat=n):
            N+=1; run(fam,seq)
    if fam!="cc":
        for seq in itertools.product(ops,repeat=3): N+=1; run(fam,seq)
print(N,round(time.time()-t0,1),bad)
for k,v in ex.items(): print(k,v)
