import time,sys
from werkzeug.sansio.multipart import *
B=b"bnd"
ATTRS=("buffer","complete","max_form_memory_size","max_parts","state","boundary","preamble_re","boundary_re","_search_position","_parts_decoded")
def clone(d):
    n=MultipartDecoder.__new__(MultipartDecoder)
    n.__dict__.update(d.__dict__); n.buffer=bytearray(d.buffer); return n
def key(d,off,out): return (off,d.state,bytes(d.buffer),d._search_position,d._parts_decoded,out)
def pump(d,out):
    # out: tuple of normalized events (immutable)
    out=list(out)
    while True:
        try: ev=d.next_event()
        except Exception as e:
            out.append(("EXC",type(e).__name__)); return tuple(out),True
        if isinstance(ev,NeedData): return tuple(out),False
        if isinstance(ev,Data):
            if out and out[-1][0]=="D" and out[-1][2]: out[-1]=("D",out[-1][1]+ev.data,ev.more_data)
            else: out.append(("D",ev.data,ev.more_data))
        elif isinstance(ev,Field): out.append(("F",ev.name,tuple(ev.headers)))
        elif isinstance(ev,File): out.append(("L",ev.name,ev.filename,tuple(ev.headers)))
        elif isinstance(ev,Preamble): out.append(("P",))
        elif isinstance(ev,Epilogue): out.append(("E",)); return tuple(out),True
def explore(body):
    n=len(body); d0=MultipartDecoder(B)
    assert set(d0.__dict__)==set(ATTRS)
    seen={}; stack=[(0,d0,())]; trans=0; finals=set()
    seen[key(d0,0,())]=1
    while stack:
        off,d,out=stack.pop()
        if off==n:
            d2=clone(d); d2.receive_data(None); o,_=pump(d2,out); finals.add(o); trans+=1; continue
        for k in range(1,n-off+1):
            d2=clone(d); d2.receive_data(body[off:off+k]); o,done=pump(d2,out); trans+=1
            if done: finals.add(o); continue   # terminal: epilogue/exception
            kk=key(d2,off+k,o)
            if kk not in seen:
                seen[kk]=1; stack.append((off+k,d2,o))
    return len(seen),trans,finals
def body(parts,nl=b"\r\n"):
    b=b""
    for name,fn,payload in parts:
        b+=nl+b"--"+B+nl+b'Content-Disposition: form-data; name="'+name+b'"'
        if fn is not None: b+=b'; filename="'+fn+b'"'
        b+=nl
        if payload is not None: b+=nl+payload
    return b+nl+b"--"+B+b"--"+nl
for parts in ([(b"a",None,b"x\nyyyyyyyyyyyy\r")],[(b"a",None,None),(b"f",b"f",b"q\r\n--bn")],[(b"a",None,b"hello"),(b"f",b"f.txt",b"\r\n\r\n"),(b"c",None,b"")]):
    bd=body(parts); t=time.perf_counter(); s,tr,f=explore(bd)
    print(len(bd),"states",s,"trans",tr,"finals",len(f),round(time.perf_counter()-t,3),"s")
    for x in list(f)[:4]: print("   ",x)
