import itertools, sys, time
from werkzeug.sansio.multipart import *
B=b"bnd"
def decode(chunks):
    d=MultipartDecoder(B)
    out=[]
    def pump():
        while True:
            try: ev=d.next_event()
            except Exception as e:
                out.append(("EXC",type(e).__name__,str(e))); return False
            if isinstance(ev,NeedData): return True
            out.append(ev)
            if isinstance(ev,Epilogue): return False
    for c in chunks:
        d.receive_data(c)
        if not pump(): return norm(out)
    d.receive_data(None)
    pump()
    return norm(out)
def norm(evs):
    parts=[];cur=None
    for e in evs:
        if isinstance(e,(Field,File)):
            cur=[type(e).__name__,e.name,getattr(e,'filename',None),tuple(e.headers),b""];parts.append(cur)
        elif isinstance(e,Data):
            cur[4]+=e.data
            if not e.more_data: cur.append("end")
        elif isinstance(e,tuple): parts.append(e)
    return [tuple(p) for p in parts]
def body(parts,nl=b"\r\n",pre=b"",epi=b""):
    b=pre
    for name,fn,payload in parts:
        b+=nl+b"--"+B+nl+b'Content-Disposition: form-data; name="'+name+b'"'
        if fn is not None: b+=b'; filename="'+fn+b'"'
        b+=nl
        if payload is None: pass
        else: b+=nl+payload
    b+=nl+b"--"+B+b"--"+nl+epi
    return b
payloads=[None,b"",b"a",b"\r",b"\n",b"\r\n",b"x\r",b"\r\n--",b"\r\n--bn",b"--bnd",b"a\r\n--bndX", b"a"*30, b"\r\n\r\n", b"-"]
bad=0;tot=0;kinds=set()
for p1 in payloads:
  for p2 in [None,b"q"]:
    bd=body([(b"a",None,p1),(b"f",b"f.txt",p2)])
    ref=decode([bd])
    for i in range(len(bd)+1):
        got=decode([bd[:i],bd[i:]]); tot+=1
        if got!=ref:
            bad+=1
            kinds.add((p1,p2,repr(bd[max(0,i-3):i])+"|"+repr(bd[i:i+3]),str(got)[-80:]))
print(bad,tot)
for k in sorted(kinds,key=str): 
    print(k[0],k[1],k[2],k[3][-40:])
