import itertools, collections
from werkzeug import http
from werkzeug.datastructures import HeaderSet
A=["a","B"," ",'"',"\\",",",";","=","*","'","%","é","\t"]
def strings(A,n):
    yield ""
    for k in range(1,n+1):
        for t in itertools.product(A,repeat=k): yield "".join(t)
vals=list(strings(A,3))
bad=collections.Counter(); ex={}
def rec(k,v,got):
    bad[k]+=1; ex.setdefault(k,(v,got))
for v in vals:
    q=http.quote_header_value(v)
    if http.unquote_header_value(q)!=v: rec("quote",v,http.unquote_header_value(q))
    try:
        r=http.parse_list_header(http.dump_header([v]))
        if r!=[v]: rec("list1",v,r)
    except Exception as e: rec("list1-exc",v,repr(e))
    r=http.parse_dict_header(http.dump_header({"k":v}))
    if r!={"k":v}: rec("dict1",v,r)
    if "%22" not in v:
        r=http.parse_options_header(http.dump_options_header("x/y",{"k":v}))
        if r!=("x/y",{"k":v}): rec("opt1",v,r)
    r=list(http.parse_set_header(http.dump_header([v])))
    if r!=[v]: rec("set1",v,r)
vals2=list(strings(A,2))
for v,w in itertools.product(vals2,repeat=2):
    r=http.parse_list_header(http.dump_header([v,w]))
    if r!=[v,w]: rec("list2",(v,w),r)
print(len(vals),bad); 
for k,v in ex.items(): print(k,v)
