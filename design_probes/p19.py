import io, itertools, collections, time
from werkzeug.serving import DechunkedInput
bad=collections.Counter();ex={}
def rec(k,v): bad[k]+=1; ex.setdefault(k,v)
def compositions(n):
    if n==0: yield (); return
    for k in range(1,n+1):
        for rest in compositions(n-k): yield (k,)+rest
def frame(body,comp,nl=b"\r\n",hexf=lambda n:b"%x"%n,final=b"0\r\n\r\n"):
    out=b"";i=0
    for k in comp:
        out+=hexf(k)+nl+body[i:i+k]+nl; i+=k
    return out+final
def run(raw,reads,mode):
    d=DechunkedInput(io.BytesIO(raw)); f=d if mode=="raw" else io.BufferedReader(d,buffer_size=3)
    got=b""
    try:
        for r in reads:
            if r=="all": got+=f.read()
            elif r=="line": got+=f.readline()
            else:
                if mode=="raw":
                    b=bytearray(r); n=f.readinto(b)
                    if len(b)!=r: return got,("GROW",len(b))
                    got+=bytes(b[:n])
                else: got+=f.read(r)
        got+=f.read()
        return got,("ok",)
    except OSError as e: return got,("OSError",str(e)[:30])
    except Exception as e: return got,("EXC",type(e).__name__,str(e)[:40])
t0=time.time();N=0
for n in range(0,5):
    body=b"ab\ncd"[:n]
    for comp in compositions(n):
        for nl in (b"\r\n",b"\n"):
            for hexf in (lambda k:b"%x"%k, lambda k:b"%X"%k, lambda k:b"0%x"%k):
                raw=frame(body,comp,nl,hexf,b"0"+nl+nl)
                for reads in itertools.chain([()],itertools.product([1,2,3,6,"line"],repeat=1),itertools.product([1,2,3,6,"line"],repeat=2)):
                    for mode in ("raw","buf"):
                        N+=1
                        got,out=run(raw,reads,mode)
                        if out!=("ok",) or got!=body: rec("wellformed:"+str(out[:2]),(body,comp,nl,raw,reads,mode,got,out))
                # truncations
                for cut in range(0,len(raw)):
                    for reads in ((),(2,),(1,1)):
                        N+=1
                        got,out=run(raw[:cut],reads,"raw")
                        if not body.startswith(got): rec("trunc-notprefix",(raw[:cut],reads,got,out))
                        if out[0]=="EXC" or out[0]=="GROW": rec("trunc:"+str(out[:2]),(raw[:cut],reads,got,out))
                        if out==("ok",) : rec("trunc-silent-ok",(raw,cut,raw[:cut],reads,got))
for rawbad in [b"-1\r\nab\r\n0\r\n\r\n",b"zz\r\n",b"\r\n",b"+2\r\nab\r\n0\r\n\r\n",b"0x2\r\nab\r\n0\r\n\r\n",b"2;x=1\r\nab\r\n0\r\n\r\n",b"2\r\nabXX0\r\n\r\n",b"2\r\nabc\r\n0\r\n\r\n",b"1_0\r\n"+b"a"*10+b"\r\n0\r\n\r\n"]:
    got,out=run(rawbad,(),"raw"); print(rawbad,got,out)
print(N,round(time.time()-t0,1),bad)
for k,v in ex.items(): print(k,v)
