"""Recorder, evidence, known findings and replay artefacts shared by all checks."""
from __future__ import annotations

import json
import os
import time
from collections import Counter
from typing import Any, Callable

VERIF = os.path.dirname(os.path.dirname(os.path.abspath(__file__)))
EVIDENCE_DIR = os.path.join(VERIF, "evidence")
REPLAY_DIR = os.path.join(VERIF, "replays")
FINDINGS_FILE = os.path.join(VERIF, "known_findings.json")

MAX_SAMPLES = 8
MAX_PER_SIG = 3  # violation records kept per (class, signature)


# ------------------------------------------------------------------ JSON helpers

def enc(o: Any) -> Any:
    """Make a value JSON-serialisable without losing bytes / tuples / sets."""
    if isinstance(o, (bytes, bytearray)):
        return {"$b": bytes(o).decode("latin-1")}
    if isinstance(o, tuple):
        return {"$t": [enc(x) for x in o]}
    if isinstance(o, (set, frozenset)):
        return {"$s": sorted((enc(x) for x in o), key=repr)}
    if isinstance(o, list):
        return [enc(x) for x in o]
    if isinstance(o, dict):
        if all(isinstance(k, str) for k in o) and not any(k in ("$b", "$t", "$s", "$d", "$r") for k in o):
            return {k: enc(v) for k, v in o.items()}
        return {"$d": [[enc(k), enc(v)] for k, v in o.items()]}
    if o is None or isinstance(o, (bool, int, float, str)):
        return o
    return {"$r": repr(o)}


def dec(o: Any) -> Any:
    if isinstance(o, list):
        return [dec(x) for x in o]
    if isinstance(o, dict):
        if len(o) == 1:
            if "$b" in o:
                return o["$b"].encode("latin-1")
            if "$t" in o:
                return tuple(dec(x) for x in o["$t"])
            if "$s" in o:
                return frozenset(dec(x) for x in o["$s"])
            if "$d" in o:
                return {dec(k): dec(v) for k, v in o["$d"]}
            if "$r" in o:
                return o["$r"]
        return {k: dec(v) for k, v in o.items()}
    return o


def show(o: Any, limit: int = 300) -> str:
    s = repr(o)
    return s if len(s) <= limit else s[: limit - 3] + "..."


# ------------------------------------------------------------------ recorder

class Recorder:
    """Per-work-unit recorder; instances are merged by the runner.

    count(name)            plain counters: evaluations, states, transitions, executions ...
    distinct(name, key)    measured distinct sets (hash of key, deterministic: PYTHONHASHSEED=0)
    use(token)             vacuity tokens: alphabet atoms used, ops executed, oracle branches fired
    sample(obj)            a few concrete explored cases for the evidence file
    violation(sig, rec)    rec is a JSON-able (after enc) dict sufficient to replay the case
    """

    def __init__(self, classify: Callable[[dict], str | None] | None = None):
        self.counts: Counter = Counter()
        self.sets: dict[str, set] = {}
        self.used: set = set()
        self.samples: list = []
        self.viol: dict[tuple[str, str], dict] = {}
        self.notes: list[str] = []
        self._classify = classify

    # counting
    def count(self, name: str, n: int = 1) -> None:
        self.counts[name] += n

    def ev(self, n: int = 1) -> None:
        self.counts["evaluations"] += n

    def distinct(self, name: str, key: Any) -> None:
        s = self.sets.get(name)
        if s is None:
            s = self.sets[name] = set()
        s.add(hash(key))

    def nontrivial(self, key: Any) -> None:
        self.distinct("nontrivial", key)

    def outcome(self, key: Any) -> None:
        self.distinct("outcomes", key)

    def use(self, *tokens: Any) -> None:
        self.used.update(tokens)

    def sample(self, obj: Any) -> None:
        if len(self.samples) < MAX_SAMPLES:
            self.samples.append(enc(obj))

    def note(self, s: str) -> None:
        if len(self.notes) < 50:
            self.notes.append(s)

    # violations
    def violation(self, sig: str, rec: dict) -> None:
        cls = None
        if self._classify is not None:
            cls = self._classify(rec)
        k = (cls or "", sig)
        slot = self.viol.get(k)
        if slot is None:
            slot = self.viol[k] = {"count": 0, "records": []}
        slot["count"] += 1
        if len(slot["records"]) < MAX_PER_SIG:
            slot["records"].append(enc(rec))

    # merging
    def dump(self) -> dict:
        return {
            "counts": dict(self.counts),
            "sets": self.sets,
            "used": self.used,
            "samples": self.samples,
            "viol": self.viol,
            "notes": self.notes,
        }

    def merge(self, d: dict) -> None:
        self.counts.update(d["counts"])
        for k, s in d["sets"].items():
            self.sets.setdefault(k, set()).update(s)
        self.used.update(d["used"])
        for s in d["samples"]:
            if len(self.samples) < MAX_SAMPLES:
                self.samples.append(s)
        for k, slot in d["viol"].items():
            mine = self.viol.setdefault(k, {"count": 0, "records": []})
            mine["count"] += slot["count"]
            for r in slot["records"]:
                if len(mine["records"]) < MAX_PER_SIG:
                    mine["records"].append(r)
        for n in d["notes"]:
            self.note(n)


class Broken(Exception):
    """The check itself is not trustworthy on this run (vacuity guard, replay divergence)."""


# ------------------------------------------------------------------ known findings

def load_findings(prop: str) -> list[dict]:
    if not os.path.exists(FINDINGS_FILE):
        return []
    with open(FINDINGS_FILE) as f:
        data = json.load(f)
    return [e for e in data.get("findings", []) if e.get("property") == prop]


def make_classifier(prop: str, predicates: dict[str, Callable[[dict], bool]]):
    """Return classify(rec) -> finding id or None; only status == 'known' entries suppress."""
    entries = [e for e in load_findings(prop) if e.get("status") == "known"]
    active = []
    for e in entries:
        pred = predicates.get(e["id"])
        if pred is None:
            raise Broken(f"known finding {e['id']} has no predicate in the check module")
        active.append((e["id"], pred))

    def classify(rec: dict) -> str | None:
        for fid, pred in active:
            try:
                if pred(rec):
                    return fid
            except Exception:
                continue
        return None

    return classify


# ------------------------------------------------------------------ evidence

def write_evidence(prop: str, tier: str, seed: int, level: str, R: Recorder, wall: float,
                   rule: str, assumptions: list[str], extra: dict, nviol: int) -> str:
    os.makedirs(EVIDENCE_DIR, exist_ok=True)
    c = R.counts
    cov: dict[str, Any] = {}
    evaluations = int(c.get("evaluations", 0))
    cov["evaluations"] = evaluations
    cov["distinct_nontrivial"] = len(R.sets.get("nontrivial", ()))
    cov["rule"] = rule
    cov["samples"] = R.samples[:MAX_SAMPLES]
    if level == "model_checking":
        cov["states"] = int(c.get("states", 0))
        cov["transitions"] = int(c.get("transitions", 0))
        # every explored execution runs the real implementation (no separate model to conform)
        cov["traces_validated_against_impl"] = int(c.get("executions", evaluations))
    cov["distinct_outcomes"] = len(R.sets.get("outcomes", ()))
    for k, v in c.items():
        if k not in ("evaluations", "states", "transitions"):
            cov.setdefault("n_" + k, int(v))
    for k, s in R.sets.items():
        if k not in ("nontrivial", "outcomes"):
            cov.setdefault("distinct_" + k, len(s))
    cov["vacuity_tokens_seen"] = len(R.used)
    cov.update(extra)
    ev = {
        "property_id": prop,
        "tier": tier,
        "seed": seed,
        "level": level,
        "coverage": cov,
        "assumptions": assumptions,
        "wall_s": round(wall, 3),
        "violations": nviol,
    }
    path = os.path.join(EVIDENCE_DIR, f"{prop}.json")
    tmp = path + ".tmp"
    with open(tmp, "w") as f:
        json.dump(ev, f, indent=1, sort_keys=True, default=repr)
        f.write("\n")
    os.replace(tmp, path)
    return path


def write_replay(prop: str, n: int, sig: str, rec: dict) -> str:
    d = os.path.join(REPLAY_DIR, prop)
    os.makedirs(d, exist_ok=True)
    path = os.path.join(d, f"{n}.json")
    with open(path, "w") as f:
        json.dump({"property": prop, "signature": sig, "record": rec}, f, indent=1, default=repr)
        f.write("\n")
    return path


class Timer:
    def __init__(self):
        self.t0 = time.perf_counter()

    def __call__(self) -> float:
        return time.perf_counter() - self.t0
