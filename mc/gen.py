"""E1: small-scope exhaustive enumeration helpers.

Everything here is a deterministic generator that yields the *simplest* cases first
(shorter before longer, earlier alphabet atoms before later ones), so that the first
counterexample found in enumeration order is also a minimal one.
"""
from __future__ import annotations

import itertools
from typing import Iterable, Iterator, Sequence, TypeVar

T = TypeVar("T")


def sequences(items: Sequence[T], max_len: int, min_len: int = 0) -> Iterator[tuple[T, ...]]:
    """All tuples over ``items`` of length min_len..max_len, shortest first."""
    for n in range(min_len, max_len + 1):
        yield from itertools.product(items, repeat=n)


def strings(atoms: Sequence[str], max_len: int, min_len: int = 0) -> Iterator[str]:
    """All concatenations of <= max_len atoms (an atom may be a multi-char token)."""
    seen: set[str] = set()
    for t in sequences(atoms, max_len, min_len):
        s = "".join(t)
        if s not in seen:
            seen.add(s)
            yield s


def bstrings(atoms: Sequence[bytes], max_len: int, min_len: int = 0) -> Iterator[bytes]:
    seen: set[bytes] = set()
    for t in sequences(atoms, max_len, min_len):
        s = b"".join(t)
        if s not in seen:
            seen.add(s)
            yield s


def subsets(items: Sequence[T], max_size: int | None = None, min_size: int = 0) -> Iterator[tuple[T, ...]]:
    if max_size is None:
        max_size = len(items)
    for n in range(min_size, max_size + 1):
        yield from itertools.combinations(items, n)


def ordered_lists(items: Sequence[T], max_len: int, min_len: int = 0) -> Iterator[tuple[T, ...]]:
    """All ordered lists without repetition."""
    for n in range(min_len, max_len + 1):
        yield from itertools.permutations(items, n)


def compositions(n: int) -> Iterator[tuple[int, ...]]:
    """All ways to write n as an ordered sum of positive ints (2^(n-1) of them)."""
    if n == 0:
        yield ()
        return
    for first in range(n, 0, -1):
        for rest in compositions(n - first):
            yield (first,) + rest


def cuts(data: bytes, comp: Sequence[int]) -> list[bytes]:
    out = []
    i = 0
    for k in comp:
        out.append(data[i : i + k])
        i += k
    return out


def merges(lengths: Sequence[int]) -> Iterator[tuple[int, ...]]:
    """All interleavings of len(lengths) sequences with the given lengths.

    Yields tuples of owner indices; the k-th occurrence of i means "i's k-th op"."""
    total = sum(lengths)
    rem = list(lengths)
    cur: list[int] = []

    def rec() -> Iterator[tuple[int, ...]]:
        if len(cur) == total:
            yield tuple(cur)
            return
        for i in range(len(rem)):
            if rem[i]:
                rem[i] -= 1
                cur.append(i)
                yield from rec()
                cur.pop()
                rem[i] += 1

    yield from rec()


def shard(seq: Iterable[T], nshards: int, idx: int) -> Iterator[T]:
    """Deterministic round-robin sharding of an enumeration."""
    for i, x in enumerate(seq):
        if i % nshards == idx:
            yield x


def chunked(seq: Iterable[T], size: int) -> Iterator[list[T]]:
    buf: list[T] = []
    for x in seq:
        buf.append(x)
        if len(buf) >= size:
            yield buf
            buf = []
    if buf:
        yield buf
