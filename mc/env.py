"""E4: deviation-bounded / exhaustive exploration of environment answers.

The code under test pulls from an environment the harness owns (an underlying stream's
``read`` / ``readinto`` / ``readline``, a socket, ...).  Every time the environment has more
than one possible answer it asks a :class:`Chooser`::

    k = chooser.choose(n, label)        # 0 <= k < n;  0 is the *default* answer

An *execution* is one deterministic run of ``run(chooser)`` under one choice sequence.  The
explorer is the CHESS-style recursion of DESIGN.md section 2 (E4):

* run with a choice *prefix* (replayed verbatim), answer 0 (default) at every later choice point;
* afterwards branch on every choice point **after** the prefix: for every non-default
  alternative there, schedule ``prefix + [0]*gap + [alt]`` - provided the number of non-default
  choices (deviations) stays within ``max_dev`` (``None`` = unbounded = *all* answer sequences);
* a replayed prefix that does not meet the same choice points (arity and label) as the
  execution that scheduled it is a hard error (:class:`Diverged`, a ``core.Broken``): the
  system under test or the harness is not a deterministic function of the choice sequence, and
  nothing the explorer reports could be trusted.

Every choice sequence within the budget is executed exactly once: a sequence is scheduled by
the unique execution whose prefix is the sequence cut after its last-but-one deviation.

The choice tree doubles as the explored state graph for the evidence counters: a *state* is a
choice point reached by a distinct choice sequence (plus one terminal state per execution), a
*transition* is an answer taken at a choice point.
"""
from __future__ import annotations

from typing import Any, Callable, Iterator, Sequence

from . import core


class Diverged(core.Broken):
    """A replayed choice prefix met different choice points than when it was recorded."""


class Chooser:
    """Hands out the answers of one execution and records the choice points met."""

    __slots__ = ("prefix", "expect", "arity", "labels", "choices")

    def __init__(self, prefix: Sequence[int] = (), expect: Sequence[tuple[int, Any]] | None = None):
        self.prefix = tuple(prefix)
        # expect[i] = (arity, label) seen at choice point i by the execution that scheduled us
        self.expect = None if expect is None else tuple(expect)
        self.arity: list[int] = []
        self.labels: list[Any] = []
        self.choices: list[int] = []

    def choose(self, n: int, label: Any = None) -> int:
        """Return the answer index for a choice point with ``n >= 1`` options."""
        if n < 1:
            raise core.Broken(f"choice point with {n} options (label {label!r})")
        i = len(self.choices)
        if self.expect is not None and i < len(self.expect):
            if self.expect[i] != (n, label):
                raise Diverged(
                    f"choice point {i}: recorded {self.expect[i]!r}, replay met {(n, label)!r} "
                    f"(prefix {self.prefix!r})"
                )
        if i < len(self.prefix):
            c = self.prefix[i]
            if not 0 <= c < n:
                raise Diverged(
                    f"choice point {i}: prefix wants answer {c} but only {n} options "
                    f"(label {label!r}, prefix {self.prefix!r})"
                )
        else:
            c = 0
        self.arity.append(n)
        self.labels.append(label)
        self.choices.append(c)
        return c

    @property
    def deviations(self) -> int:
        return sum(1 for c in self.choices if c)

    def trace(self) -> list[tuple[int, Any]]:
        return list(zip(self.arity, self.labels))


class Stats:
    """Counters of one or more explorations (add them up per work unit)."""

    __slots__ = ("executions", "states", "transitions", "max_depth", "max_deviations", "truncated")

    def __init__(self) -> None:
        self.executions = 0
        self.states = 0
        self.transitions = 0
        self.max_depth = 0
        self.max_deviations = 0
        self.truncated = 0          # branches not scheduled because of max_dev


def explore(
    run: Callable[[Chooser], Any],
    max_dev: int | None = None,
    stats: Stats | None = None,
    max_runs: int | None = None,
) -> Iterator[tuple[Chooser, Any]]:
    """Yield ``(chooser, run(chooser))`` for every choice sequence with <= max_dev deviations.

    ``run`` must be a deterministic function of the chooser's answers and must meet finitely
    many choice points (the environment should turn an endless consumer into a terminal
    outcome itself).  ``max_runs`` is a safety net: exceeding it raises ``core.Broken``
    (a space that is larger than designed must be noticed, not silently truncated).

    Order: depth-first, default answers first, so executions with fewer deviations near the
    start of the run come first (simplest first within one configuration).
    """
    st = stats if stats is not None else Stats()
    # stack entries: (prefix, expected (arity,label) for positions < len(prefix))
    stack: list[tuple[tuple[int, ...], tuple[tuple[int, Any], ...]]] = [((), ())]
    runs = 0
    while stack:
        prefix, expect = stack.pop()
        ch = Chooser(prefix, expect)
        result = run(ch)
        runs += 1
        m = len(ch.choices)
        if m < len(prefix):
            raise Diverged(f"execution met {m} choice points, its prefix has {len(prefix)}: {prefix!r}")
        if tuple(ch.choices[: len(prefix)]) != prefix:
            raise Diverged(f"prefix {prefix!r} not replayed: {ch.choices!r}")
        if max_runs is not None and runs > max_runs:
            raise core.Broken(f"E4 explorer: more than {max_runs} executions for one configuration")
        st.executions += 1
        new_points = m - len(prefix)
        st.states += new_points + 1                       # new choice points + this execution's terminal state
        st.transitions += new_points + (1 if prefix else 0)
        st.max_depth = max(st.max_depth, m)
        dev = sum(1 for c in prefix if c)
        st.max_deviations = max(st.max_deviations, dev)
        yield ch, result
        # schedule the children: one more deviation at any later choice point
        if max_dev is not None and dev + 1 > max_dev:
            st.truncated += sum(ch.arity[i] - 1 for i in range(len(prefix), m))
            continue
        trace = tuple(zip(ch.arity, ch.labels))
        children = []
        for i in range(len(prefix), m):
            n = ch.arity[i]
            if n > 1:
                base = prefix + (0,) * (i - len(prefix))
                exp = trace[: i + 1]
                for alt in range(1, n):
                    children.append((base + (alt,), exp))
        # reversed: pop() then explores the earliest choice point / smallest alternative first
        stack.extend(reversed(children))


# ------------------------------------------------------------------ CPU-time watchdog
#
# "never hangs" has to be decided too: a consumer that spins without ever asking the environment
# again cannot be stopped by the environment.  The watchdog uses ITIMER_VIRTUAL (user CPU time of
# this process - independent of machine load, so it cannot fire because a neighbour is busy) and
# raises Hang, a BaseException, inside whatever is running.

class Hang(BaseException):
    """The code under test did not come back within the CPU budget (or kept calling the environment)."""


_installed = False


def _on_vtalrm(_sig, _frm):
    raise Hang("no result within the CPU budget")


def arm(cpu_seconds: float) -> None:
    """(Re)start the watchdog; Hang is raised in the main thread after that much user CPU time."""
    global _installed
    import signal

    if not _installed:
        signal.signal(signal.SIGVTALRM, _on_vtalrm)
        _installed = True
    signal.setitimer(signal.ITIMER_VIRTUAL, cpu_seconds)


def disarm() -> None:
    import signal

    signal.setitimer(signal.ITIMER_VIRTUAL, 0)


def replay(run: Callable[[Chooser], Any], choices: Sequence[int]) -> tuple[Chooser, Any]:
    """Re-execute one recorded choice sequence without the explorer (trailing defaults optional)."""
    ch = Chooser(tuple(choices))
    return ch, run(ch)


def count_sequences(run: Callable[[Chooser], Any], max_dev: int | None = None) -> int:
    """Number of executions explore() would make (used by self-tests)."""
    return sum(1 for _ in explore(run, max_dev))


def _selftest() -> None:
    # a toy environment: 3 binary choice points, the third only if the first was 0
    def run(ch: Chooser):
        a = ch.choose(2, "a")
        b = ch.choose(3, "b")
        c = ch.choose(2, "c") if a == 0 else 0
        return (a, b, c)

    allseq = sorted(r for _c, r in explore(run))
    assert allseq == sorted({(a, b, c) for a in (0, 1) for b in (0, 1, 2) for c in ((0, 1) if a == 0 else (0,))}), allseq
    assert len(allseq) == len(set(allseq)) == 9
    d1 = sorted(r for _c, r in explore(run, 1))
    assert d1 == [(0, 0, 0), (0, 0, 1), (0, 1, 0), (0, 2, 0), (1, 0, 0)], d1
    d0 = [r for _c, r in explore(run, 0)]
    assert d0 == [(0, 0, 0)]

    # divergence is detected
    flip = {"n": 0}

    def bad(ch: Chooser):
        flip["n"] += 1
        ch.choose(2, "x")
        ch.choose(2 if flip["n"] == 1 else 3, "y")

    try:
        list(explore(bad))
    except Diverged:
        pass
    else:  # pragma: no cover
        raise AssertionError("divergence not detected")


if __name__ == "__main__":
    _selftest()
    print("mc.env selftest ok")
