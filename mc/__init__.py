"""Bounded exhaustive exploration (model checking) of pallets/werkzeug.

Engines:
  mc.gen    E1  small-scope exhaustive input enumeration (simplest first)
  mc.graph  E2  explicit-state search with real methods as transitions
            E3  arrival / read-schedule graphs over byte streams
  mc.env    E4  deviation-bounded environment answers (CHESS-style recursion)
  mc.ilv    E5  interleavings of execution contexts (op level + line level)
  mc.core   recorder, evidence, known findings, replay artefacts
  mc.run    command line runner (sharding over forked workers)
"""
