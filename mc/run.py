"""Runner: python -m mc.run <ID> [--tier quick|thorough] [--replay path] [--jobs N]

Exit status: 0 property held on everything explored (KNOWN-FINDING lines allowed),
             1 at least one violation not listed in known_findings.json (VIOLATION line printed),
             2 the check itself is broken (vacuity guard failed, replay diverged, harness error).
"""
from __future__ import annotations

import argparse
import importlib
import json
import multiprocessing
import os
import shutil
import sys
import traceback

# -- environment ownership: deterministic hashing, werkzeug imported from the working tree
if os.environ.get("PYTHONHASHSEED") != "0" or os.environ.get("MC_REEXEC") != "1":
    env = dict(os.environ)
    env["PYTHONHASHSEED"] = "0"
    env["MC_REEXEC"] = "1"
    here = os.path.dirname(os.path.dirname(os.path.abspath(__file__)))
    repo_src = os.environ.get("MC_REPO_SRC", "/repo/src")
    env["PYTHONPATH"] = os.pathsep.join([repo_src, here])
    env["PYTHONDONTWRITEBYTECODE"] = "1"
    os.chdir(here)
    os.execve(sys.executable, [sys.executable, "-m", "mc.run"] + sys.argv[1:], env)

from . import core  # noqa: E402

_MOD = None
_UNITS: list = []
_TIER = "quick"


def _load(prop: str):
    return importlib.import_module(f"checks.{prop.lower()}")


_COV = None


def _cov_start():
    """Optional line coverage of werkzeug under a check (space audit, see tools/cov_audit.sh)."""
    global _COV
    d = os.environ.get("MC_COVERAGE")
    if d and _COV is None:
        import coverage

        src = os.environ.get("MC_REPO_SRC", "/repo/src")
        _COV = coverage.Coverage(data_file=os.path.join(d, f"cov.{os.getpid()}"), include=[src + "/werkzeug/*"],
                                 branch=True)
        _COV.start()


def _work(i: int) -> dict:
    _cov_start()
    try:
        return _work1(i)
    finally:
        if _COV is not None:
            _COV.save()


def _work1(i: int) -> dict:
    mod = _MOD
    classify = core.make_classifier(mod.ID, getattr(mod, "FINDINGS", {}))
    R = core.Recorder(classify)
    unit = _UNITS[i]
    try:
        mod.run_unit(unit, R, _TIER)
    except core.Broken as e:
        return {"broken": f"unit {i}: {e}", **R.dump()}
    except Exception as e:  # an exception escaping a unit: behaviour nobody anticipated
        tb = traceback.format_exc()
        R.violation(
            f"unexpected-exception:{type(e).__name__}",
            {"kind": "unit-exception", "unit": unit, "exception": repr(e), "traceback": tb[-2000:]},
        )
    return R.dump()


def main(argv=None) -> int:
    global _MOD, _UNITS, _TIER
    ap = argparse.ArgumentParser()
    ap.add_argument("prop")
    ap.add_argument("--tier", default=os.environ.get("VERIF_TIER") or "quick", choices=["quick", "thorough"])
    ap.add_argument("--replay")
    ap.add_argument("--jobs", type=int, default=int(os.environ.get("MC_JOBS", "0")) or min(16, os.cpu_count() or 1))
    ap.add_argument("--no-evidence", action="store_true")
    args = ap.parse_args(argv)
    prop = args.prop.upper()
    try:
        seed = int(os.environ.get("VERIF_SEED", "0"))
    except ValueError:
        seed = 0

    import werkzeug

    src = os.path.dirname(os.path.dirname(os.path.abspath(werkzeug.__file__)))
    mod = _load(prop)
    _MOD = mod
    _TIER = args.tier

    if args.replay:
        with open(args.replay) as f:
            data = json.load(f)
        rec = core.dec(data["record"])
        bad, text = mod.replay(rec)
        print(f"replay property={prop} signature={data.get('signature')!r}")
        print(text)
        print("RESULT:", "violation reproduced" if bad else "no violation")
        return 1 if bad else 0

    timer = core.Timer()
    _UNITS = list(mod.units(args.tier))
    if not _UNITS:
        print(f"BROKEN property={prop}: no work units")
        return 2
    R = core.Recorder()
    broken: list[str] = []
    jobs = max(1, min(args.jobs, len(_UNITS)))
    if jobs == 1:
        results = map(_work, range(len(_UNITS)))
        for d in results:
            if "broken" in d:
                broken.append(d.pop("broken"))
            R.merge(d)
    else:
        ctx = multiprocessing.get_context("fork")
        with ctx.Pool(jobs) as pool:
            for d in pool.imap(_work, range(len(_UNITS)), chunksize=1):
                if "broken" in d:
                    broken.append(d.pop("broken"))
                R.merge(d)

    extra = {}
    try:
        extra = mod.finalize(R, args.tier) or {}
    except core.Broken as e:
        broken.append(str(e))
    extra.setdefault("units", len(_UNITS))
    extra["werkzeug_src"] = src

    # ---- triage of violations
    rd = os.path.join(core.REPLAY_DIR, prop)
    shutil.rmtree(rd, ignore_errors=True)
    entries = {e["id"]: e for e in core.load_findings(prop)}
    known_lines = []
    viol_lines = []
    n = 0
    nviol = 0
    for (cls, sig), slot in sorted(R.viol.items()):
        if cls:
            e = entries[cls]
            known_lines.append((cls, e.get("what", ""), slot["count"], sig))
            continue
        nviol += slot["count"]
        rec = slot["records"][0]
        n += 1
        path = core.write_replay(prop, n, sig, rec)
        # replay twice without the explorer: the same case must fail every time
        if rec.get("kind") != "unit-exception" and os.environ.get("MC_NO_CONFIRM") != "1":
            try:
                r1 = mod.replay(core.dec(rec))[0]
                r2 = mod.replay(core.dec(rec))[0]
            except Exception as e:  # pragma: no cover
                r1 = r2 = True
                print(f"note: replay of {path} raised {e!r}")
            if not (r1 and r2):
                broken.append(f"violation {sig!r} did not reproduce on replay ({r1},{r2}): {path}")
                continue
        viol_lines.append((sig, slot["count"], path))

    wall = timer()
    agg: dict[str, list] = {}
    for cls, what, cnt, sig in known_lines:
        a = agg.setdefault(cls, [what, 0, set()])
        a[1] += cnt
        a[2].add(sig)
    extra["known_findings_seen"] = {k: {"instances": v[1], "signatures": len(v[2])} for k, v in agg.items()}
    if broken:
        extra["broken"] = broken
    if not args.no_evidence:
        core.write_evidence(prop, args.tier, seed, mod.LEVEL, R, wall, mod.RULE,
                            list(getattr(mod, "ASSUMPTIONS", [])), extra, nviol)

    c = R.counts
    print(
        f"{prop} tier={args.tier} units={len(_UNITS)} evaluations={c.get('evaluations', 0)} "
        f"states={c.get('states', 0)} transitions={c.get('transitions', 0)} "
        f"executions={c.get('executions', 0)} nontrivial={len(R.sets.get('nontrivial', ()))} "
        f"outcomes={len(R.sets.get('outcomes', ()))} wall={wall:.1f}s"
    )
    for k, v in sorted(extra.items()):
        if k in ("werkzeug_src", "known_findings_seen", "broken"):
            continue
        print(f"  {k}: {core.show(v, 200)}")
    for cls, (what, cnt, sigs) in sorted(agg.items()):
        print(f"KNOWN-FINDING: property={prop} {cls}: {what} [{cnt} instances, {len(sigs)} signatures]")
    for sig, cnt, path in viol_lines:
        print(f"VIOLATION property={prop} replay={path}  # {sig} x{cnt}")
    if broken:
        for b in broken:
            print(f"BROKEN property={prop}: {b}")
        return 2 if not viol_lines else 1
    return 1 if viol_lines else 0


if __name__ == "__main__":
    sys.exit(main())
