"""E5: interleavings of execution contexts.

Two layers, both deterministic and exhaustive up to their bound:

* **Op level.**  A *program* gives each context a short list of operations; ``schedules`` enumerates every
  merge order (respecting "a spawned child cannot act before its spawn").  A schedule is executed by a
  *realisation* that decides what an execution context physically is:

  ``CtxReal``   one ``contextvars.Context`` per context, ``ctx.run(op)`` per step, one thread;
  ``ThreadReal`` one real ``threading.Thread`` per context, parked on its own semaphore and released for exactly
                one operation at a time by the explorer (baton passing - the code under test takes no locks,
                so nothing else can block);
  ``AioReal``   one ``asyncio.Task`` per context on a hand-driven ``BaseEventLoop`` subclass (virtual time, no
                selector); the explorer pops the chosen task's handle off ``loop._ready`` itself, every
                operation is followed by a bare ``yield``.

  All three expose ``step(cid, fn, *a)``, ``spawn(parent) -> cid``, ``probe(cid, fn, *a)`` (a read executed in
  that context), ``probe_root(fn, *a)``, ``close()`` and ``hop(cid, kind, fn, *a)``: run ``fn`` once, from inside
  context ``cid``, in an *ephemeral* execution context - kind ``"tt"`` = a worker thread that received a copy of the
  caller's context (``asyncio.to_thread`` / ``copy_context().run`` hand-off), kind ``"ex"`` = a worker thread with
  no context propagation at all (``loop.run_in_executor``).  ``CtxReal`` and ``AioReal`` also offer
  ``share(cid) -> cid``: a second actor living in the *same* context (two tasks created with one ``context=``).
  ``AioReal(explicit=True)`` ("aiox") creates every task with an explicit ``context=`` argument.

* **Line level.**  ``LineSched`` runs each context's whole operation list in its own thread under
  ``sys.settrace``; every ``line`` event inside the target file is a scheduling point at which the baton returns
  to the explorer.  ``explore_lines`` is iterative context bounding: all schedules with 0 preemptions, then 1,
  then 2 ... (a switch away from a thread that could continue is a preemption; switching when the current
  thread has finished is free).  A schedule is a list of ints (index into the enabled list, current thread first).

``confirm`` replays a failing schedule twice; both replays must reproduce the same observation, otherwise the
harness (not the code under test) is nondeterministic and ``core.Broken`` is raised.
"""
from __future__ import annotations

import asyncio
import concurrent.futures
import contextvars
import sys
import threading
import time
import types
from typing import Any, Callable, Iterator, Sequence

from . import core

TIMEOUT = 120.0  # seconds a baton hand-over may take before the harness declares itself broken


# ------------------------------------------------------------------ op-level schedules

def schedules(lengths: Sequence[int], spawn_of: dict[int, tuple[int, int]] | None = None) -> Iterator[tuple[int, ...]]:
    """Every merge order of ``len(lengths)`` operation lists.

    ``spawn_of[child] = (parent, k)``: the child's operations are enabled only after the parent's k-th
    operation (0-based, the spawn) has been executed.  Yields tuples of context indices; the j-th occurrence
    of i means "context i executes its j-th operation".  Lexicographic order (lowest context first)."""
    spawn_of = spawn_of or {}
    n = len(lengths)
    total = sum(lengths)
    pos = [0] * n
    cur: list[int] = []

    def rec() -> Iterator[tuple[int, ...]]:
        if len(cur) == total:
            yield tuple(cur)
            return
        for i in range(n):
            if pos[i] >= lengths[i]:
                continue
            if i in spawn_of:
                p, k = spawn_of[i]
                if pos[p] <= k:
                    continue
            pos[i] += 1
            cur.append(i)
            yield from rec()
            cur.pop()
            pos[i] -= 1

    yield from rec()


def count_schedules(lengths: Sequence[int], spawn_of: dict[int, tuple[int, int]] | None = None) -> int:
    return sum(1 for _ in schedules(lengths, spawn_of))


def call(fn: Callable, *a: Any) -> Any:
    """Run an operation; an exception nobody anticipated is an observable outcome, not a harness crash."""
    try:
        return fn(*a)
    except core.Broken:
        raise
    except BaseException as e:  # noqa: BLE001
        return ("EXC", type(e).__name__, str(e)[:120])


# ------------------------------------------------------------------ realisation (a): contextvars.Context.run

class CtxReal:
    name = "ctx"

    def __init__(self, root: contextvars.Context, nsiblings: int, native: bool = False):
        self.root = root
        self.ctxs = [root.copy() for _ in range(nsiblings)]

    def step(self, cid, fn, *a):
        return self.ctxs[cid].run(call, fn, *a)

    def spawn(self, parent):
        # what code running in the parent does to start a child: copy_context() from inside the parent
        self.ctxs.append(self.ctxs[parent].run(contextvars.copy_context))
        return len(self.ctxs) - 1

    def share(self, cid):
        self.ctxs.append(self.ctxs[cid])
        return len(self.ctxs) - 1

    def hop(self, cid, kind, fn, *a):
        def go():
            eph = contextvars.copy_context() if kind == "tt" else contextvars.Context()
            return eph.run(call, fn, *a)
        return self.ctxs[cid].run(go)

    def probe(self, cid, fn, *a):
        return self.ctxs[cid].run(call, fn, *a)

    def probe_root(self, fn, *a):
        return self.root.run(call, fn, *a)

    def ncontexts(self):
        return len(self.ctxs)

    def close(self):
        self.ctxs = []


# ------------------------------------------------------------------ realisation (b): real threads, baton passing

class ThreadReal:
    """One OS thread per context.  ``native=True`` (only meaningful for an empty root): sibling threads run in
    their own native thread context, the way a thread-per-request server runs handlers; otherwise every thread
    body runs inside a copy of the root context (what ``copy_context().run`` hand-off does)."""

    name = "thr"

    def __init__(self, root: contextvars.Context, nsiblings: int, native: bool = False):
        self.root = root
        self.main = threading.Semaphore(0)
        self.sems: list[threading.Semaphore] = []
        self.mail: list[Any] = []
        self.res: list[Any] = []
        self.threads: list[threading.Thread] = []
        self.idents: set[int] = set()
        for _ in range(nsiblings):
            self._start(None if native else root.copy())

    def _start(self, ctx):
        cid = len(self.sems)
        self.sems.append(threading.Semaphore(0))
        self.mail.append(None)
        self.res.append(None)
        target = (lambda: self._actor(cid)) if ctx is None else (lambda: ctx.run(self._actor, cid))
        t = threading.Thread(target=target, daemon=True)
        self.threads.append(t)
        t.start()
        return cid

    def _actor(self, cid):
        self.idents.add(threading.get_ident())
        while True:
            if not self.sems[cid].acquire(timeout=TIMEOUT):
                return
            job = self.mail[cid]
            if job is None:
                return
            fn, a = job
            self.res[cid] = call(fn, *a)
            self.main.release()

    def _send(self, cid, fn, a):
        self.mail[cid] = (fn, a)
        self.sems[cid].release()
        if not self.main.acquire(timeout=TIMEOUT):
            raise core.Broken(f"thread realisation: context {cid} did not hand the baton back")
        return self.res[cid]

    def step(self, cid, fn, *a):
        return self._send(cid, fn, a)

    def spawn(self, parent):
        # executed *in the parent's thread*: snapshot its context and start the child thread in the snapshot
        out = self._send(parent, lambda: self._start(contextvars.copy_context()), ())
        if not isinstance(out, int):
            raise core.Broken(f"thread realisation: spawn failed: {out!r}")
        return out

    def hop(self, cid, kind, fn, *a):
        # executed in thread `cid`: a fresh worker thread, with (tt) or without (ex) a copy of the caller's context
        def go():
            box = []
            if kind == "tt":
                ctx = contextvars.copy_context()
                t = threading.Thread(target=lambda: box.append(ctx.run(call, fn, *a)), daemon=True)
            else:
                t = threading.Thread(target=lambda: box.append(call(fn, *a)), daemon=True)
            t.start()
            t.join(TIMEOUT)
            if not box:
                raise core.Broken("thread realisation: hop worker did not finish")
            return box[0]
        return self._send(cid, go, ())

    def probe(self, cid, fn, *a):
        # a thread's context cannot be entered from outside while the thread lives in it: ask the thread
        return self._send(cid, fn, a)

    def probe_root(self, fn, *a):
        return self.root.run(call, fn, *a)

    def ncontexts(self):
        return len(self.sems)

    def close(self):
        for cid in range(len(self.sems)):
            self.mail[cid] = None
            self.sems[cid].release()
        for t in self.threads:
            t.join(TIMEOUT)
            if t.is_alive():
                raise core.Broken("thread realisation: a context thread did not terminate")
        if len(self.idents) != len(self.threads):
            raise core.Broken("thread realisation: contexts did not run on distinct threads")


# ------------------------------------------------------------------ realisation (c): asyncio tasks, hand-driven loop

class HandLoop(asyncio.BaseEventLoop):
    """An event loop that never runs by itself: no selector, virtual clock; the explorer pops ``_ready``."""

    def __init__(self):
        super().__init__()
        self._vtime = 0.0

    def time(self):
        return self._vtime

    def _process_events(self, event_list):  # pragma: no cover - never polled
        pass

    def _write_to_self(self):  # pragma: no cover
        pass


@types.coroutine
def _bare_yield():
    yield


class FreshThreadExecutor(concurrent.futures.ThreadPoolExecutor):
    """Default executor of the hand-driven loop: one brand-new thread per job, so that a worker's native context
    never survives into the next job (a pool would make ``run_in_executor`` jobs see each other's leftovers)."""

    def submit(self, fn, /, *args, **kwargs):
        f: concurrent.futures.Future = concurrent.futures.Future()

        def run():
            if not f.set_running_or_notify_cancel():
                return
            try:
                f.set_result(fn(*args, **kwargs))
            except BaseException as e:  # noqa: BLE001
                f.set_exception(e)

        threading.Thread(target=run, daemon=True).start()
        return f


_CONSUMED = ("consumed",)


class AioReal:
    name = "aio"

    def __init__(self, root: contextvars.Context, nsiblings: int, native: bool = False, explicit: bool = False):
        self.root = root
        self.explicit = explicit
        self.loop = HandLoop()
        self.loop.set_default_executor(FreshThreadExecutor(max_workers=1))
        self.tasks: list[asyncio.Task] = []
        self.mail: list[Any] = []
        self.res: list[Any] = []
        self.fin: list[bool] = []
        self._prev_running = asyncio.events._get_running_loop()
        asyncio.events._set_running_loop(self.loop)
        for _ in range(nsiblings):
            if explicit:
                self._create(self.root.copy())
            else:
                # create_task copies the *current* context: create it from inside the root
                self.root.run(self._create)

    def _create(self, context=None):
        cid = len(self.tasks)
        self.mail.append(None)
        self.res.append(None)
        self.fin.append(True)
        if context is not None:
            task = self.loop.create_task(self._actor(cid), context=context)
        else:
            task = self.loop.create_task(self._actor(cid))
        self.tasks.append(task)
        return cid

    async def _actor(self, cid):
        while True:
            job = self.mail[cid]
            if job is None:
                return
            kind, fn, a = job
            self.mail[cid] = _CONSUMED
            if kind == "sync":
                r = call(fn, *a)
            elif kind == "tt":
                r = await asyncio.to_thread(call, fn, *a)
            else:
                r = await self.loop.run_in_executor(None, lambda: call(fn, *a))
            self.res[cid] = r
            self.fin[cid] = True
            await _bare_yield()

    def _owner(self, h):
        return getattr(h._callback, "__self__", None)

    def _run_handle_of(self, cid):
        task = self.tasks[cid]
        ready = self.loop._ready
        for i, h in enumerate(ready):
            if self._owner(h) is task:
                del ready[i]
                if h._cancelled:
                    raise core.Broken("asyncio realisation: task handle was cancelled")
                h._run()
                return True
        return False

    def _send(self, cid, kind, fn, a):
        self.mail[cid] = (kind, fn, a)
        self.fin[cid] = False
        if not self._run_handle_of(cid):
            raise core.Broken(f"asyncio realisation: task {cid} has no ready handle")
        if self.mail[cid] is not _CONSUMED:
            raise core.Broken(f"asyncio realisation: task {cid} did not take its operation")
        if not self.fin[cid]:
            # the task awaits an executor future: run whatever is neither a parked task's step (their handles stay
            # queued) - the future's thread-safe completion callback, then this task's wake-up
            others = {id(t) for i, t in enumerate(self.tasks) if i != cid}
            deadline = time.monotonic() + TIMEOUT
            while not self.fin[cid]:
                ready = self.loop._ready
                for i, h in enumerate(ready):
                    if id(self._owner(h)) not in others:
                        del ready[i]
                        h._run()
                        break
                else:
                    if time.monotonic() > deadline:
                        raise core.Broken("asyncio realisation: executor hop never completed")
                    time.sleep(0.0002)
        return self.res[cid]

    def step(self, cid, fn, *a):
        return self._send(cid, "sync", fn, a)

    def hop(self, cid, kind, fn, *a):
        return self._send(cid, kind, fn, a)

    def spawn(self, parent):
        # executed inside the parent task: asyncio.create_task semantic (copies the task's current context), or the
        # same snapshot passed explicitly as context=
        if self.explicit:
            out = self._send(parent, "sync", lambda: self._create(contextvars.copy_context()), ())
        else:
            out = self._send(parent, "sync", self._create, ())
        if not isinstance(out, int):
            raise core.Broken(f"asyncio realisation: spawn failed: {out!r}")
        return out

    def share(self, cid):
        # a second task created with the very same Context object
        return self._create(self.tasks[cid].get_context())

    def probe(self, cid, fn, *a):
        # the task is suspended, so its context is not entered: read inside it without scheduling the task
        return self.tasks[cid].get_context().run(call, fn, *a)

    def probe_root(self, fn, *a):
        return self.root.run(call, fn, *a)

    def ncontexts(self):
        return len(self.tasks)

    def close(self):
        try:
            for cid in range(len(self.tasks)):
                self.mail[cid] = None
                if not self._run_handle_of(cid):
                    raise core.Broken(f"asyncio realisation: task {cid} has no ready handle at close")
            # let done-callbacks drain
            guard = 0
            while self.loop._ready:
                self.loop._ready.popleft()._run()
                guard += 1
                if guard > 1000:
                    raise core.Broken("asyncio realisation: ready queue does not drain")
            for t in self.tasks:
                if not t.done():
                    raise core.Broken("asyncio realisation: a task did not finish")
                if t.exception() is not None:
                    raise core.Broken(f"asyncio realisation: task failed: {t.exception()!r}")
        finally:
            asyncio.events._set_running_loop(self._prev_running)
            self.loop.close()


class AioExplicitReal(AioReal):
    name = "aiox"

    def __init__(self, root, nsiblings, native=False):
        super().__init__(root, nsiblings, native, explicit=True)


REALISATIONS = {"ctx": CtxReal, "thr": ThreadReal, "aio": AioReal, "aiox": AioExplicitReal}


# ------------------------------------------------------------------ line level: settrace baton scheduler

class LineSched:
    """Run ``bodies`` (one callable per thread) under a schedule given as a list of choices.

    At every scheduling point (thread start, and every ``line`` event in a frame whose code lives in
    ``target_file``) the running thread hands the baton to the explorer, which picks the next thread:
    ``choices[i]`` indexes the list of enabled threads with the *current* thread first (so 0 = "no
    preemption"); beyond the end of ``choices`` the default 0 is taken.  ``points`` records for every decision
    (number of enabled threads, whether the current thread was enabled)."""

    def __init__(self, bodies: Sequence[Callable[[], None]], choices: Sequence[int], target_file: str,
                 wrap: Sequence[Callable[[Callable], None]] | None = None,
                 gates: Sequence[Callable[[], bool] | None] | None = None):
        self.n = len(bodies)
        self.bodies = bodies
        self.choices = list(choices)
        self.target = target_file
        self.sems = [threading.Semaphore(0) for _ in bodies]
        self.main = threading.Semaphore(0)
        self.done = [False] * self.n
        self.errors: list[Any] = [None] * self.n
        self.points: list[tuple[int, bool]] = []
        self.trace: list[int] = []
        self.wrap = wrap
        # gates[i]() -> is thread i allowed to start yet (a child exists only after its parent spawned it)
        self.gates = gates

    def _yield(self, tid):
        self.main.release()
        if not self.sems[tid].acquire(timeout=TIMEOUT):
            raise core.Broken("line scheduler: thread starved")

    def _tracer(self, tid):
        target = self.target

        def local(frame, event, arg):
            if event == "line":
                self._yield(tid)
            return local

        def glob(frame, event, arg):
            if event == "call" and frame.f_code.co_filename == target:
                return local
            return None

        return glob

    def _run(self, tid):
        if not self.sems[tid].acquire(timeout=TIMEOUT):
            return
        sys.settrace(self._tracer(tid))
        try:
            self.bodies[tid]()
        except BaseException as e:  # noqa: BLE001
            self.errors[tid] = ("EXC", type(e).__name__, str(e)[:120])
        finally:
            sys.settrace(None)
            self.done[tid] = True
            self.main.release()

    def run(self):
        ths = []
        for i in range(self.n):
            if self.wrap is not None and self.wrap[i] is not None:
                w = self.wrap[i]
                t = threading.Thread(target=lambda i=i, w=w: w(lambda: self._run(i)), daemon=True)
            else:
                t = threading.Thread(target=self._run, args=(i,), daemon=True)
            ths.append(t)
            t.start()
        cur = -1   # nobody runs yet: the first decision is a free choice, not a preemption
        pos = 0
        while not all(self.done):
            enabled = [i for i in range(self.n) if not self.done[i]
                       and (self.gates is None or self.gates[i] is None or self.gates[i]())]
            if not enabled:
                raise core.Broken("line scheduler: no thread enabled but not all are done (gate never opened)")
            cur_en = cur in enabled
            if cur_en:
                enabled = [cur] + [i for i in enabled if i != cur]
            c = self.choices[pos] if pos < len(self.choices) else 0
            if c >= len(enabled):
                raise core.Broken(f"line scheduler: replayed prefix diverged at decision {pos}: "
                                  f"choice {c} of {len(enabled)} enabled")
            self.points.append((len(enabled), cur_en))
            cur = enabled[c]
            self.trace.append(cur)
            pos += 1
            self.sems[cur].release()
            if not self.main.acquire(timeout=TIMEOUT):
                raise core.Broken("line scheduler: baton never came back")
        for t in ths:
            t.join(TIMEOUT)
            if t.is_alive():
                raise core.Broken("line scheduler: thread did not terminate")
        return self.points


def explore_lines(make: Callable[[], tuple], bound: int, target_file: str,
                  on_execution: Callable[[list[int], int, Any, list], bool]) -> dict:
    """Iterative context bounding.

    ``make()`` -> (bodies, wrap or None, observe) builds a fresh world; ``observe()`` is called after the run.
    ``on_execution(choices, preemptions, observation, thread_trace)`` -> True to stop exploring (a failure was
    found at this level; all schedules of the *current* preemption level are still completed first? no - we stop
    immediately: levels are explored in increasing order, so the first failure has the fewest preemptions).
    Returns statistics {executions, points (scheduling decisions), per_level: [...], max_points}."""
    levels: list[list[list[int]]] = [[] for _ in range(bound + 2)]
    levels[0].append([])
    stats = {"executions": 0, "points": 0, "per_level": [0] * (bound + 1), "max_points": 0, "stopped": False}
    for b in range(bound + 1):
        queue = levels[b]
        while queue:
            prefix = queue.pop()
            bodies, wrap, observe, *rest = make()
            s = LineSched(bodies, prefix, target_file, wrap, rest[0] if rest else None)
            pts = s.run()
            stats["executions"] += 1
            stats["per_level"][b] += 1
            stats["points"] += len(pts)
            stats["max_points"] = max(stats["max_points"], len(pts))
            obs = observe()
            if any(e is not None for e in s.errors):
                obs = ("THREAD-ERROR", tuple(s.errors), obs)
            if on_execution(list(prefix), b, obs, list(s.trace)):
                stats["stopped"] = True
                return stats
            for i in range(len(prefix), len(pts)):
                nen, cur_en = pts[i]
                for alt in range(1, nen):
                    child = prefix + [0] * (i - len(prefix)) + [alt]
                    if cur_en:
                        if b + 1 <= bound:
                            levels[b + 1].append(child)
                    else:
                        queue.append(child)
    return stats


def run_lines(make: Callable[[], tuple], choices: Sequence[int], target_file: str):
    """Replay one line-level schedule: -> (observation, thread trace, number of decisions)."""
    bodies, wrap, observe, *rest = make()
    s = LineSched(bodies, choices, target_file, wrap, rest[0] if rest else None)
    pts = s.run()
    obs = observe()
    if any(e is not None for e in s.errors):
        obs = ("THREAD-ERROR", tuple(s.errors), obs)
    return obs, list(s.trace), len(pts)


# ------------------------------------------------------------------ replay determinism

def confirm(execute: Callable[[], Any], first: Any, what: str = "schedule") -> Any:
    """``execute()`` re-runs a failing schedule and returns its observation.  It is run twice and both must
    equal ``first`` (the observation that was judged a failure) - otherwise the *harness* is nondeterministic."""
    a = execute()
    b = execute()
    if a != first or b != first:
        raise core.Broken(f"{what} did not reproduce on replay: first={core.show(first)} "
                          f"replay1={core.show(a)} replay2={core.show(b)}")
    return first
