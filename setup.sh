#!/bin/sh
# Nothing to build: the machinery is pure Python run by /venv/bin/python against /repo/src.
cd "$(dirname "$0")" || exit 1
mkdir -p evidence replays
PYTHONPATH=/repo/src:$(pwd) PYTHONDONTWRITEBYTECODE=1 /venv/bin/python -c "import werkzeug, mc.core, mc.gen; print('setup ok: werkzeug from', werkzeug.__file__)"
