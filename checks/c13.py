"""C13 - cookie values round-trip and cannot inject attributes.

E1, four exhaustive spaces:

S  sweep      every Unicode scalar value of the tier's range, alone, as a<c>b and doubled
T  strings    every string of <= k atoms over a 19-atom nasty alphabet (the character classes of
              _cookie_no_quote_re / _cookie_slash_re / _cookie_re, plus an already-escaped text)
K  keys       token keys x short values
A  attributes full product path x domain x max_age x expires x secure x httponly x samesite x
              partitioned x a few nasty values, compared with a harness-side table of the canonical
              spelling and the fixed order
J  jar        Response.set_cookie -> test Client jar -> next request's Cookie header -> Request.cookies

Oracle (independent of the implementation's tables): an RFC 6265 cookie-octet regex for the value
syntax, identity for the round trip through both request-cookie parsers, literal expected text for
every attribute.  No wall clock is read: `expires` is always explicit or sync_expires=False.
"""
from __future__ import annotations

import itertools
import re
import warnings
from datetime import datetime, timedelta, timezone

from mc import core, gen

ID = "C13"
LEVEL = "exploration"
RULE = (
    "values = every Unicode scalar value U+0000-U+10FFFF (three contexts; "
    "surrogates excluded) in three contexts (c, a+c+b, c+c) + every concatenation of <=4 (thorough <=5) atoms of a "
    "19-atom alphabet (quote, semicolon, comma, backslash, =, space, TAB, CR, LF, NUL, 0x19, 0x1A, 0x1F, 0x7F, %, "
    "e-acute, non-BMP, an already escaped \\054); token keys x values; the full attribute product; the test-client "
    "jar for all strings <=2 (thorough <=3) atoms. One evaluation = one dump_cookie result checked (value syntax, "
    "ASCII, tail, two parsers). non-trivial = distinct value that takes the quoting branch (does not consist of "
    "characters the fast path emits verbatim), or a distinct attribute combination with >= 1 attribute. Round 2 adds: "
    "10 further sweep contexts (code point next to backslash, quote, semicolon, space, =, %, comma, an octal escape), "
    "all pairs over 141 boundary code points, strings <=5 atoms (thorough), every token character inside a key, "
    "sync_expires with a harness-owned clock, Response.set_cookie / delete_cookie / max_cookie_size product, invalid "
    "SameSite values, further expires forms, several cookies in one Cookie header with duplicate keys and cls=, the "
    "test client's set_cookie / get_cookie / delete_cookie with the full domain x origin_only x path x request host x "
    "request path grid, and every jar history <=3 (thorough <=5) over 11 set / replace / delete / expire operations "
    "against a dict model."
)
ASSUMPTIONS = [
    "space inside the quotes is tolerated unescaped (the suite pins '\"a b\"'; it cannot end the pair)",
    "attribute order Domain, Expires, Max-Age, Secure, HttpOnly, Path, SameSite, Partitioned is 'the fixed order'",
    "canonical spellings are literal harness-side strings (IDNA / percent-encoding / IMF-fixdate computed by hand)",
    "expires is always given explicitly or sync_expires=False, so datetime.now() is never read",
    "a defect that needs two unrelated rare code points in one value is out of reach (sweep contexts are fixed)",
    "sync_expires: werkzeug.http.datetime is replaced by a subclass whose now() is the harness clock (T0 + 0.9 s) while "
    "those cases run; Expires may be the truncated or the rounded second",
    "an invalid SameSite value must be refused or emitted as one of Strict / Lax / None matching the request",
    "a MultiDict groups values by key: per key the parsed values must be the sent ones in order (no global order)",
    "the test client's scoping is judged by RFC 6265 domain-match / path-match (the Client documents both)",
    "bytes keys / values are rejected by dump_cookie since 3.0 (TypeError) and are not part of the space; non-token "
    "and non-ASCII keys are outside the quantifier ('every token key')",
]

from werkzeug.http import dump_cookie  # noqa: E402
from werkzeug.http import parse_cookie as environ_parse_cookie  # noqa: E402
from werkzeug.sansio.http import parse_cookie as sansio_parse_cookie  # noqa: E402
from werkzeug.test import Client  # noqa: E402
from werkzeug.wrappers import Request, Response  # noqa: E402

warnings.simplefilter("ignore")

# ------------------------------------------------------------------ oracle: RFC 6265 value syntax

# cookie-octet = %x21 / %x23-2B / %x2D-3A / %x3C-5B / %x5D-7E  (no CTL, space, DQUOTE, comma, semicolon, backslash)
OCT = r"[\x21\x23-\x2B\x2D-\x3A\x3C-\x5B\x5D-\x7E]"
VAL = re.compile(rf'(?:{OCT}*|"(?:{OCT}| |\\[0-3][0-7][0-7]|\\"|\\\\)*")')
PLAIN = re.compile(rf"{OCT}*")

ATOMS = ["a", '"', ";", ",", "\\", "=", " ", "\t", "\r", "\n", "\0", "\x19", "\x1a", "\x1f", "\x7f", "%",
         "é", "\U0001F600", "\\054"]

KEYS = ["k", "a-b", "A_1", "x.y", "!#$%&'*+-.^_`|~", "0", "sessionid", "__Host-x"]

TAIL_KW = dict(path="/", httponly=True)
TAIL = "; HttpOnly; Path=/"


def check_value(R, key, v, where, with_tail=True):
    """dump + every oracle on one (key, value). Returns nothing; reports through R."""
    R.ev()
    try:
        h = dump_cookie(key, v, path=None)
    except Exception as e:  # noqa: BLE001
        R.violation(f"{where}:dump-exception:{type(e).__name__}", {"kind": "value", "key": key, "value": v})
        return
    quoted = not PLAIN.fullmatch(v)
    R.use("branch:quoted" if quoted else "branch:plain")
    if quoted:
        R.nontrivial(v)
    bad = value_problems(key, v, h)
    if with_tail and not bad:
        try:
            h2 = dump_cookie(key, v, **TAIL_KW)
        except Exception as e:  # noqa: BLE001
            bad.append(("tail-exception:" + type(e).__name__, None))
        else:
            if h2 != h + TAIL:
                bad.append(("attributes-after-value", h2))
    R.outcome(("value", tuple(b[0] for b in bad), quoted))
    for what, got in bad:
        R.violation(f"{where}:{what}", {"kind": "value", "key": key, "value": v, "header": h, "what": what,
                                         "got": got})


def value_problems(key, v, h):
    bad = []
    if not isinstance(h, str):
        return [("not-str", repr(h))]
    if not h.isascii():
        bad.append(("non-ascii-header", None))
    pre = key + "="
    if not h.startswith(pre):
        bad.append(("pair-prefix", None))
        return bad
    if not VAL.fullmatch(h[len(pre):]):
        bad.append(("value-syntax", None))
    try:
        r1 = sansio_parse_cookie(h).getlist(key)
    except Exception as e:  # noqa: BLE001
        r1 = ["EXC:" + type(e).__name__]
    if r1 != [v]:
        bad.append(("roundtrip-sansio", r1))
    try:
        r2 = environ_parse_cookie({"HTTP_COOKIE": h}).getlist(key)
    except Exception as e:  # noqa: BLE001
        r2 = ["EXC:" + type(e).__name__]
    if r2 != [v]:
        bad.append(("roundtrip-environ", r2))
    if not bad or bad == [("value-syntax", None)]:
        # the pair must also be the *only* pair a request parser sees
        try:
            allp = list(sansio_parse_cookie(h).items(multi=True))
        except Exception:  # noqa: BLE001
            allp = None
        if allp != [(key, v)]:
            bad.append(("extra-pairs", allp))
    return bad


# ------------------------------------------------------------------ attribute product (harness-side table)

T0 = datetime(2030, 1, 2, 3, 4, 5, tzinfo=timezone.utc)
T0_TEXT = "Wed, 02 Jan 2030 03:04:05 GMT"

PATHS = [(None, None), ("/", "/"), ("/a b", "/a%20b"), ("/a;b", "/a%3Bb"), ("/é", "/%C3%A9"),
         ("/p,q=r", "/p,q=r"), ("/x%3By", "/x%3By")]
DOMAINS = [(None, None), ("example.com", "example.com"), (".example.com", "example.com"),
           ("example.com:80", "example.com"), ("bücher.example", "xn--bcher-kva.example"),
           ("localhost", "localhost"),
           # non-ASCII label directly before the port, all labels non-ASCII, leading dot + IDN + port, upper case
           # (seed C13-4a); A-labels written by hand
           ("münchen:8080", "xn--mnchen-3ya"), ("例え.テスト:443", "xn--r8jz45g.xn--zckzah"),
           (".bücher.münchen:80", "xn--bcher-kva.xn--mnchen-3ya"), ("MÜNCHEN", "xn--mnchen-3ya"),
           ("shop.münchen", "shop.xn--mnchen-3ya"), ("..example.com:8080", "example.com")]
MAX_AGES = [(None, None), (0, "0"), (60, "60"), (timedelta(minutes=2, microseconds=7), "120"),
            # boundary values (seed C13-3b): zero in every spelling, sub-second, negative
            (timedelta(0), "0"), (timedelta(milliseconds=500), "0"), (-1, "-1")]
EXPIRES = [(None, None), (T0, T0_TEXT), (int(T0.timestamp()), T0_TEXT), (T0.timestamp() + 0.0, T0_TEXT),
           (T0.replace(tzinfo=None), T0_TEXT),
           (T0.astimezone(timezone(timedelta(hours=2))), T0_TEXT),
           ("Thu, 01 Jan 1970 00:00:00 GMT", "Thu, 01 Jan 1970 00:00:00 GMT")]
SAMESITES = [(None, None), ("strict", "Strict"), ("Lax", "Lax"), ("NONE", "None"), ("sTrIcT", "Strict")]
ATTR_VALUES = ["v", "a;b", "x y", "é", '"; Secure; "', ""]
VAL_TEXT = {}


def expected_attrs(dom, exp, age, secure, httponly, path, ss, part):
    out = []
    if dom is not None:
        out.append("Domain=" + dom)
    if exp is not None:
        out.append("Expires=" + exp)
    if age is not None:
        out.append("Max-Age=" + age)
    if secure or part:
        out.append("Secure")
    if httponly:
        out.append("HttpOnly")
    if path is not None:
        out.append("Path=" + path)
    if ss is not None:
        out.append("SameSite=" + ss)
    if part:
        out.append("Partitioned")
    return out


def attr_cases(tier):
    quick = False   # the full product in both tiers (promoted into quick)
    paths = range(5) if quick else range(len(PATHS))
    doms = range(len(DOMAINS))
    exps = (0, 1, 2, 6) if quick else range(len(EXPIRES))
    sss = range(4) if quick else range(len(SAMESITES))
    vals = ATTR_VALUES[:4] if quick else ATTR_VALUES
    for pi, di, ai, ei, se, ho, si, pa in itertools.product(
            paths, doms, range(len(MAX_AGES)), exps, (False, True), (False, True), sss, (False, True)):
        yield (pi, di, ai, ei, se, ho, si, pa, vals)


def run_attr_case(R, case):
    pi, di, ai, ei, se, ho, si, pa, vals = case
    path, epath = PATHS[pi]
    dom, edom = DOMAINS[di]
    age, eage = MAX_AGES[ai]
    exp, eexp = EXPIRES[ei]
    ss, ess = SAMESITES[si]
    exp_attrs = expected_attrs(edom, eexp, eage, se, ho, epath, ess, pa)
    R.use(f"path:{pi}", f"dom:{di}", f"age:{ai}", f"exp:{ei}", f"ss:{si}", f"sec:{se}", f"ho:{ho}", f"part:{pa}")
    for v in vals:
        R.ev()
        rec = {"kind": "attrs", "value": v, "case": [pi, di, ai, ei, se, ho, si, pa]}
        try:
            h = dump_cookie("k", v, max_age=age, expires=exp, path=path, domain=dom, secure=se, httponly=ho,
                            samesite=ss, partitioned=pa, sync_expires=False)
        except Exception as e:  # noqa: BLE001
            R.violation("attrs:exception:" + type(e).__name__, rec)
            continue
        what = attr_problem(v, h, exp_attrs)
        if exp_attrs:
            R.nontrivial((v, tuple(exp_attrs)))
        R.outcome(("attrs", what, len(exp_attrs)))
        if what:
            rec.update(header=h, expected_attrs=exp_attrs, what=what)
            R.violation("attrs:" + what, rec)
            continue
        if eexp is None and eage is not None:
            # the same combination with sync_expires=True under the harness clock: Expires = clock + max_age
            R.ev()
            what2, h2 = attr_sync_problem(case, v)
            R.use("attrs-sync")
            if what2:
                R.violation("attrs-sync:" + what2, {"kind": "attrs-sync", "value": v,
                                                    "case": [pi, di, ai, ei, se, ho, si, pa], "header": h2,
                                                    "what": what2})


def attr_sync_problem(case, v):
    pi, di, ai, ei, se, ho, si, pa = case[:8]
    age, eage = MAX_AGES[ai]
    try:
        with owned_clock():
            h = dump_cookie("k", v, max_age=age, expires=None, path=PATHS[pi][0], domain=DOMAINS[di][0], secure=se,
                            httponly=ho, samesite=SAMESITES[si][0], partitioned=pa, sync_expires=True)
    except Exception as e:  # noqa: BLE001
        return "exception:" + type(e).__name__, repr(e)
    res = [attr_problem(v, h, expected_attrs(DOMAINS[di][1], w, eage, se, ho, PATHS[pi][1], SAMESITES[si][1], pa))
           for w in _plus(int(eage))]
    return (None if None in res else res[0]), h


def attr_problem(v, h, exp_attrs):
    if not h.isascii():
        return "non-ascii-header"
    if not h.startswith("k="):
        return "pair-prefix"
    # candidate ends of the value: the longest token run and the quoted string (if any)
    ends = set()
    m1 = re.compile(rf"{OCT}*").match(h, 2)
    ends.add(m1.end())
    m2 = re.compile(rf'"(?:{OCT}| |\\[0-3][0-7][0-7]|\\"|\\\\)*"').match(h, 2)
    if m2:
        ends.add(m2.end())
    tail_expected = "".join("; " + a for a in exp_attrs)
    for e in sorted(ends, reverse=True):
        rest = h[e:]
        if rest == tail_expected:
            # value itself must round trip with the attributes stripped the way a client does (first ';')
            got = sansio_parse_cookie(h[:e]).getlist("k")
            if got != [v]:
                return "value-roundtrip"
            return None
    names = [a.partition("=")[0] for a in h.split("; ")[1:]]
    want = [a.partition("=")[0] for a in exp_attrs]
    if sorted(names) == sorted(want) and names != want:
        return "attribute-order"
    if names == want:
        return "attribute-spelling"
    return "attribute-set"


# ------------------------------------------------------------------ test client jar

_JAR: dict = {}


@Request.application
def _app(req):
    if req.path == "/set":
        r = Response("ok")
        r.set_cookie(_JAR["key"], _JAR["value"], **_JAR["kw"])
        return r
    if req.path == "/delete":
        r = Response("ok")
        r.delete_cookie(**_JAR["delete"])
        return r
    return Response("|".join(f"{k}\x00{v}" for k, v in req.cookies.items(multi=True)))


JAR_KW = [
    {},
    {"path": "/", "secure": True, "httponly": True, "samesite": "lax"},
    {"max_age": 60, "expires": T0, "domain": "localhost"},
    {"max_age": timedelta(seconds=5), "expires": T0_TEXT, "partitioned": True, "samesite": "NONE"},
]


def jar_case(R, key, v, kwi):
    R.ev()
    kw = dict(JAR_KW[kwi])
    _JAR.update(key=key, value=v, kw=kw)
    rec = {"kind": "jar", "key": key, "value": v, "kw": kwi}
    try:
        c = Client(_app)
        c.get("/set")
        got = c.get("/get").get_data(as_text=True)
        ck = c.get_cookie(key, domain="localhost", path=kw.get("path", "/"))
    except Exception as e:  # noqa: BLE001
        R.violation("jar:exception:" + type(e).__name__, rec)
        return
    want = f"{key}\x00{v}"
    R.outcome(("jar", got == want, kwi))
    if not PLAIN.fullmatch(v):
        R.nontrivial(("jar", v))
    if got != want:
        rec["got"] = got
        R.violation("jar:roundtrip", rec)
        return
    if ck is None:
        R.violation("jar:cookie-not-stored", rec)
        return
    if ck.decoded_value != v or ck.decoded_key != key:
        rec["got"] = (ck.decoded_key, ck.decoded_value)
        R.violation("jar:decoded-value", rec)
        return
    if kwi:
        want_fields = {
            "secure": bool(kw.get("secure") or kw.get("partitioned")),
            "http_only": bool(kw.get("httponly")),
            "same_site": kw["samesite"].title() if "samesite" in kw else None,
            "max_age": (int(kw["max_age"].total_seconds()) if isinstance(kw.get("max_age"), timedelta)
                        else kw.get("max_age")),
            "expires": T0 if "expires" in kw else None,
            "origin_only": "domain" not in kw,
        }
        got_fields = {k: getattr(ck, k) for k in want_fields}
        if got_fields != want_fields:
            rec["got"] = {k: repr(x) for k, x in got_fields.items()}
            rec["want"] = {k: repr(x) for k, x in want_fields.items()}
            R.violation("jar:attributes", rec)


# ================================================================== round 2 spaces
# Each space is a pure function  <name>_problem(*params) -> (problem | None, detail)  so that replay is one call.

import contextlib  # noqa: E402
from datetime import date as _date  # noqa: E402

import werkzeug.http as _whttp  # noqa: E402
from werkzeug.datastructures import ImmutableMultiDict, MultiDict, TypeConversionDict  # noqa: E402

EPOCH_TEXT = "Thu, 01 Jan 1970 00:00:00 GMT"
_REAL_DT = datetime


class _FakeMeta(type):
    def __instancecheck__(cls, obj):  # isinstance(x, werkzeug.http.datetime) must keep meaning "a datetime"
        return isinstance(obj, _REAL_DT)


class _FakeDT(_REAL_DT, metaclass=_FakeMeta):
    fixed = T0.replace(microsecond=900000)

    @classmethod
    def now(cls, tz=None):
        return cls.fixed.astimezone(tz) if tz is not None else cls.fixed.replace(tzinfo=None)


@contextlib.contextmanager
def owned_clock():
    """dump_cookie(sync_expires=True) reads werkzeug.http.datetime.now(); give it the harness clock (T0 + 0.9 s)."""
    old = _whttp.datetime
    _whttp.datetime = _FakeDT
    try:
        yield
    finally:
        _whttp.datetime = old


def _plus(seconds):
    return ((T0 + timedelta(seconds=seconds)).strftime("%a, %d %b %Y %H:%M:%S GMT"),
            (T0 + timedelta(seconds=seconds + 1)).strftime("%a, %d %b %Y %H:%M:%S GMT"))


# ---- SY: sync_expires with the owned clock (max_age given, expires absent -> Expires = clock + max_age)
SYNC_AGES = [(0, 0), (60, 60), (timedelta(minutes=2, microseconds=7), 120), (-1, -1), (86400 * 400, 86400 * 400),
             (1, 1), (timedelta(0), 0), (timedelta(milliseconds=500), 0), (timedelta(seconds=-2), -2)]
from werkzeug.sansio.response import Response as SansIOResponse  # noqa: E402


class NoWarnResponse(Response):
    max_cookie_size = 0     # the documented way to switch the size warning off


class NoWarnSansIO(SansIOResponse):
    max_cookie_size = 0


# how the cookie is set (seed C13-6a: max_cookie_size must only steer the warning, never the attributes)
SYNC_VIA = [
    ("dump_cookie", None), ("Response.set_cookie", lambda: Response("x")),
    ("Response max_cookie_size=0", lambda: _with_msz(Response("x"), 0)),
    ("Response max_cookie_size=1", lambda: _with_msz(Response("x"), 1)),
    ("Response subclass max_cookie_size=0", lambda: NoWarnResponse("x")),
    ("sansio Response", lambda: SansIOResponse()),
    ("sansio Response max_cookie_size=0", lambda: _with_msz(SansIOResponse(), 0)),
    ("sansio subclass max_cookie_size=0", lambda: NoWarnSansIO()),
]


def _with_msz(r, n):
    r.max_cookie_size = n
    return r



def sync_problem(ai, via, ei, vi):
    age, secs = SYNC_AGES[ai]
    exp, eexp = EXPIRES[ei]
    v = ATTR_VALUES[vi]
    with owned_clock():
        try:
            if via == 0:
                h = dump_cookie("k", v, max_age=age, expires=exp, path="/", sync_expires=True)
            else:
                r = SYNC_VIA[via][1]()
                with warnings.catch_warnings():
                    warnings.simplefilter("ignore")
                    r.set_cookie("k", v, max_age=age, expires=exp)
                hs = r.headers.getlist("Set-Cookie")
                if len(hs) != 1:
                    return "set-cookie-count", hs
                h = hs[0]
        except Exception as e:  # noqa: BLE001
            return "exception:" + type(e).__name__, repr(e)
    # explicit expires wins; otherwise clock + max_age, truncated or rounded to the second (statement silent)
    wanted = [eexp] if eexp is not None else list(_plus(secs))
    ok = []
    for w in wanted:
        attrs = ["Expires=" + w, "Max-Age=%d" % secs, "Path=/"]
        ok.append(attr_problem(v, h, attrs))
    if None in ok:
        return None, h
    return "sync-expires:" + ok[0], h


# ---- RD: Response.set_cookie / delete_cookie / max_cookie_size
def resp_problem(pi, di, se, ho, si, pa, op, msz):
    path, epath = PATHS[pi]
    dom, edom = DOMAINS[di]
    ss, ess = SAMESITES[si]
    sansio = op.endswith("-sansio")
    r = SansIOResponse() if sansio else Response("x")
    r.max_cookie_size = msz
    v = "a;b c" * 3
    try:
        with warnings.catch_warnings(record=True) as caught, owned_clock():
            warnings.simplefilter("always")
            if op.startswith("set-sync"):
                # max_age without expires: Expires = harness clock + max_age whatever max_cookie_size is
                r.set_cookie("k", v, max_age=60, path=path, domain=dom, secure=se, httponly=ho, samesite=ss,
                             partitioned=pa)
            elif op.startswith("delete"):
                r.delete_cookie("k", path=path, domain=dom, secure=se, httponly=ho, samesite=ss, partitioned=pa)
            elif op == "set":
                r.set_cookie("k", v, max_age=60, expires=T0, path=path, domain=dom, secure=se, httponly=ho,
                             samesite=ss, partitioned=pa)
            else:  # set then delete: two headers, in call order
                r.set_cookie("k", v, max_age=60, expires=T0, path=path, domain=dom, secure=se, httponly=ho,
                             samesite=ss, partitioned=pa)
                r.delete_cookie("k", path=path, domain=dom, secure=se, httponly=ho, samesite=ss, partitioned=pa)
    except Exception as e:  # noqa: BLE001
        return "exception:" + type(e).__name__, repr(e)
    hs = r.headers.getlist("Set-Cookie")
    want = []
    if op.startswith("set-sync"):
        if len(hs) != 1:
            return "set-cookie-count", hs
        res = [attr_problem(v, hs[0], expected_attrs(edom, w, "60", se, ho, epath, ess, pa)) for w in _plus(60)]
        return (None if None in res else "set-sync:" + res[0]), hs
    if op in ("set", "set+delete"):
        want.append((v, expected_attrs(edom, T0_TEXT, "60", se, ho, epath, ess, pa)))
    if op in ("delete", "set+delete", "delete-sansio"):
        want.append(("", expected_attrs(edom, EPOCH_TEXT, "0", se, ho, epath, ess, pa)))
    if len(hs) != len(want):
        return "set-cookie-count", hs
    for h, (val, attrs) in zip(hs, want):
        what = attr_problem(val, h, attrs)
        if what:
            return ("delete:" if val == "" else "set:") + what, hs
    # the warning machinery must not alter or drop the header; it may only warn
    for w in caught:
        if not issubclass(w.category, UserWarning):
            return "unexpected-warning-category", repr(w.message)
    return None, hs


# ---- SS: invalid SameSite values cannot be canonically spelled: refused, or emitted canonically
BAD_SAMESITES = ["bogus", "", "strict ", " lax", "none;Secure", "Strict\r\nX: y", "lax, strict", "STRICT"]


def samesite_problem(i, via):
    ss = BAD_SAMESITES[i]
    try:
        if via == 0:
            h = dump_cookie("k", "v", samesite=ss, path=None)
        else:
            r = Response("x")
            r.set_cookie("k", "v", samesite=ss, path=None)
            h = r.headers.getlist("Set-Cookie")[0]
    except ValueError:
        return None, "refused"
    except Exception as e:  # noqa: BLE001
        return "exception:" + type(e).__name__, repr(e)
    if h in ("k=v; SameSite=Strict", "k=v; SameSite=Lax", "k=v; SameSite=None") and \
            ss.strip().lower() == h.rpartition("=")[2].lower():
        return None, h
    return "samesite-not-canonical", h


# ---- DT: further expires forms (date object; numeric edge values)
EXP_FORMS = [(_date(2030, 1, 2), "Wed, 02 Jan 2030 00:00:00 GMT"), (0, EPOCH_TEXT), (0.0, EPOCH_TEXT),
             (1, "Thu, 01 Jan 1970 00:00:01 GMT"), (T0.replace(microsecond=999999), T0_TEXT),
             (datetime(1970, 1, 1), EPOCH_TEXT), (T0.timestamp() + 0.999, T0_TEXT)]


def expform_problem(i, vi):
    exp, text = EXP_FORMS[i]
    v = ATTR_VALUES[vi]
    try:
        h = dump_cookie("k", v, expires=exp, path=None)
    except Exception as e:  # noqa: BLE001
        return "exception:" + type(e).__name__, repr(e)
    what = attr_problem(v, h, ["Expires=" + text])
    return (("expires:" + what) if what else None), h


# ---- MC: several cookies in one Cookie header (what a client sends), duplicate keys, cls=
MC_KEYS = ["a", "b", "a"]
MC_VALUES = ["v", "a;b", 'x"y', "p q", "", "é", "\\", "a=b", "; b=evil", '"', "b=1; a", "\x1f,"]
MC_CLS = [None, MultiDict, dict, ImmutableMultiDict, TypeConversionDict]


MC_SEPS = ["; ", ";", " ; ", "; ; ", ";;"]


def multi_problem(keys, vals, clsi, parser, sepi=0):
    pairs = [(MC_KEYS[k], MC_VALUES[v]) for k, v in zip(keys, vals)]
    cls = MC_CLS[clsi]
    try:
        header = MC_SEPS[sepi].join(dump_cookie(k, v, path=None) for k, v in pairs)
        if sepi >= 3 and pairs:
            header = "; " + header + ";"      # empty pairs at both ends as well
        if parser == 0:
            got = sansio_parse_cookie(header, cls=cls) if cls else sansio_parse_cookie(header)
        else:
            env = {"HTTP_COOKIE": header} if pairs else {}
            got = environ_parse_cookie(env, cls=cls) if cls else environ_parse_cookie(env)
    except Exception as e:  # noqa: BLE001
        return "exception:" + type(e).__name__, repr(e)
    if cls is not None and type(got) is not cls:
        return "multi:wrong-class", type(got).__name__
    if cls in (dict, TypeConversionDict):
        if dict(got) != dict(pairs):
            return "multi:pairs", (header, dict(got))
    else:
        # a MultiDict groups values by key; per key the values must be exactly the sent ones, in order
        if sorted(got.items(multi=True)) != sorted(pairs) or set(got.keys()) != {k for k, _ in pairs}:
            return "multi:pairs", (header, list(got.items(multi=True)))
        for k in set(k for k, _ in pairs):
            if got.getlist(k) != [v for kk, v in pairs if kk == k]:
                return "multi:getlist", (header, k, got.getlist(k))
    return None, header


# ---- KS: every token character inside a key
TCHARS = [chr(c) for c in range(0x21, 0x7F) if chr(c).isalnum() or chr(c) in "!#$%&'*+-.^_`|~"]
KS_VALUES = ["", "v", 'a;b "q"\\', "é ="]


# ---- CJ: the test client's own cookie API: scoping, replacement, deletion, expiry
CJ_DOMAINS = ["localhost", "example.com", "sub.example.com"]
CJ_PATHS = ["/", "/a", "/a/", "/a/b"]
RQ_HOSTS = ["localhost", "example.com", "sub.example.com", "xexample.com", "other.test", "a.sub.example.com"]
RQ_PATHS = ["/", "/a", "/a/", "/a/b", "/ab", "/a/b/c", "/b", "/a/bc"]
CJ_VALUE = 'a;b "q"\\ é,='


def _ref_send(cd, origin_only, cp, host, rp):
    dom_ok = host == cd or (not origin_only and host.endswith("." + cd))
    path_ok = rp == cp or (rp.startswith(cp) and (cp.endswith("/") or rp[len(cp):len(cp) + 1] == "/"))
    return dom_ok and path_ok


def _sent(c, host, rp):
    body = c.get(rp, base_url="http://%s/" % host).get_data(as_text=True)
    if not body:
        return []
    return sorted(tuple(x.split("\x00", 1)) for x in body.split("|"))


def scope_problem(di, origin_only, pi, hi, ri):
    cd, cp, host, rp = CJ_DOMAINS[di], CJ_PATHS[pi], RQ_HOSTS[hi], RQ_PATHS[ri]
    try:
        c = Client(_app)
        c.set_cookie("k", CJ_VALUE, domain=cd, origin_only=origin_only, path=cp, secure=True, samesite="Lax")
        ck = c.get_cookie("k", domain=cd, path=cp)
        got = _sent(c, host, rp)
    except Exception as e:  # noqa: BLE001
        return "exception:" + type(e).__name__, repr(e)
    if ck is None or ck.decoded_value != CJ_VALUE or ck.domain != cd or ck.path != cp \
            or ck.origin_only is not origin_only or ck.secure is not True or ck.same_site != "Lax":
        return "client:get_cookie", None if ck is None else vars(ck)
    want = [("k", CJ_VALUE)] if _ref_send(cd, origin_only, cp, host, rp) else []
    if got != want:
        return ("client:cookie-not-sent" if want else "client:cookie-leaked"), got
    return None, got


# operation alphabet of the jar histories; the model is a dict (domain, path, key) -> value
JAR_OPS = ["set-v1", "set-v2", "set-a-v3", "delete", "delete-a", "expire-maxage", "expire-epoch", "resp-set-v4",
           "resp-delete", "resp-expire-a", "set-other-key"]
V1, V2, V3, V4 = 'one;"1"', "two 2", "th\\ree", "fo,ur=4"


def jar_history_problem(hist):
    model = {}
    try:
        c = Client(_app)
        for oi in hist:
            op = JAR_OPS[oi]
            if op == "set-v1":
                c.set_cookie("k", V1)
                model[("localhost", "/", "k")] = V1
            elif op == "set-v2":
                c.set_cookie("k", V2, httponly=True)
                model[("localhost", "/", "k")] = V2
            elif op == "set-a-v3":
                c.set_cookie("k", V3, path="/a")
                model[("localhost", "/a", "k")] = V3
            elif op == "set-other-key":
                c.set_cookie("j", V1)
                model[("localhost", "/", "j")] = V1
            elif op == "delete":
                c.delete_cookie("k")
                model.pop(("localhost", "/", "k"), None)
            elif op == "delete-a":
                c.delete_cookie("k", path="/a")
                model.pop(("localhost", "/a", "k"), None)
            elif op == "expire-maxage":
                c.set_cookie("k", "x", max_age=0, expires=T0)
                model.pop(("localhost", "/", "k"), None)
            elif op == "expire-epoch":
                c.set_cookie("k", "x", expires=0)
                model.pop(("localhost", "/", "k"), None)
            elif op == "resp-set-v4":
                _JAR.update(key="k", value=V4, kw={"max_age": 60, "expires": T0})
                c.get("/set")
                model[("localhost", "/", "k")] = V4
            elif op == "resp-delete":
                _JAR.update(delete=dict(key="k"))
                c.get("/delete")
                model.pop(("localhost", "/", "k"), None)
            elif op == "resp-expire-a":
                _JAR.update(delete=dict(key="k", path="/a"))
                c.get("/delete")
                model.pop(("localhost", "/a", "k"), None)
        outs = {}
        for rp in ("/x", "/a/x"):
            outs[rp] = _sent(c, "localhost", rp)
        stored = {k: (c.get_cookie(k[2], domain=k[0], path=k[1]).decoded_value
                      if c.get_cookie(k[2], domain=k[0], path=k[1]) else None)
                  for k in [("localhost", "/", "k"), ("localhost", "/a", "k"), ("localhost", "/", "j")]}
    except Exception as e:  # noqa: BLE001
        return "exception:" + type(e).__name__, repr(e)
    for rp in ("/x", "/a/x"):
        want = sorted((k[2], v) for k, v in model.items() if _ref_send(k[0], True, k[1], "localhost", rp))
        if outs[rp] != want:
            return "jar-history:sent-cookies", {"path": rp, "got": outs[rp], "want": want}
    for k, v in stored.items():
        if model.get(k) != v:
            return "jar-history:get_cookie", {"key": k, "got": v, "want": model.get(k)}
    return None, outs


# ---- AK: cookie keys spelled like attributes (seed C13-5b): the jar must treat only what follows the first ';' as
#          attributes - the pair itself never is one
ATTR_NAMES = ["secure", "httponly", "samesite", "domain", "path", "max-age", "expires", "partitioned"]
AK_KEYS = [f(n) for n in ATTR_NAMES for f in (str.lower, str.upper, str.title)] + ["HttpOnly", "SameSite", "Max-Age"]
AK_VALUES = ["1", "0", "x", "example.org", "/p", "", "Strict", "Thu, 01 Jan 1970 00:00:00 GMT"]
AK_KW = [
    {},
    {"secure": True, "httponly": True, "samesite": "Strict", "max_age": 60, "expires": T0},   # explicit: no clock
    {"path": None},
    {"domain": "localhost", "expires": T0, "partitioned": True},
]


def attrkey_problem(ki, vi, via, kwi):
    key, v, kw = AK_KEYS[ki], AK_VALUES[vi], dict(AK_KW[kwi])
    try:
        c = Client(_app)
        if via == 0:
            _JAR.update(key=key, value=v, kw=kw)
            c.get("/set")
        else:
            if kw.get("path", "/") is None:
                return None, "Client.set_cookie needs a path"
            ckw = {k: x for k, x in kw.items() if k != "domain"}
            c.set_cookie(key, v, origin_only="domain" not in kw, **ckw)
        got = _sent(c, "localhost", "/get")
        ck = c.get_cookie(key, domain="localhost", path="/")
    except Exception as e:  # noqa: BLE001
        return "exception:" + type(e).__name__, repr(e)
    if got != [(key, v)]:
        return "attrkey:cookie-not-returned", got
    if ck is None:
        return "attrkey:not-stored-under-its-own-key", None
    want = {
        "decoded_key": key, "decoded_value": v, "domain": "localhost", "path": "/",
        "secure": bool(kw.get("secure") or kw.get("partitioned")), "http_only": bool(kw.get("httponly")),
        "same_site": kw.get("samesite"), "max_age": kw.get("max_age"),
        "expires": T0 if "expires" in kw else None, "origin_only": "domain" not in kw,
    }
    have = {k: getattr(ck, k) for k in want}
    if have != want:
        return "attrkey:jar-fields", {k: (have[k], want[k]) for k in want if have[k] != want[k]}
    return None, got


# ---- dispatcher used by run_unit and replay
R2 = {
    "sync": sync_problem, "resp": resp_problem, "samesite": samesite_problem, "expform": expform_problem,
    "multi": multi_problem, "scope": scope_problem, "attrkey": attrkey_problem, "jarhist": lambda *h: jar_history_problem(h),
}


def r2_eval(R, space, params, nontrivial=True):
    R.ev()
    try:
        what, detail = R2[space](*params)
    except Exception as e:  # noqa: BLE001 - harness-side surprise: report, replayable
        what, detail = "harness-exception:" + type(e).__name__, repr(e)
    R.use("r2:" + space)
    R.outcome((space, what))
    if nontrivial:
        R.nontrivial((space, params))
    if what:
        R.violation(f"{space}:{what}", {"kind": "r2", "space": space, "params": list(params), "what": what,
                                        "detail": detail})
    return what, detail


PAIR_POINTS = list(range(0x80)) + [0x80, 0x85, 0xA0, 0xFF, 0x100, 0x7FF, 0x800, 0x2028, 0xFEFF, 0xFFFD, 0xFFFF,
                                   0x10000, 0x10FFFF]
# thorough-only sweep contexts: the code point next to each character class the escaper / parser distinguishes
EXTRA_CONTEXTS = ["\\%s", "%s\\", '"%s"', ";%s", "%s;", " %s ", "=%s", "%%%s", "%s,", "\\0%s"]


# ------------------------------------------------------------------ units

SWEEP_CHUNK = 0x400


def units(tier):
    top = 0x110000          # every Unicode scalar value in the three main contexts, both tiers
    us = [("sweep", lo, min(lo + SWEEP_CHUNK, top)) for lo in range(0, top, SWEEP_CHUNK)
          if not (0xD800 <= lo and lo + SWEEP_CHUNK <= 0xE000)]
    depth = 4
    for i in range(len(ATOMS)):
        if True:
            for j in range(len(ATOMS)):
                us.append(("strings2", i, j, depth))
        else:
            us.append(("strings", i, depth))
    us.append(("short",))
    us.append(("keys",))
    ac = list(attr_cases(tier))
    n = 400
    for i in range(0, len(ac), n):
        us.append(("attrs", i, i + n))
    jd = 3
    for i in range(len(ATOMS)):
        us.append(("jar", i, jd))
    # ---- round 2
    T = tier == "thorough"
    us.append(("r2sync",))
    for pi in range(len(PATHS)):
        us.append(("r2resp", pi))
    us.append(("r2misc",))
    for ki in range(len(AK_KEYS)):
        us.append(("r2attrkey", ki))
    for v0 in range(len(MC_VALUES)):
        us.append(("r2multi", v0))
    for di in range(len(CJ_DOMAINS)):
        for oo in (True, False):
            us.append(("r2scope", di, oo))
    for o1 in range(len(JAR_OPS)):
        for o2 in range(len(JAR_OPS)):
            us.append(("r2jarhist", (o1, o2), 5 if T else 4))
    us.append(("r2jarhist", (), 1))
    for i in range(0, len(PAIR_POINTS), 8):
        us.append(("pairs", i, i + 8))
    xtop = 0x110000 if T else 0x10000
    xchunk = 0x1000 if T else 0x400
    for lo in range(0, xtop, xchunk):
        if not (0xD800 <= lo and lo + xchunk <= 0xE000):
            us.append(("sweepx", lo, min(lo + xchunk, xtop)))
    if True:
        # depth-5 strings: one unit per leading atom pair (both tiers)
        for i in range(len(ATOMS)):
            for j in range(len(ATOMS)):
                us.append(("strings5", i, j))
    return us


_ATTR_CACHE: dict = {}


def run_unit(unit, R, tier):
    kind = unit[0]
    if kind == "sweep":
        _, lo, hi = unit
        R.use("plane:%d" % (lo >> 16))
        if lo < 0x100:
            R.use(*("cp:%02x" % cp for cp in range(lo, min(hi, 0x100))))
        for cp in range(lo, hi):
            if 0xD800 <= cp <= 0xDFFF:
                continue
            c = chr(cp)
            check_value(R, "k", "a" + c + "b", "sweep")
            if True:   # all three main contexts on every plane in both tiers
                check_value(R, "k", c, "sweep", with_tail=False)
                check_value(R, "k", c + c, "sweep", with_tail=False)
        try:
            ex = dump_cookie("k", "a" + chr(lo if not 0xD800 <= lo <= 0xDFFF else 0xE000) + "b", path=None)
            R.sample({"space": "sweep", "from": lo, "to": hi - 1, "example": ex})
        except Exception:  # noqa: BLE001 - already reported per case
            pass
    elif kind == "strings":
        _, i, depth = unit
        for n in range(1, depth + 1):
            for t in itertools.product(ATOMS, repeat=n - 1):
                v = ATOMS[i] + "".join(t)
                check_value(R, "k", v, "strings")
        R.use("atom:%d" % i)
    elif kind == "strings2":
        _, i, j, depth = unit
        for n in range(2, depth + 1):
            for t in itertools.product(ATOMS, repeat=n - 2):
                v = ATOMS[i] + ATOMS[j] + "".join(t)
                check_value(R, "k", v, "strings")
        R.use("atom:%d" % i)
    elif kind == "short":
        check_value(R, "k", "", "strings")
        for a in ATOMS:
            check_value(R, "k", a, "strings")
        try:
            R.sample({"space": "strings", "value": '";\\', "header": dump_cookie("k", '";\\', path=None)})
        except Exception:  # noqa: BLE001
            pass
    elif kind == "keys":
        vals = [""] + list(gen.strings(ATOMS, 2, 1))
        for key in KEYS:
            R.use("key:" + key)
            for v in vals:
                check_value(R, key, v, "keys")
    elif kind == "attrs":
        _, a, b = unit
        for case in itertools.islice(attr_cases(tier), a, b):
            run_attr_case(R, case)
        try:
            R.sample({"space": "attrs", "header": dump_cookie("k", "a;b", max_age=60, expires=T0, path="/a;b",
                                                                domain=".example.com", samesite="lax")})
        except Exception:  # noqa: BLE001 - already reported per case
            pass
    elif kind == "jar":
        _, i, depth = unit
        for n in range(1, depth + 1):
            for t in itertools.product(ATOMS, repeat=n - 1):
                jar_case(R, "k", ATOMS[i] + "".join(t), 0)
        for kwi in range(1, len(JAR_KW)):
            for key in ("k", "a-b"):
                jar_case(R, key, ATOMS[i] + ";x", kwi)
        R.use("jar:%d" % i)
    else:
        run_r2_unit(unit, R, tier)


def run_r2_unit(unit, R, tier):
    kind = unit[0]
    T = tier == "thorough"
    if kind == "r2sync":
        for ai in range(len(SYNC_AGES)):
            for via in range(len(SYNC_VIA)):
                R.use("syncvia:%d" % via)
                for ei in range(len(EXPIRES)):
                    for vi in range(len(ATTR_VALUES)):
                        what, h = r2_eval(R, "sync", (ai, via, ei, vi))
                        R.use("sync:explicit" if EXPIRES[ei][1] else "sync:clock")
        R.sample({"space": "sync_expires", "clock": str(_FakeDT.fixed), "max_age": 60,
                  "header": sync_problem(1, 0, 0, 0)[1]})
    elif kind == "r2resp":
        pi = unit[1]
        for di in range(len(DOMAINS)):
            for se, ho, pa in itertools.product((False, True), repeat=3):
                for si in range(len(SAMESITES)):
                    for op in ("delete", "set", "set+delete", "set-sync", "set-sync-sansio", "delete-sansio"):
                        for msz in (0, 1, 4093):
                            r2_eval(R, "resp", (pi, di, se, ho, si, pa, op, msz))
                            R.use("resp:" + op, "msz:%d" % msz)
        if pi == 3:
            R.sample({"space": "delete_cookie", "headers": resp_problem(3, 2, True, False, 1, True, "set+delete", 0)[1]})
    elif kind == "r2misc":
        for i in range(len(BAD_SAMESITES)):
            for via in (0, 1):
                what, d = r2_eval(R, "samesite", (i, via))
                R.use("samesite:" + ("refused" if d == "refused" else "emitted"))
        for i in range(len(EXP_FORMS)):
            for vi in range(len(ATTR_VALUES)):
                r2_eval(R, "expform", (i, vi))
        for c in TCHARS:
            R.use("tchar:" + c)
            for key in (c, "x" + c + "y", c + c):
                for v in KS_VALUES:
                    check_value(R, key, v, "keysweep")
    elif kind == "r2attrkey":
        ki = unit[1]
        for vi in range(len(AK_VALUES)):
            for via in (0, 1):
                for kwi in range(len(AK_KW)):
                    r2_eval(R, "attrkey", (ki, vi, via, kwi))
        R.use("attrkey:" + AK_KEYS[ki].lower())
    elif kind == "r2multi":
        v0 = unit[1]
        nv = len(MC_VALUES)
        if v0 == 0:
            for clsi in range(len(MC_CLS)):
                for parser in (0, 1):
                    r2_eval(R, "multi", ((), (), clsi, parser), nontrivial=False)
        # all 1- and 2-cookie headers with every cls; 3 (thorough 4) cookies with the default class
        for k0 in range(3):
            for clsi in range(len(MC_CLS)):
                for parser in (0, 1):
                    r2_eval(R, "multi", ((k0,), (v0,), clsi, parser))
                    R.use("cls:%d" % clsi, "parser:%d" % parser)
                    for k1 in range(3):
                        for v1 in range(nv):
                            r2_eval(R, "multi", ((k0, k1), (v0, v1), clsi, parser))
                            if clsi == 0:
                                for sepi in range(1, len(MC_SEPS)):
                                    r2_eval(R, "multi", ((k0, k1), (v0, v1), 0, parser, sepi))
                                    R.use("sep:%d" % sepi)
        rest3 = range(nv)
        for keys in itertools.product(range(3), repeat=3):
            for v1 in rest3:
                for v2 in rest3:
                    for parser in (0, 1):
                        r2_eval(R, "multi", (keys, (v0, v1, v2), 0, parser))
        if True:
            for keys in itertools.product(range(3), repeat=4):
                for vs in itertools.product(range(6), repeat=3):
                    r2_eval(R, "multi", (keys, (v0,) + vs, 0, 0))
        if v0 == 1:
            R.sample({"space": "multi-cookie", "header": multi_problem((0, 1, 2), (1, 8, 2), 0, 0)[1]})
    elif kind == "r2scope":
        _, di, oo = unit
        for pi in range(len(CJ_PATHS)):
            for hi in range(len(RQ_HOSTS)):
                for ri in range(len(RQ_PATHS)):
                    what, got = r2_eval(R, "scope", (di, oo, pi, hi, ri))
                    R.use("scope:sent" if got else "scope:withheld")
    elif kind == "r2jarhist":
        _, prefix, depth = unit
        nops = range(len(JAR_OPS))
        if not prefix:
            r2_eval(R, "jarhist", ())
            return
        # the unit owns every history that starts with `prefix` (shorter prefixes are owned by the first such unit)
        if len(prefix) == 2 and prefix[1] == 0:
            r2_eval(R, "jarhist", prefix[:1])
        for n in range(len(prefix), depth + 1):
            for rest in itertools.product(nops, repeat=n - len(prefix)):
                h = tuple(prefix) + rest
                r2_eval(R, "jarhist", h)
        for oi in prefix:
            R.use("jarop:" + JAR_OPS[oi])
    elif kind == "pairs":
        _, a, b = unit
        for c1 in PAIR_POINTS[a:b]:
            for c2 in PAIR_POINTS:
                check_value(R, "k", chr(c1) + chr(c2), "pairs", with_tail=False)
        R.use("pairs")
    elif kind == "sweepx":
        _, lo, hi = unit
        for cp in range(lo, hi):
            if 0xD800 <= cp <= 0xDFFF:
                continue
            c = chr(cp)
            for ctx in EXTRA_CONTEXTS:
                check_value(R, "k", ctx % c, "sweepx", with_tail=False)
        R.use("sweepx")
    elif kind == "strings5":
        _, i, j = unit
        for t in itertools.product(ATOMS, repeat=3):
            check_value(R, "k", ATOMS[i] + ATOMS[j] + "".join(t), "strings", with_tail=False)
        R.use("strings5")


def finalize(R, tier):
    need = {"branch:quoted", "branch:plain", "plane:0"}
    need |= {"cp:%02x" % c for c in range(256)}
    need |= {"atom:%d" % i for i in range(len(ATOMS))} | {"jar:%d" % i for i in range(len(ATOMS))}
    need |= {"key:" + k for k in KEYS}
    need |= {"sec:True", "sec:False", "ho:True", "ho:False", "part:True", "part:False"}
    if True:
        need |= {"plane:%d" % p for p in range(17)}
        need |= {f"path:{i}" for i in range(len(PATHS))}
        need |= {f"exp:{i}" for i in range(len(EXPIRES))} | {f"ss:{i}" for i in range(len(SAMESITES))}
    need |= {f"age:{i}" for i in range(len(MAX_AGES))} | {f"dom:{i}" for i in range(len(DOMAINS))}
    need |= {"r2:" + k for k in R2} | {"sync:explicit", "sync:clock", "resp:delete", "resp:set", "resp:set+delete",
                                        "resp:set-sync", "resp:set-sync-sansio", "resp:delete-sansio",
                                        "msz:0", "msz:1", "msz:4093", "samesite:refused", "attrs-sync", "scope:sent",
                                        "scope:withheld", "pairs", "sweepx"}
    need |= {"syncvia:%d" % i for i in range(len(SYNC_VIA))}
    need |= {"tchar:" + c for c in TCHARS} | {"cls:%d" % i for i in range(len(MC_CLS))} | {"parser:0", "parser:1"}
    need |= {"sep:%d" % i for i in range(1, len(MC_SEPS))}
    need |= {"jarop:" + o for o in JAR_OPS} | {"attrkey:" + n for n in ATTR_NAMES}
    need |= {"strings5"}
    missing = need - R.used
    if missing:
        raise core.Broken(f"vacuity: never exercised {sorted(missing)[:12]}")
    # oracle self-test: the syntax oracle must reject what the property forbids
    for bad in ('k=a;b', 'k="a"b"', 'k=a b', 'k="\x1a"', 'k="a\\8"', 'k=a,b', 'k="\x7f"', 'k=\xe9'):
        if VAL.fullmatch(bad[2:]):
            raise core.Broken(f"oracle self-test: value syntax accepts {bad!r}")
    for good in ('k=', 'k=abc', 'k="a b"', 'k="\\073\\"\\\\"', 'k=a=b'):
        if not VAL.fullmatch(good[2:]):
            raise core.Broken(f"oracle self-test: value syntax rejects {good!r}")
    return {
        "bound": ("U+0000-U+10FFFF x3 contexts (+10 more contexts up to U+FFFF), strings <=5 atoms, jar <=3 atoms, "
                  "multi-cookie headers <=4, jar histories <=4, full attribute product" if tier == "quick" else
                  "U+0000-U+10FFFF x13 contexts, strings <=5 atoms, jar <=3 atoms, multi-cookie headers <=4, "
                  "jar histories <=5"),
        "exhaustive": True,
        "explanation": "every scalar value of the range individually in three contexts; every string over the "
                       "critical alphabet up to the bound; full attribute product; client jar",
    }


# ------------------------------------------------------------------ replay / findings

def replay(rec):
    k = rec.get("kind")
    if k == "value":
        key, v = rec["key"], rec["value"]
        try:
            h = dump_cookie(key, v, path=None)
        except Exception as e:  # noqa: BLE001
            return True, f"dump_cookie({key!r}, {v!r}) raised {e!r}"
        bad = value_problems(key, v, h)
        if not bad:
            h2 = dump_cookie(key, v, **TAIL_KW)
            if h2 != h + TAIL:
                bad.append(("attributes-after-value", h2))
        text = (f"dump_cookie({key!r}, {v!r}, path=None) -> {h!r}\nproblems: {bad}\n"
                f"expected: value part matches RFC 6265 cookie-octets / quoted escapes, round trip == {v!r}")
        return bool(bad), text
    if k == "attrs":
        pi, di, ai, ei, se, ho, si, pa = rec["case"]
        v = rec["value"]
        exp_attrs = expected_attrs(DOMAINS[di][1], EXPIRES[ei][1], MAX_AGES[ai][1], se, ho, PATHS[pi][1],
                                   SAMESITES[si][1], pa)
        try:
            h = dump_cookie("k", v, max_age=MAX_AGES[ai][0], expires=EXPIRES[ei][0], path=PATHS[pi][0],
                            domain=DOMAINS[di][0], secure=se, httponly=ho, samesite=SAMESITES[si][0],
                            partitioned=pa, sync_expires=False)
        except Exception as e:  # noqa: BLE001
            return True, f"dump_cookie raised {e!r}"
        what = attr_problem(v, h, exp_attrs)
        return bool(what), f"header   = {h!r}\nexpected attributes = {exp_attrs}\nproblem  = {what}"
    if k == "attrs-sync":
        what, h = attr_sync_problem(tuple(rec["case"]), rec["value"])
        return bool(what), f"sync_expires=True under the harness clock {_FakeDT.fixed}: header={h!r} problem={what}"
    if k == "jar":
        R = core.Recorder()
        jar_case(R, rec["key"], rec["value"], rec["kw"])
        return bool(R.viol), f"set_cookie({rec['key']!r}, {rec['value']!r}, **{JAR_KW[rec['kw']]}) via Client: {dict(R.viol)}"
    if k == "r2":
        params = rec["params"]
        what, detail = R2[rec["space"]](*params)
        return bool(what), f"{rec['space']}{tuple(params)} -> problem={what}\n{detail!r}"
    return True, rec.get("traceback", "unit exception")


_RAW_1A_1F = re.compile("[\x1a-\x1f]")


def _is_raw_1a_1f(rec):
    """value-syntax failure whose only cause is a raw 0x1A-0x1F byte in the emitted value."""
    if rec.get("kind") != "value" or rec.get("what") != "value-syntax":
        return False
    h = rec["header"]
    if not _RAW_1A_1F.search(h) or not _RAW_1A_1F.search(rec["value"]):
        return False
    repaired = _RAW_1A_1F.sub(lambda m: "\\%03o" % ord(m.group()), h)
    return bool(VAL.fullmatch(repaired[len(rec["key"]) + 1:]))


FINDINGS = {"C13-ctl-1a-1f-raw": _is_raw_1a_1f}

LEVEL_TEXT = (
    "Bounded exhaustive exploration of dump_cookie / parse_cookie: every Unicode scalar value individually in three "
    "fixed contexts, every string over a 19-atom critical alphabet up to 3 (4) atoms, token keys, the complete "
    "attribute product against a literal table, and the test client's jar. The escaping table is indexed by byte "
    "value, so a per-code-point sweep is the deciding step the example-based tests lack."
)
LEVEL_NOTE = (
    "Trusted: the RFC 6265 cookie-octet regular expression and the hand-computed canonical attribute strings in the "
    "check. 'All of Unicode' is covered per code point in fixed contexts plus short strings; values longer than 4 "
    "atoms or combining two unrelated rare code points are not explored."
)
TECHNIQUE = "small-scope exhaustive enumeration (per-code-point sweep + short strings + attribute product)"
DESIGN_REF = "DESIGN.md §4 C13"
