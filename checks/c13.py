"""C13 - cookie values round-trip and cannot inject attributes.

E1, four exhaustive spaces:

S  sweep      every Unicode scalar value of the tier's range, alone, as a<c>b and doubled
T  strings    every string of <= k atoms over a 19-atom nasty alphabet (the character classes of
              _cookie_no_quote_re / _cookie_slash_re / _cookie_re, plus an already-escaped text)
K  keys       token keys x short values
A  attributes full product path x domain x max_age x expires x secure x httponly x samesite x
              partitioned x a few nasty values, compared with a harness-side table of the canonical
              spelling and the fixed order
J  jar        Response.set_cookie -> test Client jar -> next request's Cookie header -> Request.cookies

Oracle (independent of the implementation's tables): an RFC 6265 cookie-octet regex for the value
syntax, identity for the round trip through both request-cookie parsers, literal expected text for
every attribute.  No wall clock is read: `expires` is always explicit or sync_expires=False.
"""
from __future__ import annotations

import itertools
import re
import warnings
from datetime import datetime, timedelta, timezone

from mc import core, gen

ID = "C13"
LEVEL = "exploration"
RULE = (
    "values = every Unicode scalar value in the tier's range (quick: U+0000-U+FFFF, thorough: U+0000-U+10FFFF, "
    "surrogates excluded) in three contexts (c, a+c+b, c+c) + every concatenation of <=3 (thorough <=4) atoms of a "
    "19-atom alphabet (quote, semicolon, comma, backslash, =, space, TAB, CR, LF, NUL, 0x19, 0x1A, 0x1F, 0x7F, %, "
    "e-acute, non-BMP, an already escaped \\054); token keys x values; the full attribute product; the test-client "
    "jar for all strings <=2 (thorough <=3) atoms. One evaluation = one dump_cookie result checked (value syntax, "
    "ASCII, tail, two parsers). non-trivial = distinct value that takes the quoting branch (does not consist of "
    "characters the fast path emits verbatim), or a distinct attribute combination with >= 1 attribute."
)
ASSUMPTIONS = [
    "space inside the quotes is tolerated unescaped (the suite pins '\"a b\"'; it cannot end the pair)",
    "attribute order Domain, Expires, Max-Age, Secure, HttpOnly, Path, SameSite, Partitioned is 'the fixed order'",
    "canonical spellings are literal harness-side strings (IDNA / percent-encoding / IMF-fixdate computed by hand)",
    "expires is always given explicitly or sync_expires=False, so datetime.now() is never read",
    "a defect that needs two unrelated rare code points in one value is out of reach (sweep contexts are fixed)",
]

from werkzeug.http import dump_cookie  # noqa: E402
from werkzeug.http import parse_cookie as environ_parse_cookie  # noqa: E402
from werkzeug.sansio.http import parse_cookie as sansio_parse_cookie  # noqa: E402
from werkzeug.test import Client  # noqa: E402
from werkzeug.wrappers import Request, Response  # noqa: E402

warnings.simplefilter("ignore")

# ------------------------------------------------------------------ oracle: RFC 6265 value syntax

# cookie-octet = %x21 / %x23-2B / %x2D-3A / %x3C-5B / %x5D-7E  (no CTL, space, DQUOTE, comma, semicolon, backslash)
OCT = r"[\x21\x23-\x2B\x2D-\x3A\x3C-\x5B\x5D-\x7E]"
VAL = re.compile(rf'(?:{OCT}*|"(?:{OCT}| |\\[0-3][0-7][0-7]|\\"|\\\\)*")')
PLAIN = re.compile(rf"{OCT}*")

ATOMS = ["a", '"', ";", ",", "\\", "=", " ", "\t", "\r", "\n", "\0", "\x19", "\x1a", "\x1f", "\x7f", "%",
         "é", "\U0001F600", "\\054"]

KEYS = ["k", "a-b", "A_1", "x.y", "!#$%&'*+-.^_`|~", "0", "sessionid", "__Host-x"]

TAIL_KW = dict(path="/", httponly=True)
TAIL = "; HttpOnly; Path=/"


def check_value(R, key, v, where, with_tail=True):
    """dump + every oracle on one (key, value). Returns nothing; reports through R."""
    R.ev()
    try:
        h = dump_cookie(key, v, path=None)
    except Exception as e:  # noqa: BLE001
        R.violation(f"{where}:dump-exception:{type(e).__name__}", {"kind": "value", "key": key, "value": v})
        return
    quoted = not PLAIN.fullmatch(v)
    R.use("branch:quoted" if quoted else "branch:plain")
    if quoted:
        R.nontrivial(v)
    bad = value_problems(key, v, h)
    if with_tail and not bad:
        try:
            h2 = dump_cookie(key, v, **TAIL_KW)
        except Exception as e:  # noqa: BLE001
            bad.append(("tail-exception:" + type(e).__name__, None))
        else:
            if h2 != h + TAIL:
                bad.append(("attributes-after-value", h2))
    R.outcome(("value", tuple(b[0] for b in bad), quoted))
    for what, got in bad:
        R.violation(f"{where}:{what}", {"kind": "value", "key": key, "value": v, "header": h, "what": what,
                                         "got": got})


def value_problems(key, v, h):
    bad = []
    if not isinstance(h, str):
        return [("not-str", repr(h))]
    if not h.isascii():
        bad.append(("non-ascii-header", None))
    pre = key + "="
    if not h.startswith(pre):
        bad.append(("pair-prefix", None))
        return bad
    if not VAL.fullmatch(h[len(pre):]):
        bad.append(("value-syntax", None))
    try:
        r1 = sansio_parse_cookie(h).getlist(key)
    except Exception as e:  # noqa: BLE001
        r1 = ["EXC:" + type(e).__name__]
    if r1 != [v]:
        bad.append(("roundtrip-sansio", r1))
    try:
        r2 = environ_parse_cookie({"HTTP_COOKIE": h}).getlist(key)
    except Exception as e:  # noqa: BLE001
        r2 = ["EXC:" + type(e).__name__]
    if r2 != [v]:
        bad.append(("roundtrip-environ", r2))
    if not bad or bad == [("value-syntax", None)]:
        # the pair must also be the *only* pair a request parser sees
        try:
            allp = list(sansio_parse_cookie(h).items(multi=True))
        except Exception:  # noqa: BLE001
            allp = None
        if allp != [(key, v)]:
            bad.append(("extra-pairs", allp))
    return bad


# ------------------------------------------------------------------ attribute product (harness-side table)

T0 = datetime(2030, 1, 2, 3, 4, 5, tzinfo=timezone.utc)
T0_TEXT = "Wed, 02 Jan 2030 03:04:05 GMT"

PATHS = [(None, None), ("/", "/"), ("/a b", "/a%20b"), ("/a;b", "/a%3Bb"), ("/é", "/%C3%A9"),
         ("/p,q=r", "/p,q=r"), ("/x%3By", "/x%3By")]
DOMAINS = [(None, None), ("example.com", "example.com"), (".example.com", "example.com"),
           ("example.com:80", "example.com"), ("bücher.example", "xn--bcher-kva.example"),
           ("localhost", "localhost")]
MAX_AGES = [(None, None), (0, "0"), (60, "60"), (timedelta(minutes=2, microseconds=7), "120")]
EXPIRES = [(None, None), (T0, T0_TEXT), (int(T0.timestamp()), T0_TEXT), (T0.timestamp() + 0.0, T0_TEXT),
           (T0.replace(tzinfo=None), T0_TEXT),
           (T0.astimezone(timezone(timedelta(hours=2))), T0_TEXT),
           ("Thu, 01 Jan 1970 00:00:00 GMT", "Thu, 01 Jan 1970 00:00:00 GMT")]
SAMESITES = [(None, None), ("strict", "Strict"), ("Lax", "Lax"), ("NONE", "None"), ("sTrIcT", "Strict")]
ATTR_VALUES = ["v", "a;b", "x y", "é", '"; Secure; "', ""]
VAL_TEXT = {}


def expected_attrs(dom, exp, age, secure, httponly, path, ss, part):
    out = []
    if dom is not None:
        out.append("Domain=" + dom)
    if exp is not None:
        out.append("Expires=" + exp)
    if age is not None:
        out.append("Max-Age=" + age)
    if secure or part:
        out.append("Secure")
    if httponly:
        out.append("HttpOnly")
    if path is not None:
        out.append("Path=" + path)
    if ss is not None:
        out.append("SameSite=" + ss)
    if part:
        out.append("Partitioned")
    return out


def attr_cases(tier):
    quick = tier != "thorough"
    paths = range(5) if quick else range(len(PATHS))
    doms = range(5) if quick else range(len(DOMAINS))
    exps = (0, 1, 2, 6) if quick else range(len(EXPIRES))
    sss = range(4) if quick else range(len(SAMESITES))
    vals = ATTR_VALUES[:4] if quick else ATTR_VALUES
    for pi, di, ai, ei, se, ho, si, pa in itertools.product(
            paths, doms, range(len(MAX_AGES)), exps, (False, True), (False, True), sss, (False, True)):
        yield (pi, di, ai, ei, se, ho, si, pa, vals)


def run_attr_case(R, case):
    pi, di, ai, ei, se, ho, si, pa, vals = case
    path, epath = PATHS[pi]
    dom, edom = DOMAINS[di]
    age, eage = MAX_AGES[ai]
    exp, eexp = EXPIRES[ei]
    ss, ess = SAMESITES[si]
    exp_attrs = expected_attrs(edom, eexp, eage, se, ho, epath, ess, pa)
    R.use(f"path:{pi}", f"dom:{di}", f"age:{ai}", f"exp:{ei}", f"ss:{si}", f"sec:{se}", f"ho:{ho}", f"part:{pa}")
    for v in vals:
        R.ev()
        rec = {"kind": "attrs", "value": v, "case": [pi, di, ai, ei, se, ho, si, pa]}
        try:
            h = dump_cookie("k", v, max_age=age, expires=exp, path=path, domain=dom, secure=se, httponly=ho,
                            samesite=ss, partitioned=pa, sync_expires=False)
        except Exception as e:  # noqa: BLE001
            R.violation("attrs:exception:" + type(e).__name__, rec)
            continue
        what = attr_problem(v, h, exp_attrs)
        if exp_attrs:
            R.nontrivial((v, tuple(exp_attrs)))
        R.outcome(("attrs", what, len(exp_attrs)))
        if what:
            rec.update(header=h, expected_attrs=exp_attrs, what=what)
            R.violation("attrs:" + what, rec)


def attr_problem(v, h, exp_attrs):
    if not h.isascii():
        return "non-ascii-header"
    if not h.startswith("k="):
        return "pair-prefix"
    # candidate ends of the value: the longest token run and the quoted string (if any)
    ends = set()
    m1 = re.compile(rf"{OCT}*").match(h, 2)
    ends.add(m1.end())
    m2 = re.compile(rf'"(?:{OCT}| |\\[0-3][0-7][0-7]|\\"|\\\\)*"').match(h, 2)
    if m2:
        ends.add(m2.end())
    tail_expected = "".join("; " + a for a in exp_attrs)
    for e in sorted(ends, reverse=True):
        rest = h[e:]
        if rest == tail_expected:
            # value itself must round trip with the attributes stripped the way a client does (first ';')
            got = sansio_parse_cookie(h[:e]).getlist("k")
            if got != [v]:
                return "value-roundtrip"
            return None
    names = [a.partition("=")[0] for a in h.split("; ")[1:]]
    want = [a.partition("=")[0] for a in exp_attrs]
    if sorted(names) == sorted(want) and names != want:
        return "attribute-order"
    if names == want:
        return "attribute-spelling"
    return "attribute-set"


# ------------------------------------------------------------------ test client jar

_JAR: dict = {}


@Request.application
def _app(req):
    if req.path == "/set":
        r = Response("ok")
        r.set_cookie(_JAR["key"], _JAR["value"], **_JAR["kw"])
        return r
    return Response("|".join(f"{k}\x00{v}" for k, v in req.cookies.items(multi=True)))


JAR_KW = [
    {},
    {"path": "/", "secure": True, "httponly": True, "samesite": "lax"},
    {"max_age": 60, "expires": T0, "domain": "localhost"},
    {"max_age": timedelta(seconds=5), "expires": T0_TEXT, "partitioned": True, "samesite": "NONE"},
]


def jar_case(R, key, v, kwi):
    R.ev()
    kw = dict(JAR_KW[kwi])
    _JAR.update(key=key, value=v, kw=kw)
    rec = {"kind": "jar", "key": key, "value": v, "kw": kwi}
    try:
        c = Client(_app)
        c.get("/set")
        got = c.get("/get").get_data(as_text=True)
        ck = c.get_cookie(key, domain="localhost", path=kw.get("path", "/"))
    except Exception as e:  # noqa: BLE001
        R.violation("jar:exception:" + type(e).__name__, rec)
        return
    want = f"{key}\x00{v}"
    R.outcome(("jar", got == want, kwi))
    if not PLAIN.fullmatch(v):
        R.nontrivial(("jar", v))
    if got != want:
        rec["got"] = got
        R.violation("jar:roundtrip", rec)
        return
    if ck is None:
        R.violation("jar:cookie-not-stored", rec)
        return
    if ck.decoded_value != v or ck.decoded_key != key:
        rec["got"] = (ck.decoded_key, ck.decoded_value)
        R.violation("jar:decoded-value", rec)
        return
    if kwi:
        want_fields = {
            "secure": bool(kw.get("secure") or kw.get("partitioned")),
            "http_only": bool(kw.get("httponly")),
            "same_site": kw["samesite"].title() if "samesite" in kw else None,
            "max_age": (int(kw["max_age"].total_seconds()) if isinstance(kw.get("max_age"), timedelta)
                        else kw.get("max_age")),
            "expires": T0 if "expires" in kw else None,
            "origin_only": "domain" not in kw,
        }
        got_fields = {k: getattr(ck, k) for k in want_fields}
        if got_fields != want_fields:
            rec["got"] = {k: repr(x) for k, x in got_fields.items()}
            rec["want"] = {k: repr(x) for k, x in want_fields.items()}
            R.violation("jar:attributes", rec)


# ------------------------------------------------------------------ units

SWEEP_CHUNK = 0x400


def units(tier):
    top = 0x110000 if tier == "thorough" else 0x10000
    us = [("sweep", lo, min(lo + SWEEP_CHUNK, top)) for lo in range(0, top, SWEEP_CHUNK)
          if not (0xD800 <= lo and lo + SWEEP_CHUNK <= 0xE000)]
    depth = 4 if tier == "thorough" else 3
    for i in range(len(ATOMS)):
        if tier == "thorough":
            for j in range(len(ATOMS)):
                us.append(("strings2", i, j, depth))
        else:
            us.append(("strings", i, depth))
    us.append(("short",))
    us.append(("keys",))
    ac = list(attr_cases(tier))
    n = 400
    for i in range(0, len(ac), n):
        us.append(("attrs", i, i + n))
    jd = 3 if tier == "thorough" else 2
    for i in range(len(ATOMS)):
        us.append(("jar", i, jd))
    # interleave cheap and expensive units
    return us


_ATTR_CACHE: dict = {}


def run_unit(unit, R, tier):
    kind = unit[0]
    if kind == "sweep":
        _, lo, hi = unit
        R.use("plane:%d" % (lo >> 16))
        if lo < 0x100:
            R.use(*("cp:%02x" % cp for cp in range(lo, min(hi, 0x100))))
        for cp in range(lo, hi):
            if 0xD800 <= cp <= 0xDFFF:
                continue
            c = chr(cp)
            check_value(R, "k", c, "sweep", with_tail=False)
            check_value(R, "k", "a" + c + "b", "sweep")
            check_value(R, "k", c + c, "sweep", with_tail=False)
        try:
            ex = dump_cookie("k", "a" + chr(lo if not 0xD800 <= lo <= 0xDFFF else 0xE000) + "b", path=None)
            R.sample({"space": "sweep", "from": lo, "to": hi - 1, "example": ex})
        except Exception:  # noqa: BLE001 - already reported per case
            pass
    elif kind == "strings":
        _, i, depth = unit
        for n in range(1, depth + 1):
            for t in itertools.product(ATOMS, repeat=n - 1):
                v = ATOMS[i] + "".join(t)
                check_value(R, "k", v, "strings")
        R.use("atom:%d" % i)
    elif kind == "strings2":
        _, i, j, depth = unit
        for n in range(2, depth + 1):
            for t in itertools.product(ATOMS, repeat=n - 2):
                v = ATOMS[i] + ATOMS[j] + "".join(t)
                check_value(R, "k", v, "strings")
        R.use("atom:%d" % i)
    elif kind == "short":
        check_value(R, "k", "", "strings")
        for a in ATOMS:
            check_value(R, "k", a, "strings")
        try:
            R.sample({"space": "strings", "value": '";\\', "header": dump_cookie("k", '";\\', path=None)})
        except Exception:  # noqa: BLE001
            pass
    elif kind == "keys":
        vals = [""] + list(gen.strings(ATOMS, 2, 1))
        for key in KEYS:
            R.use("key:" + key)
            for v in vals:
                check_value(R, key, v, "keys")
    elif kind == "attrs":
        _, a, b = unit
        for case in itertools.islice(attr_cases(tier), a, b):
            run_attr_case(R, case)
        try:
            R.sample({"space": "attrs", "header": dump_cookie("k", "a;b", max_age=60, expires=T0, path="/a;b",
                                                                domain=".example.com", samesite="lax")})
        except Exception:  # noqa: BLE001 - already reported per case
            pass
    elif kind == "jar":
        _, i, depth = unit
        for n in range(1, depth + 1):
            for t in itertools.product(ATOMS, repeat=n - 1):
                jar_case(R, "k", ATOMS[i] + "".join(t), 0)
        for kwi in range(1, len(JAR_KW)):
            for key in ("k", "a-b"):
                jar_case(R, key, ATOMS[i] + ";x", kwi)
        R.use("jar:%d" % i)


def finalize(R, tier):
    need = {"branch:quoted", "branch:plain", "plane:0"}
    need |= {"cp:%02x" % c for c in range(256)}
    need |= {"atom:%d" % i for i in range(len(ATOMS))} | {"jar:%d" % i for i in range(len(ATOMS))}
    need |= {"key:" + k for k in KEYS}
    need |= {"sec:True", "sec:False", "ho:True", "ho:False", "part:True", "part:False"}
    if tier == "thorough":
        need |= {"plane:%d" % p for p in range(17)}
        need |= {f"path:{i}" for i in range(len(PATHS))} | {f"dom:{i}" for i in range(len(DOMAINS))}
        need |= {f"exp:{i}" for i in range(len(EXPIRES))} | {f"ss:{i}" for i in range(len(SAMESITES))}
    need |= {f"age:{i}" for i in range(len(MAX_AGES))}
    missing = need - R.used
    if missing:
        raise core.Broken(f"vacuity: never exercised {sorted(missing)[:12]}")
    # oracle self-test: the syntax oracle must reject what the property forbids
    for bad in ('k=a;b', 'k="a"b"', 'k=a b', 'k="\x1a"', 'k="a\\8"', 'k=a,b', 'k="\x7f"', 'k=\xe9'):
        if VAL.fullmatch(bad[2:]):
            raise core.Broken(f"oracle self-test: value syntax accepts {bad!r}")
    for good in ('k=', 'k=abc', 'k="a b"', 'k="\\073\\"\\\\"', 'k=a=b'):
        if not VAL.fullmatch(good[2:]):
            raise core.Broken(f"oracle self-test: value syntax rejects {good!r}")
    return {
        "bound": ("U+0000-U+FFFF x3 contexts, strings <=3 atoms, jar <=2 atoms" if tier == "quick" else
                  "U+0000-U+10FFFF x3 contexts, strings <=4 atoms, jar <=3 atoms"),
        "exhaustive": True,
        "explanation": "every scalar value of the range individually in three contexts; every string over the "
                       "critical alphabet up to the bound; full attribute product; client jar",
    }


# ------------------------------------------------------------------ replay / findings

def replay(rec):
    k = rec.get("kind")
    if k == "value":
        key, v = rec["key"], rec["value"]
        try:
            h = dump_cookie(key, v, path=None)
        except Exception as e:  # noqa: BLE001
            return True, f"dump_cookie({key!r}, {v!r}) raised {e!r}"
        bad = value_problems(key, v, h)
        if not bad:
            h2 = dump_cookie(key, v, **TAIL_KW)
            if h2 != h + TAIL:
                bad.append(("attributes-after-value", h2))
        text = (f"dump_cookie({key!r}, {v!r}, path=None) -> {h!r}\nproblems: {bad}\n"
                f"expected: value part matches RFC 6265 cookie-octets / quoted escapes, round trip == {v!r}")
        return bool(bad), text
    if k == "attrs":
        pi, di, ai, ei, se, ho, si, pa = rec["case"]
        v = rec["value"]
        exp_attrs = expected_attrs(DOMAINS[di][1], EXPIRES[ei][1], MAX_AGES[ai][1], se, ho, PATHS[pi][1],
                                   SAMESITES[si][1], pa)
        try:
            h = dump_cookie("k", v, max_age=MAX_AGES[ai][0], expires=EXPIRES[ei][0], path=PATHS[pi][0],
                            domain=DOMAINS[di][0], secure=se, httponly=ho, samesite=SAMESITES[si][0],
                            partitioned=pa, sync_expires=False)
        except Exception as e:  # noqa: BLE001
            return True, f"dump_cookie raised {e!r}"
        what = attr_problem(v, h, exp_attrs)
        return bool(what), f"header   = {h!r}\nexpected attributes = {exp_attrs}\nproblem  = {what}"
    if k == "jar":
        R = core.Recorder()
        jar_case(R, rec["key"], rec["value"], rec["kw"])
        return bool(R.viol), f"set_cookie({rec['key']!r}, {rec['value']!r}, **{JAR_KW[rec['kw']]}) via Client: {dict(R.viol)}"
    return True, rec.get("traceback", "unit exception")


_RAW_1A_1F = re.compile("[\x1a-\x1f]")


def _is_raw_1a_1f(rec):
    """value-syntax failure whose only cause is a raw 0x1A-0x1F byte in the emitted value."""
    if rec.get("kind") != "value" or rec.get("what") != "value-syntax":
        return False
    h = rec["header"]
    if not _RAW_1A_1F.search(h) or not _RAW_1A_1F.search(rec["value"]):
        return False
    repaired = _RAW_1A_1F.sub(lambda m: "\\%03o" % ord(m.group()), h)
    return bool(VAL.fullmatch(repaired[len(rec["key"]) + 1:]))


FINDINGS = {"C13-ctl-1a-1f-raw": _is_raw_1a_1f}

LEVEL_TEXT = (
    "Bounded exhaustive exploration of dump_cookie / parse_cookie: every Unicode scalar value individually in three "
    "fixed contexts, every string over a 19-atom critical alphabet up to 3 (4) atoms, token keys, the complete "
    "attribute product against a literal table, and the test client's jar. The escaping table is indexed by byte "
    "value, so a per-code-point sweep is the deciding step the example-based tests lack."
)
LEVEL_NOTE = (
    "Trusted: the RFC 6265 cookie-octet regular expression and the hand-computed canonical attribute strings in the "
    "check. 'All of Unicode' is covered per code point in fixed contexts plus short strings; values longer than 4 "
    "atoms or combining two unrelated rare code points are not explored."
)
TECHNIQUE = "small-scope exhaustive enumeration (per-code-point sweep + short strings + attribute product)"
DESIGN_REF = "DESIGN.md §4 C13"
