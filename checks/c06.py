"""C06 - every HTTP header serialiser is inverted by its parser, and parsing is a normal form.

E1: for every value v of a small-scope grammar per header family,  parse(dump(v)) == v  and
parse(dump(parse(dump(v)))) == parse(dump(v)).  Families: quoted strings, comma lists, key=value
dicts, option headers, header sets, ETag collections, Range, Content-Range, If-Range, Cache-Control,
Content-Security-Policy, HTTP dates, Age, Authorization, WWW-Authenticate.  Additionally every code
point of the BMP (and a few astral ones) individually in fixed contexts, and the normal-form law on
*raw* header text (parse any short header h; if the parsed value is inside the documented domain it
must survive dump + parse).
"""
from __future__ import annotations

import datetime as dtm
import email.utils
import itertools
import re

from mc import core, gen

ID = "C06"
LEVEL = "exploration"
TECHNIQUE = "small-scope exhaustive enumeration of header values, dump -> parse round trip and normal form"
DESIGN_REF = "DESIGN.md §4 C06"
RULE = (
    "values = all strings of <= 3 atoms over {a B SP \" \\ , ; = * ' % e-acute TAB %22 W/} and every BMP code point "
    "(minus CR/LF/surrogates) in 3 contexts, through quote/list/dict/options/set; lists of <= 3 and dicts of <= 2 "
    "values with token keys; all strong/weak subsets of 8 etags; every list of <= 3 closed ranges over 0..5 with "
    "every open/suffix tail, 2 units; every valid content range <= 6; If-Range etags and dates; every single and "
    "pair of typed cache-control directives for both classes; CSP maps <= 2; a date grid (6 years x 12 months x "
    "5 days x 3 times x 9 zones, plus every 15-minute offset); ages; Basic credentials <= 2 atoms each side; token "
    "and parameter schemes; raw header strings <= 3 atoms for the normal-form law. "
    "non-trivial = distinct (family, value) whose serialisation differs from the plain value text (quoting, "
    "escaping, encoding, several members, zone conversion)."
)
ASSUMPTIONS = [
    "strings are over a 15-atom alphabet up to 3 atoms, other code points only one at a time in fixed contexts",
    "option-header keys are lower-case tokens without '*' (parse_options_header documents lower-casing), values do "
    "not contain the literal %22; option headers have a non-empty primary value",
    "multi-ranges that are not ascending / overlap / continue after an open or suffix range may be refused by the "
    "parser (None) - only 'returns a different value' is a violation there",
    "auth tokens are token68, parameter dicts have at least one str value; scheme names are lower-case",
    "an If-Range etag whose quoted form the stdlib itself parses as a date is ambiguous: either outcome accepted",
    "datetimes whose UTC instant leaves years 1..9999 are excluded; CSP values are non-empty without ';'",
]
LEVEL_TEXT = (
    "Exhaustive small-scope enumeration of the value space of each header family; the two laws (round trip and "
    "normal form) are evaluated on every generated value against the real dump_* / to_header and parse_* / "
    "from_header functions. No defect is known at this commit; the check is a regression detector for either half "
    "of each serialiser/parser pair."
)
LEVEL_NOTE = (
    "Values outside the alphabets (two unrelated rare code points together, strings > 3 atoms, structures > 3 "
    "members) are not covered; '*' keys and %22 in option values are excluded by the property."
)

from werkzeug import http  # noqa: E402
from werkzeug.datastructures import (  # noqa: E402
    Authorization, ContentRange, ContentSecurityPolicy, ETags, HeaderSet, IfRange, Range, RequestCacheControl,
    ResponseCacheControl, WWWAuthenticate,
)

A = ["a", "B", " ", '"', "\\", ",", ";", "=", "*", "'", "%", "\xe9", "\t", "%22", "W/"]
KEYS = ["k", "Key2", "a-b", "a.b", "k'"]
OPT_KEYS = ["k", "key2", "a-b", "a.b", "k'"]
OPT_HEADS = ["x/y", "form-data"]

_S3 = None
_S2 = None
_S1 = None


def S(n):
    global _S3, _S2, _S1
    if n == 3:
        if _S3 is None:
            _S3 = list(gen.strings(A, 3))
        return _S3
    if n == 2:
        if _S2 is None:
            _S2 = list(gen.strings(A, 2))
        return _S2
    if _S1 is None:
        _S1 = list(gen.strings(A, 1))
    return _S1


# ------------------------------------------------------------------ generic law application

def _opt_ok(v):
    return "%22" not in v


def _hs_norm(items):
    """HeaderSet semantic content: order kept, case-insensitive de-duplication keeps the first spelling."""
    seen = set()
    out = []
    for x in items:
        if x.lower() not in seen:
            seen.add(x.lower())
            out.append(x)
    return out


def _etags_view(e):
    allt = e.as_set(include_weak=True)
    return (frozenset(e.as_set()), frozenset(x for x in allt if e.is_weak(x)), bool(e.star_tag), frozenset(allt))


def _cc_view(c):
    cls = type(c)
    props = [n for n in dir(cls) if isinstance(getattr(cls, n, None), property)]
    return (tuple(sorted(dict(c).items(), key=repr)), tuple((n, getattr(c, n)) for n in props))


def _auth_view(a):
    if a is None:
        return None
    return (a.type, a.token, tuple(sorted(dict(a.parameters).items(), key=repr)))


def _aware(x):
    return x if x.tzinfo is not None else x.replace(tzinfo=dtm.timezone.utc)


# Each codec: name -> (build(value) -> object, dump(object) -> str, parse(str) -> object, view(object) -> comparable)
def _id(x):
    return x


CC = {"Request": RequestCacheControl, "Response": ResponseCacheControl}
ETAG_T = ["a", "b c", "\xe9", ",", "W/x", "a,b", " a", "\\"]


def _mk_range(v):
    units, ranges = v
    return Range(units, [tuple(r) for r in ranges])


def _mk_crange(v):
    units, start, stop, length = v
    return ContentRange(units, start, stop, length)


def _mk_cc(v):
    kind, items = v
    d = {}
    for prop, val in items:
        key = prop.replace("_", "-")
        d[key] = None if val is True else str(val)
    return CC[kind](d)


def _cc_props(cls):
    out = {}
    for n in sorted(dir(cls)):
        p = getattr(cls, n, None)
        if isinstance(p, property):
            cl = dict(zip(p.fget.__code__.co_freevars, (c.cell_contents for c in p.fget.__closure__)))
            out[n] = cl
    return out


def _cc_expect(v):
    """What every typed property must read after the round trip, stated from the directive set alone."""
    kind, items = v
    given = dict(items)
    d = tuple(sorted(((p.replace("_", "-"), None if val is True else str(val)) for p, val in items), key=repr))
    props = []
    for n, cl in _cc_props(CC[kind]).items():
        if n in given:
            props.append((n, given[n]))
        else:
            props.append((n, False if cl["type"] is bool else None))
    return (d, tuple(props))


def _mk_auth(v):
    cls, typ, params, token = v
    c = Authorization if cls == "A" else WWWAuthenticate
    return c(typ, dict(params) if params is not None else None, token)


def _mk_ifrange(v):
    kind, x = v
    return IfRange(etag=x) if kind == "etag" else IfRange(date=_dt(x))


def _dt(t):
    """(y, mo, d, h, mi, s, offset_seconds|None) -> datetime"""
    y, mo, d, h, mi, s, off = t
    tz = None if off is None else dtm.timezone(dtm.timedelta(seconds=off))
    return dtm.datetime(y, mo, d, h, mi, s, tzinfo=tz)


CODECS = {
    "quote": (_id, http.quote_header_value, http.unquote_header_value, _id),
    "quote-forced": (_id, lambda v: http.quote_header_value(v, allow_token=False), http.unquote_header_value, _id),
    "list": (list, http.dump_header, http.parse_list_header, list),
    "dict": (dict, http.dump_header, http.parse_dict_header, lambda d: tuple(d.items())),
    "options": (lambda v: (v[0], dict(v[1])), lambda v: http.dump_options_header(v[0], v[1]),
                http.parse_options_header, lambda v: (v[0], tuple(v[1].items()))),
    "set": (lambda v: HeaderSet(list(v)), lambda hs: hs.to_header(), http.parse_set_header, lambda hs: _hs_norm(list(hs))),
    "set-dump_header": (lambda v: list(v), http.dump_header, http.parse_set_header, lambda hs: _hs_norm(list(hs))),
    "etags": (lambda v: ETags(v[0], v[1], v[2]), lambda e: e.to_header(), http.parse_etags,
              _etags_view),
    "range": (_mk_range, lambda r: r.to_header(), http.parse_range_header,
              lambda r: None if r is None else (r.units, [tuple(x) for x in r.ranges])),
    "content-range": (_mk_crange, lambda c: c.to_header(), http.parse_content_range_header,
                      lambda c: None if c is None else (c.units, c.start, c.stop, c.length)),
    "if-range": (_mk_ifrange, lambda i: i.to_header(), http.parse_if_range_header,
                 lambda i: (i.etag, None if i.date is None else _aware(i.date))),
    "cache-control[Request]": (_mk_cc, lambda c: c.to_header(),
                               lambda h: http.parse_cache_control_header(h, None, RequestCacheControl), _cc_view),
    "cache-control[Response]": (_mk_cc, lambda c: c.to_header(),
                                lambda h: http.parse_cache_control_header(h, None, ResponseCacheControl), _cc_view),
    "csp": (lambda v: ContentSecurityPolicy(list(v)), lambda c: c.to_header(), http.parse_csp_header,
            lambda c: (tuple(c.items()), c.default_src, c.script_src, c.img_src, c.sandbox)),
    "date": (_dt, http.http_date, http.parse_date, lambda x: None if x is None else _aware(x)),
    "timestamp": (_id, http.http_date, http.parse_date,
                  lambda x: _aware(x) if isinstance(x, dtm.datetime) else
                  (None if x is None else dtm.datetime.fromtimestamp(x, dtm.timezone.utc))),
    "age": (lambda v: dtm.timedelta(seconds=v[1]) if v[0] == "td" else v[1], http.dump_age, http.parse_age,
            lambda x: x if isinstance(x, dtm.timedelta) or x is None else dtm.timedelta(seconds=x)),
    "authorization": (_mk_auth, lambda a: a.to_header(), Authorization.from_header, _auth_view),
    "www-authenticate": (_mk_auth, lambda a: a.to_header(), WWWAuthenticate.from_header, _auth_view),
}


def apply_law(fam, v, lenient_none=False, ambiguous=False):
    """Returns (kind, detail) with kind in ok / ok-refused / ok-ambiguous / exception:<where> / roundtrip / normal-form."""
    build, dump, parse, view = CODECS[fam]
    try:
        obj = build(v)
    except core.Broken:
        raise
    except Exception as e:  # noqa: BLE001
        return "exception:build:" + type(e).__name__, {"error": repr(e)}
    try:
        want = EXPECT[fam](v) if fam in EXPECT else view(obj)
    except Exception as e:  # noqa: BLE001
        return "exception:view:" + type(e).__name__, {"error": repr(e)}
    try:
        h1 = dump(obj)
    except Exception as e:  # noqa: BLE001
        return "exception:dump:" + type(e).__name__, {"error": repr(e)}
    try:
        p1 = parse(h1)
    except Exception as e:  # noqa: BLE001
        return "exception:parse:" + type(e).__name__, {"error": repr(e), "header": h1}
    if lenient_none and p1 is None:
        return "ok-refused", {"header": h1}
    try:
        got = view(p1)
    except Exception as e:  # noqa: BLE001
        return "exception:view:" + type(e).__name__, {"error": repr(e), "header": h1}
    if got != want:
        if ambiguous:
            return "ok-ambiguous", {"header": h1}
        return "roundtrip", {"header": h1, "want": want, "got": got}
    # normal form: parsing the re-serialisation of the parsed value changes nothing
    try:
        h2 = dump(p1)
        p2 = parse(h2)
        got2 = view(p2)
    except Exception as e:  # noqa: BLE001
        return "exception:redump:" + type(e).__name__, {"error": repr(e), "header": h1}
    if got2 != got:
        return "normal-form", {"header": h1, "header2": h2, "want": got, "got": got2}
    return "ok", {"header": h1}


def check(R, fam, v, **kw):
    R.ev()
    kind, d = apply_law(fam, v, **kw)
    R.outcome((fam, kind))
    R.use("family:" + fam, "kind:" + kind.split(":")[0])
    if kind.startswith("ok"):
        h = d.get("header")
        if h is not None and h != v and not h.isalnum():
            R.nontrivial((fam, repr(v)))
        if isinstance(h, str) and h[:1] == '"' and fam in ("quote", "list", "dict", "options"):
            R.use("quoted")
            if "\\" in h:
                R.use("escaped")
        return True
    R.violation(f"{fam}:{kind}", {"kind": "law", "family": fam, "value": v, "failure": kind, "detail": d,
                                  "lenient_none": bool(kw.get("lenient_none")), "ambiguous": bool(kw.get("ambiguous"))})
    return False


# ------------------------------------------------------------------ spaces

def cc_domain(kind):
    """(property, value) for every typed property of the class and every kind of value it documents; the
    (key, empty, type) triple is read from the closure of the property factory (cache_control_property)."""
    cls = CC[kind]
    out = []
    for n in sorted(dir(cls)):
        p = getattr(cls, n, None)
        if not isinstance(p, property):
            continue
        cl = dict(zip(p.fget.__code__.co_freevars, (c.cell_contents for c in p.fget.__closure__)))
        if set(cl) != {"key", "empty", "type"}:
            raise core.Broken(f"cache_control_property closure changed: {sorted(cl)}")
        if cl["key"] != n.replace("_", "-"):
            raise core.Broken(f"cache-control property {n} maps to unexpected key {cl['key']!r}")
        typ, empty = cl["type"], cl["empty"]
        if typ is bool:
            out.append((n, True))
            continue
        if typ is int:
            vals = [0, 1, 3600, 2 ** 31]
        else:
            vals = ["f", "a, b", 'q"x', ""]
        if empty is True:
            vals.append(True)
        for x in vals:
            out.append((n, x))
    return out


def closed_ranges(n=5):
    return [(s, e) for s in range(0, n) for e in range(s + 1, n + 1)]


def range_lists():
    cl = closed_ranges()
    tails = [None] + [(s, None) for s in range(0, 6)] + [(-k, None) for k in (1, 2, 3)]
    for k in range(0, 4):
        for seq in itertools.product(cl, repeat=k):
            for t in tails:
                if k == 0 and t is None:
                    continue
                yield list(seq) + ([t] if t is not None else [])


def ascending(ranges):
    """The parser's documented acceptance: ascending, non-overlapping, nothing after an open / suffix range."""
    last_end = 0
    for i, (s, e) in enumerate(ranges):
        if last_end < 0:
            return False
        if e is None:
            if s >= 0 and s < last_end:
                return False
            last_end = -1
        else:
            if s < last_end:
                return False
            last_end = e
    return True


def content_ranges(n=6):
    for units in ("bytes", "items"):
        for st in range(0, n):
            for sp in range(st + 1, n + 1):
                for ln in [None] + list(range(0, n + 2)):
                    if http.is_byte_range_valid(st, sp, ln):
                        yield (units, st, sp, ln)
        for ln in (None, 0, 1, 5):
            yield (units, None, None, ln)


YEARS = (1000, 1969, 1970, 2000, 2024, 9999)
DAYS = (1, 28, 29, 30, 31)
TIMES = ((0, 0, 0), (12, 34, 56), (23, 59, 59))
ZONES = (None, 0, 19800, -28800, 50400, -43200, 3601, -1, 86399)


def date_grid():
    for y in YEARS:
        for mo in range(1, 13):
            for d in DAYS:
                for (h, mi, s) in TIMES:
                    for off in ZONES:
                        yield (y, mo, d, h, mi, s, off)
    for off in range(-12 * 3600, 14 * 3600 + 1, 900):
        for base in ((2024, 2, 29, 23, 59, 59), (1970, 1, 1, 0, 0, 0), (2000, 12, 31, 12, 0, 0)):
            yield base + (off,)


def date_valid(t):
    try:
        x = _dt(t)
    except ValueError:
        return False
    try:
        _aware(x).astimezone(dtm.timezone.utc)
    except (OverflowError, ValueError):
        return False
    return True


def stdlib_reads_as_date(header):
    try:
        email.utils.parsedate_to_datetime(header)
        return True
    except (TypeError, ValueError):
        return False


BASIC_A = ["a", "\xe9", " ", ":", "%", "=", "€"]
TOKENS68 = ["abc", "abc=", "abc==", "a+/b", "a.b-c_d~", "QTpi"]
PARAM_V = ["v", "a b", "", 'q"x', "n,1", "a=b", "=", "\xe9", "\\", "a;b", "*", "%22", "x=="]
PARAM_K = ["realm", "nonce", "qop", "k", "x-y"]
SCHEMES = ["digest", "bearer", "custom", "basic"]
CSP_D = ["default-src", "script-src", "img-src", "sandbox"]
CSP_V = ["'self'", "a b", "*", "https://x.y 'unsafe-inline'", "allow-forms"]

RAW_A = ["a", "B", " ", '"', "\\", ",", ";", "=", "k=", "W/", "*", "\xe9", "%22", '"a"']


def units(tier):
    T = tier == "thorough"
    us = []
    n3 = len(S(3))
    step = 200
    for i in range(0, n3, step):
        us.append(("str", i, min(n3, i + step)))
    for lo in range(0, 0x10000, 0x800):
        us.append(("codepoints", lo, lo + 0x800))
    us.append(("codepoints-astral",))
    n2 = len(S(2))
    for i in range(0, n2, 8):
        us.append(("pairs", i, min(n2, i + 8)))
    us.append(("triples",))
    for i in range(len(KEYS)):
        us.append(("dicts", i))
    for i in range(0, 1 << len(ETAG_T), 16):
        us.append(("etags", i, i + 16))
    for i in range(4):
        us.append(("ranges", i))
    us.append(("content-ranges",))
    us.append(("if-range",))
    us.append(("cache-control", "Request"))
    us.append(("cache-control", "Response"))
    us.append(("csp",))
    for y in YEARS:
        us.append(("dates", y))
    us.append(("dates-offsets",))
    us.append(("ages",))
    for i in range(len(BASIC_A) + 1):
        us.append(("basic", i))
    us.append(("inject",))
    us.append(("auth-token",))
    for i in range(len(PARAM_V)):
        us.append(("auth-params", i))
    for i in range(len(RAW_A)):
        us.append(("raw", i, 4 if T else 3))
    if T:
        for i in range(len(A)):
            us.append(("str4", i))
    return us


# ------------------------------------------------------------------ units

def strings_battery(R, v):
    check(R, "quote", v)
    check(R, "quote-forced", v)
    check(R, "list", [v])
    check(R, "dict", {"k": v})
    check(R, "set", [v])
    check(R, "set-dump_header", [v])
    if _opt_ok(v):
        check(R, "options", ("x/y", {"k": v}))
    check(R, "authorization", ("A", "custom", {"k": v}, None))
    check(R, "www-authenticate", ("W", "digest", {"realm": v}, None))
    check(R, "www-authenticate", ("W", "custom", {"k": v}, None))


def run_unit(unit, R, tier):
    kind = unit[0]
    if kind == "str":
        for v in S(3)[unit[1]:unit[2]]:
            strings_battery(R, v)
        R.sample({"family": "strings", "value": S(3)[unit[1]]})
        return
    if kind == "str4":
        a0 = A[unit[1]]
        for t in itertools.product(A, repeat=3):
            v = a0 + "".join(t)
            check(R, "quote", v)
            check(R, "list", [v])
            check(R, "dict", {"k": v})
            if _opt_ok(v):
                check(R, "options", ("x/y", {"k": v}))
        return
    if kind == "inject":
        # values that look like the syntax of the header they are embedded in: a separator followed by
        # something shaped like another item / parameter (a quoted value must hide all of it)
        n = 0
        for a in ("", "a", 'a"', "a\\", "é"):
            for sep in (";", "; ", ",", ", ", " ", '";', '", '):
                for b in ("b=c", 'b="c"', "b", "k=v", "key2=evil", "filename=evil.txt", "q=0", "b=c;d=e"):
                    v = a + sep + b
                    strings_battery(R, v)
                    check(R, "list", ["x", v, "y"])
                    check(R, "dict", {"k": v, "key2": "w"})
                    check(R, "dict", {"key2": "w", "k": v})
                    if _opt_ok(v):
                        check(R, "options", ("form-data", {"k": v, "key2": "w"}))
                        check(R, "options", ("form-data", {"key2": "w", "k": v}))
                        check(R, "options", ("form-data", {"name": v, "filename": "real.txt"}))
                    n += 1
        R.use("inject")
        R.sample({"family": "inject", "value": 'a"; key2=evil', "count": n})
        return
    if kind == "codepoints":
        for cp in range(unit[1], unit[2]):
            if cp in (10, 13) or 0xD800 <= cp <= 0xDFFF:
                continue
            c = chr(cp)
            for v in (c, "a" + c + "b", c + '"'):
                check(R, "quote", v)
                check(R, "list", [v])
                check(R, "dict", {"k": v})
                check(R, "options", ("x/y", {"k": v}))
                check(R, "set", [v])
            check(R, "list", ["x", c, "y"])
            if c != ":":
                check(R, "authorization", ("A", "basic", {"username": c, "password": c + ":"}, None))
            if c != '"':
                check(R, "etags", ((c,), ("w" + c,), False))
        R.use("codepoints")
        return
    if kind == "codepoints-astral":
        for cp in (0x10000, 0x1F600, 0x2FFFF, 0xE0001, 0x10FFFF):
            c = chr(cp)
            for v in (c, "a" + c + "b", c + '"'):
                strings_battery(R, v)
            check(R, "authorization", ("A", "basic", {"username": c, "password": c}, None))
        return
    if kind == "pairs":
        s2 = S(2)
        for v in s2[unit[1]:unit[2]]:
            for w in s2:
                check(R, "list", [v, w])
                check(R, "set-dump_header", [v, w])
                check(R, "dict", {"k": v, "Key2": w})
                if _opt_ok(v) and _opt_ok(w):
                    check(R, "options", ("form-data", {"k": v, "key2": w}))
        return
    if kind == "triples":
        s1 = S(1)
        for t in itertools.product(s1, repeat=3):
            check(R, "list", list(t))
            check(R, "set", list(t))
        R.sample({"family": "list", "value": list(s1[3:6])})
        return
    if kind == "dicts":
        k = KEYS[unit[1]]
        ok = OPT_KEYS[unit[1]]
        for v in S(2):
            check(R, "dict", {k: v})
            check(R, "dict", {k: None, "z": v})
            check(R, "dict", {"z": v, k: None})
            if _opt_ok(v):
                for head in OPT_HEADS:
                    check(R, "options", (head, {ok: v}))
        check(R, "dict", {k: None})
        check(R, "dict", {})
        check(R, "list", [])
        return
    if kind == "etags":
        n = len(ETAG_T)
        for sm in range(unit[1], unit[2]):
            strong = tuple(ETAG_T[i] for i in range(n) if sm >> i & 1)
            for wm in range(1 << n):
                weak = tuple(ETAG_T[i] for i in range(n) if wm >> i & 1)
                v = (strong, weak, False)
                check(R, "etags", v)
        if unit[1] == 0:
            check(R, "etags", ((), (), True))
            R.sample({"family": "etags", "strong": ETAG_T[:2], "weak": ETAG_T[2:4]})
        return
    if kind == "ranges":
        for i, rl in enumerate(range_lists()):
            if i % 4 != unit[1]:
                continue
            asc = ascending(rl)
            R.use("range-ascending" if asc else "range-unordered")
            for units_ in ("bytes", "items"):
                check(R, "range", (units_, rl), lenient_none=not asc)
        if unit[1] == 0:
            R.sample({"family": "range", "value": [(0, 2), (2, 5), (-3, None)]})
        return
    if kind == "content-ranges":
        for v in content_ranges():
            check(R, "content-range", v)
        return
    if kind == "if-range":
        for e in ETAG_T + ["", "Mon, 01 Jan 2024 00:00:00 GMT", "1 Jan 2024", "2024", "0", "a" * 40]:
            amb = stdlib_reads_as_date(http.quote_etag(e))
            R.use("ifrange-ambiguous" if amb else "ifrange-etag")
            check(R, "if-range", ("etag", e), ambiguous=amb)
        for t in date_grid():
            if t[0] in (1970, 2024) and t[1] in (1, 2, 12) and date_valid(t):
                check(R, "if-range", ("date", t))
        return
    if kind == "cache-control":
        which = unit[1]
        fam = f"cache-control[{which}]"
        dom = cc_domain(which)
        if len({p for p, _ in dom}) < 8:
            raise core.Broken(f"cache-control[{which}]: only {len(dom)} typed properties discovered")
        for pv in dom:
            check(R, fam, (which, (pv,)))
        for a, b in itertools.permutations(dom, 2):
            if a[0] != b[0]:
                check(R, fam, (which, (a, b)))
        check(R, fam, (which, ()))
        R.count("cc_properties_" + which, len({p for p, _ in dom}))
        return
    if kind == "csp":
        items1 = [(d, v) for d in CSP_D for v in CSP_V]
        for it in items1:
            check(R, "csp", (it,))
        for a, b in itertools.permutations(items1, 2):
            if a[0] != b[0]:
                check(R, "csp", (a, b))
        check(R, "csp", ())
        return
    if kind == "dates":
        for t in date_grid():
            if t[0] == unit[1] and len(t) == 7 and date_valid(t):
                R.use("tz-naive" if t[6] is None else "tz-aware")
                check(R, "date", t)
        return
    if kind == "dates-offsets":
        for ts in (0, 1, 86400, 2 ** 31, 951782400, 253402300799):
            check(R, "timestamp", ts)
        return
    if kind == "ages":
        for n in (0, 1, 59, 60, 86400, 2 ** 31, 10 ** 9):
            check(R, "age", ("int", n))
            check(R, "age", ("td", n))
        return
    if kind == "basic":
        users = [u for u in gen.strings(BASIC_A, 2) if ":" not in u]
        i = unit[1]
        pws = list(gen.strings(BASIC_A, 2))
        for u in users:
            if (0 if not u else BASIC_A.index(u[0]) + 1) != i:
                continue
            for pw in pws:
                check(R, "authorization", ("A", "basic", {"username": u, "password": pw}, None))
        return
    if kind == "auth-token":
        for typ in SCHEMES[1:3] + ["negotiate"]:
            for tok in TOKENS68:
                check(R, "authorization", ("A", typ, None, tok))
                check(R, "www-authenticate", ("W", typ, None, tok))
        return
    if kind == "auth-params":
        v1 = PARAM_V[unit[1]]
        for typ in SCHEMES:
            for k1 in PARAM_K:
                for cls in ("A", "W"):
                    fam = "authorization" if cls == "A" else "www-authenticate"
                    if cls == "A" and typ == "basic":
                        continue
                    check(R, fam, (cls, typ, {k1: v1}, None))
                    for k2 in PARAM_K:
                        if k2 == k1:
                            continue
                        for v2 in PARAM_V + [None]:
                            if v2 is None and cls == "W" and typ == "digest":
                                # WWWAuthenticate.to_header quotes Digest values itself and has no bare-key form;
                                # parameter values are documented as str (setting None deletes the key)
                                continue
                            check(R, fam, (cls, typ, {k1: v1, k2: v2}, None))
                            check(R, fam, (cls, typ, {k2: v2, k1: v1}, None))
        return
    if kind == "raw":
        _k, first, depth = unit
        raw_normal_form(R, first, depth)
        return
    raise core.Broken(f"unknown unit {unit!r}")


def _etags_expect(v):
    strong, weak, star = v
    s = frozenset() if star else frozenset(strong)
    w = frozenset() if star else frozenset(weak)
    return (s, w, bool(star), s | w)


# expectations stated independently of the object under test (default: view(build(v)))
EXPECT = {
    "cache-control[Request]": _cc_expect,
    "cache-control[Response]": _cc_expect,
    "etags": _etags_expect,
    "set": lambda v: _hs_norm(list(v)),
    "set-dump_header": lambda v: _hs_norm(list(v)),
    "list": lambda v: list(v),
    "quote": lambda v: v,
    "quote-forced": lambda v: v,
    "dict": lambda v: tuple(v.items()),
    "options": lambda v: (v[0], tuple(v[1].items())),
    "timestamp": lambda v: dtm.datetime.fromtimestamp(int(v), dtm.timezone.utc),
    "age": lambda v: dtm.timedelta(seconds=v[1]),
    "range": lambda v: (v[0], [tuple(r) for r in v[1]]),
    "content-range": lambda v: tuple(v),
}


# ------------------------------------------------------------------ normal form on raw header text

_TOKEN = re.compile(r"[!#$%&'*+\-.^_`|~0-9A-Za-z]+\Z")


def _in_domain_str(x):
    return isinstance(x, str) and "\r" not in x and "\n" not in x


def raw_normal_form(R, first, depth):
    head = RAW_A[first]
    for k in range(0, depth):
        for t in itertools.product(RAW_A, repeat=k):
            h = head + "".join(t)
            # list
            p = http.parse_list_header(h)
            if all(_in_domain_str(x) for x in p):
                check(R, "list", p)
                R.use("raw-list")
            # dict: keys must be tokens without '*' to be in the documented domain
            d = http.parse_dict_header(h)
            if d and all(_TOKEN.match(k_) and "*" not in k_ for k_ in d) and any(v is not None for v in d.values()):
                check(R, "dict", d)
                R.use("raw-dict")
            # set
            hs = http.parse_set_header(h)
            check(R, "set", list(hs))
            # options
            val, opts = http.parse_options_header("x/y;" + h)
            if opts and all(k_ and "*" not in k_ for k_ in opts) and all(_opt_ok(v) for v in opts.values()):
                check(R, "options", ("x/y", opts))
                R.use("raw-options")
            # etags: parsed tags without a quote inside and non-empty are in the documented domain
            e = http.parse_etags(h)
            allt = e.as_set(include_weak=True)
            if all(x and '"' not in x for x in allt):
                strong = tuple(sorted(e.as_set()))
                weak = tuple(sorted(x for x in allt if e.is_weak(x)))
                check(R, "etags", (strong, weak, bool(e.star_tag)))
                R.use("raw-etags")


# ------------------------------------------------------------------ finalize / replay

def finalize(R, tier):
    need = {"family:" + f for f in CODECS} | {"quoted", "escaped", "codepoints", "range-ascending", "range-unordered",
                                              "ifrange-ambiguous", "ifrange-etag", "tz-naive", "tz-aware", "raw-list",
                                              "raw-dict", "raw-options", "raw-etags", "kind:ok", "kind:ok-refused"}
    missing = need - R.used
    if missing:
        raise core.Broken(f"vacuity: never exercised {sorted(missing)}")
    if len(R.sets.get("nontrivial", ())) < 20000:
        raise core.Broken("vacuity: too few values needed quoting / escaping / conversion")
    return {"bound": "strings <= 3 atoms (4 thorough), lists <= 3, dicts <= 2, ranges <= 3 + tail over 0..5, raw headers <= "
                     + ("4" if tier == "thorough" else "3") + " atoms",
            "exhaustive": True, "families": len(CODECS)}


def replay(rec):
    if rec.get("kind") == "law":
        v = rec["value"]
        fam = rec["family"]
        v = _thaw(fam, v)
        kind, d = apply_law(fam, v, lenient_none=rec.get("lenient_none", False), ambiguous=rec.get("ambiguous", False))
        text = f"family={fam}\nvalue={v!r}\nresult={kind}\n" + "\n".join(f"{k}={val!r}" for k, val in d.items())
        return not kind.startswith("ok"), text
    return True, rec.get("traceback", "unit exception")


def _thaw(fam, v):
    """JSON turns tuples inside lists into lists; rebuild what the codec's builder expects."""
    if fam == "options":
        return (v[0], dict(v[1]))
    if fam == "range":
        return (v[0], [tuple(r) for r in v[1]])
    if fam in ("authorization", "www-authenticate"):
        return (v[0], v[1], None if v[2] is None else dict(v[2]), v[3])
    if fam.startswith("cache-control"):
        return (v[0], tuple(tuple(x) for x in v[1]))
    if fam == "csp":
        return tuple(tuple(x) for x in v)
    if fam in ("date",):
        return tuple(v)
    if fam == "if-range":
        return (v[0], tuple(v[1]) if v[0] == "date" else v[1])
    if fam == "etags":
        return (tuple(v[0]), tuple(v[1]), v[2])
    if fam == "content-range":
        return tuple(v)
    if fam == "dict":
        return dict(v)
    if fam == "age":
        return tuple(v)
    return v


FINDINGS: dict = {}
