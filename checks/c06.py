"""C06 - every HTTP header serialiser is inverted by its parser, and parsing is a normal form.

E1: for every value v of a small-scope grammar per header family,  parse(dump(v)) == v  and
parse(dump(parse(dump(v)))) == parse(dump(v)).  Families: quoted strings, comma lists, key=value
dicts, option headers, header sets, ETag collections, Range, Content-Range, If-Range, Cache-Control,
Content-Security-Policy, HTTP dates, Age, Authorization, WWW-Authenticate.  Additionally every code
point of the BMP (and a few astral ones) individually in fixed contexts, and the normal-form law on
*raw* header text (parse any short header h; if the parsed value is inside the documented domain it
must survive dump + parse).
"""
from __future__ import annotations

import datetime as dtm
import email.utils
import itertools
import re

from mc import core, gen

ID = "C06"
LEVEL = "exploration"
TECHNIQUE = "small-scope exhaustive enumeration of header values, dump -> parse round trip and normal form"
DESIGN_REF = "DESIGN.md §4 C06"
RULE = (
    "values = all strings of <= 5 atoms over {a B SP \" \\ , ; = * ' % e-acute TAB %22 W/}, <= 6 (7 thorough) "
    "over the 8 critical atoms, every BMP code point (minus CR/LF/surrogates) in 3 contexts and injection-shaped "
    "values, through quote / list / dict / options / set; pairs of values 3x2 both ways (thorough 3x3), triples 2x2x1 in every position, dicts with token keys and bare keys; all strong/weak subsets of 8 etags and single "
    "etags <= 3 atoms weak and strong, a second universe of 8 syntax look-alike tags; every list of <= 3 closed ranges over 0..5 with every open/suffix tail, 2 "
    "units; every valid content range <= 6; If-Range etags, dates and the empty value; every single, ordered pair and "
    "ordered triple of typed cache-control directives (5 int values incl. negative, 7 str values) for both classes; "
    "every CSP directive property x 8 values, pairs over all directives and triples; a date grid (6 years x 12 "
    "months x 5 days x 3 times x 9 zones, every 15-minute offset, every day of 5 years, date objects, and tzinfo objects that are not datetime.timezone: hand-written "
    "zero-offset / seasonal zones and zoneinfo zones x 4 years x 12 months x 4 days x 4 times); ages; Basic "
    "credentials <= 2 atoms each side; token and parameter schemes with <= 3 parameters (values <= 2 atoms); "
    "normal-form law on raw text: generic headers <= 4 atoms incl. RFC 2231 charset / continuation forms, and per-"
    "grammar raw headers (Range, Content-Range, dates in 3 formats with zones, Age, If-Range, Authorization / "
    "WWW-Authenticate, Cache-Control, CSP) <= 4-5 atoms of the parser's own tokens (dates 4, thorough 5). non-trivial = distinct "
    "(family, value) whose serialisation differs from the plain value text (kept as a set for the quick-sized layers)."
)
ASSUMPTIONS = [
    "strings are over a 15-atom alphabet up to 3 atoms, other code points only one at a time in fixed contexts",
    "option-header keys are lower-case tokens without '*' (parse_options_header documents lower-casing), values do "
    "not contain the literal %22; option headers have a non-empty primary value",
    "multi-ranges that are not ascending / overlap / continue after an open or suffix range may be refused by the "
    "parser (None) - only 'returns a different value' is a violation there",
    "auth tokens are token68, parameter dicts have at least one str value; scheme names are lower-case",
    "an If-Range etag whose quoted form the stdlib itself parses as a date is ambiguous: either outcome accepted",
    "datetimes whose UTC instant leaves years 1..9999 are excluded; CSP values are non-empty without ';'",
]
LEVEL_TEXT = (
    "Exhaustive small-scope enumeration of the value space of each header family; the two laws (round trip and "
    "normal form) are evaluated on every generated value against the real dump_* / to_header and parse_* / "
    "from_header functions. No defect is known at this commit; the check is a regression detector for either half "
    "of each serialiser/parser pair."
)
LEVEL_NOTE = (
    "Values outside the alphabets (two unrelated rare code points together, strings > 3 atoms, structures > 3 "
    "members) are not covered; '*' keys and %22 in option values are excluded by the property."
)

from werkzeug import http  # noqa: E402
from werkzeug.datastructures import (  # noqa: E402
    Authorization, ContentRange, ContentSecurityPolicy, ETags, HeaderSet, IfRange, Range, RequestCacheControl,
    ResponseCacheControl, WWWAuthenticate,
)

A = ["a", "B", " ", '"', "\\", ",", ";", "=", "*", "'", "%", "\xe9", "\t", "%22", "W/"]
KEYS = ["k", "Key2", "a-b", "a.b", "k'"]
OPT_KEYS = ["k", "key2", "a-b", "a.b", "k'"]
OPT_HEADS = ["x/y", "form-data"]

_S3 = None
_S2 = None
_S1 = None


def S(n):
    global _S3, _S2, _S1
    if n == 3:
        if _S3 is None:
            _S3 = list(gen.strings(A, 3))
        return _S3
    if n == 2:
        if _S2 is None:
            _S2 = list(gen.strings(A, 2))
        return _S2
    if _S1 is None:
        _S1 = list(gen.strings(A, 1))
    return _S1


# ------------------------------------------------------------------ generic law application

def _opt_ok(v):
    return "%22" not in v


def _hs_norm(items):
    """HeaderSet semantic content: order kept, case-insensitive de-duplication keeps the first spelling."""
    seen = set()
    out = []
    for x in items:
        if x.lower() not in seen:
            seen.add(x.lower())
            out.append(x)
    return out


def _etags_view(e):
    allt = e.as_set(include_weak=True)
    return (frozenset(e.as_set()), frozenset(x for x in allt if e.is_weak(x)), bool(e.star_tag), frozenset(allt))


def _cc_view(c):
    cls = type(c)
    props = [n for n in dir(cls) if isinstance(getattr(cls, n, None), property)]
    return (tuple(sorted(dict(c).items(), key=repr)), tuple((n, getattr(c, n)) for n in props))


def _auth_view(a):
    if a is None:
        return None
    return (a.type, a.token, tuple(sorted(dict(a.parameters).items(), key=repr)))


def _aware(x):
    return x if x.tzinfo is not None else x.replace(tzinfo=dtm.timezone.utc)


# Each codec: name -> (build(value) -> object, dump(object) -> str, parse(str) -> object, view(object) -> comparable)
def _id(x):
    return x


CC = {"Request": RequestCacheControl, "Response": ResponseCacheControl}
ETAG_T = ["a", "b c", "\xe9", ",", "W/x", "a,b", " a", "\\"]
ETAG_T2 = ["*", "W/", "w/a", ", ", "**", "*a", "W/*", "a "]      # look like '*', the weak prefix, a separator


def _mk_range(v):
    units, ranges = v
    return Range(units, [tuple(r) for r in ranges])


def _mk_crange(v):
    units, start, stop, length = v
    return ContentRange(units, start, stop, length)


def _mk_cc(v):
    kind, items = v
    d = {}
    for prop, val in items:
        key = prop.replace("_", "-")
        d[key] = None if val is True else str(val)
    return CC[kind](d)


def _cc_props(cls):
    out = {}
    for n in sorted(dir(cls)):
        p = getattr(cls, n, None)
        if isinstance(p, property):
            cl = dict(zip(p.fget.__code__.co_freevars, (c.cell_contents for c in p.fget.__closure__)))
            out[n] = cl
    return out


def _cc_expect(v):
    """What every typed property must read after the round trip, stated from the directive set alone."""
    kind, items = v
    given = dict(items)
    d = tuple(sorted(((p.replace("_", "-"), None if val is True else str(val)) for p, val in items), key=repr))
    props = []
    for n, cl in _cc_props(CC[kind]).items():
        if n in given:
            props.append((n, given[n]))
        else:
            props.append((n, False if cl["type"] is bool else None))
    return (d, tuple(props))


_CSP_NAMES = None


def _csp_prop_names():
    global _CSP_NAMES
    if _CSP_NAMES is None:
        _CSP_NAMES = [n for n in sorted(dir(ContentSecurityPolicy))
                      if isinstance(getattr(ContentSecurityPolicy, n, None), property)]
    return _CSP_NAMES


def _csp_expect(v):
    """every typed property reads the directive its name spells (underscores for dashes), stated from the map alone"""
    d = dict(v)
    return (tuple(v), tuple((n, d.get(n.replace("_", "-"))) for n in _csp_prop_names()))


def _mk_auth(v):
    cls, typ, params, token = v
    c = Authorization if cls == "A" else WWWAuthenticate
    return c(typ, dict(params) if params is not None else None, token)


def _mk_ifrange(v):
    kind, x = v
    if kind == "none":
        return IfRange()
    return IfRange(etag=x) if kind == "etag" else IfRange(date=_dt(x))


class _Utc0(dtm.tzinfo):
    """hand-written UTC: offset zero, but not the datetime.timezone.utc object"""

    def utcoffset(self, dt):
        return dtm.timedelta(0)

    def dst(self, dt):
        return dtm.timedelta(0)

    def tzname(self, dt):
        return "UTC"


class _LondonLike(dtm.tzinfo):
    """hand-written zone: offset zero in winter, +1 h from April to September (local reckoning)"""

    def utcoffset(self, dt):
        return dtm.timedelta(hours=1) if dt is not None and 4 <= dt.month <= 9 else dtm.timedelta(0)

    def dst(self, dt):
        return self.utcoffset(dt)

    def tzname(self, dt):
        return "BST" if self.utcoffset(dt) else "GMT"


class _NamelessZero(dtm.tzinfo):
    """offset zero, no name, dst unknown"""

    def utcoffset(self, dt):
        return dtm.timedelta(0)

    def dst(self, dt):
        return None

    def tzname(self, dt):
        return None


def _zoneinfo(name):
    try:
        import zoneinfo
        return zoneinfo.ZoneInfo(name)
    except Exception:  # noqa: BLE001 - tz database not available
        return None


# tzinfo objects that are not datetime.timezone instances: zero offset without being timezone.utc, seasonal offsets
TZ_TAGS = ["utc0", "london", "nameless0", "tz0", "zi:UTC", "zi:Europe/London", "zi:Africa/Abidjan", "zi:Etc/GMT",
           "zi:America/New_York", "zi:Asia/Kolkata"]


def _tz(tag):
    if tag == "utc0":
        return _Utc0()
    if tag == "london":
        return _LondonLike()
    if tag == "nameless0":
        return _NamelessZero()
    if tag == "tz0":
        return dtm.timezone(dtm.timedelta(0), "Z")      # a timezone equal to, but not identical with, timezone.utc
    return _zoneinfo(tag[3:])


def _dt(t):
    """(y, mo, d, h, mi, s, offset_seconds | None | tz tag) -> datetime"""
    y, mo, d, h, mi, s, off = t
    if isinstance(off, str):
        tz = _tz(off)
        if tz is None:
            raise core.Broken(f"zone {off} not available")
    else:
        tz = None if off is None else dtm.timezone(dtm.timedelta(seconds=off))
    return dtm.datetime(y, mo, d, h, mi, s, tzinfo=tz)


CODECS = {
    "quote": (_id, http.quote_header_value, http.unquote_header_value, _id),
    "quote-forced": (_id, lambda v: http.quote_header_value(v, allow_token=False), http.unquote_header_value, _id),
    "list": (list, http.dump_header, http.parse_list_header, list),
    "dict": (dict, http.dump_header, http.parse_dict_header, lambda d: tuple(d.items())),
    "options": (lambda v: (v[0], dict(v[1])), lambda v: http.dump_options_header(v[0], v[1]),
                http.parse_options_header, lambda v: (v[0], tuple(v[1].items()))),
    "set": (lambda v: HeaderSet(list(v)), lambda hs: hs.to_header(), http.parse_set_header, lambda hs: _hs_norm(list(hs))),
    "set-dump_header": (lambda v: list(v), http.dump_header, http.parse_set_header, lambda hs: _hs_norm(list(hs))),
    "etags": (lambda v: ETags(v[0], v[1], v[2]), lambda e: e.to_header(), http.parse_etags,
              _etags_view),
    "range": (_mk_range, lambda r: r.to_header(), http.parse_range_header,
              lambda r: None if r is None else (r.units, [tuple(x) for x in r.ranges])),
    "content-range": (_mk_crange, lambda c: c.to_header(), http.parse_content_range_header,
                      lambda c: None if c is None else (c.units, c.start, c.stop, c.length)),
    "if-range": (_mk_ifrange, lambda i: i.to_header(), http.parse_if_range_header,
                 lambda i: (i.etag, None if i.date is None else _aware(i.date))),
    "cache-control[Request]": (_mk_cc, lambda c: c.to_header(),
                               lambda h: http.parse_cache_control_header(h, None, RequestCacheControl), _cc_view),
    "cache-control[Response]": (_mk_cc, lambda c: c.to_header(),
                                lambda h: http.parse_cache_control_header(h, None, ResponseCacheControl), _cc_view),
    "csp": (lambda v: ContentSecurityPolicy(list(v)), lambda c: c.to_header(), http.parse_csp_header,
            lambda c: (tuple(c.items()), tuple((n, getattr(c, n)) for n in _csp_prop_names()))),
    "date": (_dt, http.http_date, http.parse_date, lambda x: None if x is None else _aware(x)),
    "timestamp": (_id, http.http_date, http.parse_date,
                  lambda x: _aware(x) if isinstance(x, dtm.datetime) else
                  (None if x is None else dtm.datetime.fromtimestamp(x, dtm.timezone.utc))),
    "age": (lambda v: dtm.timedelta(seconds=v[1]) if v[0] == "td" else v[1], http.dump_age, http.parse_age,
            lambda x: x if isinstance(x, dtm.timedelta) or x is None else dtm.timedelta(seconds=x)),
    "etag-single": (_id, lambda v: http.quote_etag(v[0], v[1]), http.unquote_etag, tuple),
    "date-object": (lambda v: dtm.date(*v), http.http_date, http.parse_date, lambda x: x),
    "authorization": (_mk_auth, lambda a: a.to_header(), Authorization.from_header, _auth_view),
    "www-authenticate": (_mk_auth, lambda a: a.to_header(), WWWAuthenticate.from_header, _auth_view),
}


def apply_law(fam, v, lenient_none=False, ambiguous=False):
    """Returns (kind, detail) with kind in ok / ok-refused / ok-ambiguous / exception:<where> / roundtrip / normal-form."""
    build, dump, parse, view = CODECS[fam]
    try:
        obj = build(v)
    except core.Broken:
        raise
    except Exception as e:  # noqa: BLE001
        return "exception:build:" + type(e).__name__, {"error": repr(e)}
    try:
        want = EXPECT[fam](v) if fam in EXPECT else view(obj)
    except Exception as e:  # noqa: BLE001
        return "exception:view:" + type(e).__name__, {"error": repr(e)}
    try:
        h1 = dump(obj)
    except Exception as e:  # noqa: BLE001
        return "exception:dump:" + type(e).__name__, {"error": repr(e)}
    try:
        p1 = parse(h1)
    except Exception as e:  # noqa: BLE001
        return "exception:parse:" + type(e).__name__, {"error": repr(e), "header": h1}
    if lenient_none and p1 is None:
        return "ok-refused", {"header": h1}
    try:
        got = view(p1)
    except Exception as e:  # noqa: BLE001
        return "exception:view:" + type(e).__name__, {"error": repr(e), "header": h1}
    if got != want:
        if ambiguous:
            return "ok-ambiguous", {"header": h1}
        return "roundtrip", {"header": h1, "want": want, "got": got}
    # normal form: parsing the re-serialisation of the parsed value changes nothing
    try:
        h2 = dump(p1)
        p2 = parse(h2)
        got2 = view(p2)
    except Exception as e:  # noqa: BLE001
        return "exception:redump:" + type(e).__name__, {"error": repr(e), "header": h1}
    if got2 != got:
        return "normal-form", {"header": h1, "header2": h2, "want": got, "got": got2}
    return "ok", {"header": h1}


class U:
    """Per-unit accumulators (flushed into the recorder once per unit: the deep layers make ~10^8 calls)."""
    n = 0
    used: set = set()
    outcomes: set = set()
    track = True          # keep the distinct non-trivial set (quick-sized layers only; memory)
    untracked = 0

    @classmethod
    def reset(cls, track=True):
        cls.n = 0
        cls.used = set()
        cls.outcomes = set()
        cls.track = track
        cls.untracked = 0

    @classmethod
    def flush(cls, R):
        R.ev(cls.n)
        R.use(*cls.used)
        for o in cls.outcomes:
            R.outcome(o)
        if cls.untracked:
            R.count("nontrivial_in_deep_layers_not_kept_as_set", cls.untracked)


def check(R, fam, v, **kw):
    U.n += 1
    kind, d = apply_law(fam, v, **kw)
    U.outcomes.add((fam, kind))
    U.used.add("family:" + fam)
    if kind.startswith("ok"):
        U.used.add("kind:" + kind)
        h = d.get("header")
        if h is not None and h != v and not h.isalnum():
            if U.track:
                R.nontrivial((fam, repr(v)))
            else:
                U.untracked += 1
        if isinstance(h, str) and h[:1] == '"' and fam in ("quote", "list", "dict", "options"):
            U.used.add("quoted")
            if "\\" in h:
                U.used.add("escaped")
        return True
    U.used.add("kind:" + kind.split(":")[0])
    R.violation(f"{fam}:{kind}", {"kind": "law", "family": fam, "value": v, "failure": kind, "detail": d,
                                  "lenient_none": bool(kw.get("lenient_none")), "ambiguous": bool(kw.get("ambiguous"))})
    return False


# ------------------------------------------------------------------ spaces

def cc_domain(kind):
    """(property, value) for every typed property of the class and every kind of value it documents; the
    (key, empty, type) triple is read from the closure of the property factory (cache_control_property)."""
    cls = CC[kind]
    out = []
    for n in sorted(dir(cls)):
        p = getattr(cls, n, None)
        if not isinstance(p, property):
            continue
        cl = dict(zip(p.fget.__code__.co_freevars, (c.cell_contents for c in p.fget.__closure__)))
        if set(cl) != {"key", "empty", "type"}:
            raise core.Broken(f"cache_control_property closure changed: {sorted(cl)}")
        if cl["key"] != n.replace("_", "-"):
            raise core.Broken(f"cache-control property {n} maps to unexpected key {cl['key']!r}")
        typ, empty = cl["type"], cl["empty"]
        if typ is bool:
            out.append((n, True))
            continue
        if typ is int:
            vals = [0, 1, 3600, 2 ** 31, -1]
        else:
            vals = ["f", "a, b", 'q"x', "", "a=b", "set-cookie, x-y", "\\"]
        if empty is True:
            vals.append(True)
        for x in vals:
            out.append((n, x))
    return out


def closed_ranges(n=5):
    return [(s, e) for s in range(0, n) for e in range(s + 1, n + 1)]


def range_lists():
    cl = closed_ranges()
    tails = [None] + [(s, None) for s in range(0, 6)] + [(-k, None) for k in (1, 2, 3)]
    for k in range(0, 4):
        for seq in itertools.product(cl, repeat=k):
            for t in tails:
                if k == 0 and t is None:
                    continue
                yield list(seq) + ([t] if t is not None else [])


def ascending(ranges):
    """The parser's documented acceptance: ascending, non-overlapping, nothing after an open / suffix range."""
    last_end = 0
    for i, (s, e) in enumerate(ranges):
        if last_end < 0:
            return False
        if e is None:
            if s >= 0 and s < last_end:
                return False
            last_end = -1
        else:
            if s < last_end:
                return False
            last_end = e
    return True


def content_ranges(n=6):
    for units in ("bytes", "items"):
        for st in range(0, n):
            for sp in range(st + 1, n + 1):
                for ln in [None] + list(range(0, n + 2)):
                    if http.is_byte_range_valid(st, sp, ln):
                        yield (units, st, sp, ln)
        for ln in (None, 0, 1, 5):
            yield (units, None, None, ln)


YEARS = (1000, 1969, 1970, 2000, 2024, 9999)
DAYS = (1, 28, 29, 30, 31)
TIMES = ((0, 0, 0), (12, 34, 56), (23, 59, 59))
ZONES = (None, 0, 19800, -28800, 50400, -43200, 3601, -1, 86399)


def date_grid():
    for y in YEARS:
        for mo in range(1, 13):
            for d in DAYS:
                for (h, mi, s) in TIMES:
                    for off in ZONES:
                        yield (y, mo, d, h, mi, s, off)
    for off in range(-12 * 3600, 14 * 3600 + 1, 900):
        for base in ((2024, 2, 29, 23, 59, 59), (1970, 1, 1, 0, 0, 0), (2000, 12, 31, 12, 0, 0)):
            yield base + (off,)


def date_valid(t):
    try:
        x = _dt(t)
    except ValueError:
        return False
    try:
        _aware(x).astimezone(dtm.timezone.utc)
    except (OverflowError, ValueError):
        return False
    return True


def stdlib_reads_as_date(header):
    try:
        email.utils.parsedate_to_datetime(header)
        return True
    except (TypeError, ValueError):
        return False


BASIC_A = ["a", "\xe9", " ", ":", "%", "=", "€"]
TOKENS68 = ["abc", "abc=", "abc==", "a+/b", "a.b-c_d~", "QTpi"]
PARAM_V = ["v", "a b", "", 'q"x', "n,1", "a=b", "=", "\xe9", "\\", "a;b", "*", "%22", "x=="]
PARAM_K = ["realm", "nonce", "qop", "k", "x-y"]
SCHEMES = ["digest", "bearer", "custom", "basic"]
CSP_D = ["default-src", "script-src", "img-src", "sandbox"]
CSP_V = ["'self'", "a b", "*", "https://x.y 'unsafe-inline'", "allow-forms"]

CSP_V2 = ["'self'", "a b", "*", "https://x.y 'unsafe-inline'", "'nonce-abc=' 'sha256-a/b+c='", "data: blob:", "a,b", "'none'"]
YEARS_FULL = (2024, 1900, 2000, 2100, 1999)


def csp_directives():
    """every directive ContentSecurityPolicy has a typed property for (key read from the property closure)"""
    out = []
    for n in sorted(dir(ContentSecurityPolicy)):
        p = getattr(ContentSecurityPolicy, n, None)
        if isinstance(p, property) and p.fget.__closure__:
            cl = dict(zip(p.fget.__code__.co_freevars, (c.cell_contents for c in p.fget.__closure__)))
            if "key" in cl:
                out.append(cl["key"])
    if len(out) < 20:
        raise core.Broken(f"only {len(out)} CSP directive properties discovered")
    return out


RAW_A = ["a", "B", " ", '"', "\\", ",", ";", "=", "k=", "W/", "*", "\xe9", "%22", '"a"',
         "k*=", "UTF-8''", "%C3%A9", "k*0=", ";k*1=", "iso-8859-1'en'", "%FF", "\\\""]
CRIT = ["a", " ", '"', "\\", ",", ";", "=", "\xe9"]
DEEP_KINDS = {"strN", "strcrit", "pairs33", "pairs32", "triples2", "raw-deep", "auth-deep", "etag-single-deep", "rawg-deep"}

# raw header grammars: each parser's own tokens glued the way real headers glue them
RAWG = {
    "range": ["bytes=", "items=", "BYTES =", "0-1", "2-", "-3", ",", ", ", "5-9", "0-0", "1-1", " "],
    "content-range": ["bytes ", "items ", "0-1", "0-4", "/", "*", "2", "5", " ", "-"],
    "date": ["Mon, ", "Sun, ", "01 ", "29 ", "Jan ", "Feb ", "2024 ", "1994 ", "94 ", "00:00:00 ", "23:59:59 ", "GMT",
             "+0100", "-0800", "Sunday, 06-Nov-94 08:49:37 GMT", "Sun Nov  6 08:49:37 1994", "UT", "EST", "Z", "-0000"],
    "age": ["0", "1", "9", " ", "-", "+", "_"],
    "if-range": ['"a"', 'W/"a"', '"', "a", "W/", "Mon, 01 Jan 2024 00:00:00 GMT", "01 Jan 2024", " ", ",", "00:00:00"],
    "auth": ["Basic ", "Digest ", "Bearer ", "basic ", "QTpi", "YTo=", "w6k6w6k=", "k=", "realm=", "v", '"a b"', ", ", ",",
             "=", "abc", " ", "nonce"],
    "cache-control": ["max-age=", "max-stale", "no-cache", "private", "public", "no-store", "s-maxage=", "=", "5", "-1", "05",
                      '"a, b"', ", ", ",", "x", "min-fresh="],
    "csp": ["default-src ", "script-src ", "sandbox", "'self'", " ", ";", "; ", "*", "a", "img-src"],
}


def units(tier):
    T = tier == "thorough"
    us = []
    # deep layers first (the longest units); the quick tier takes the most valuable of them (round 3 promotion)
    nA = len(A)
    for i in range(nA):
        for j in range(nA):
            us.append(("strN", 5, i, j))
    for i in range(len(CRIT)):
        for j in range(len(CRIT)):
            us.append(("strcrit", 6, i, j))
            if T:
                us.append(("strcrit", 7, i, j))
    n3 = len(S(3))
    n2 = len(S(2))
    for i in range(0, n2, 2):
        us.append(("triples2", i, min(n2, i + 2), True))
    if T:
        for i in range(0, n3, 6):
            us.append(("pairs33", i, min(n3, i + 6)))
    else:
        for i in range(0, n3, 20):
            us.append(("pairs32", i, min(n3, i + 20)))
    for i in range(0, n2, 4):
        us.append(("auth-deep", i, min(n2, i + 4)))
    for i in range(0, n3, 200):
        us.append(("etag-single-deep", i, min(n3, i + 200)))
    for i in range(len(RAW_A)):
        for j in range(len(RAW_A)):
            us.append(("raw-deep", i, j))
    for g, atoms in RAWG.items():
        for i in range(len(atoms)):
            for j in range(len(atoms)):
                us.append(("rawg-deep", g, i, j, T))
    n3 = len(S(3))
    step = 200
    for i in range(0, n3, step):
        us.append(("str", i, min(n3, i + step)))
    for i in range(len(A)):
        us.append(("str4", i))
    for i in range(len(CRIT)):
        us.append(("strcrit5", i))
    for lo in range(0, 0x10000, 0x800):
        us.append(("codepoints", lo, lo + 0x800))
    us.append(("codepoints-astral",))
    n2 = len(S(2))
    for i in range(0, n2, 8):
        us.append(("pairs", i, min(n2, i + 8)))
    for i in range(0, n3, 100):
        us.append(("pairs31", i, min(n3, i + 100)))
    us.append(("triples",))
    for i in range(len(KEYS)):
        us.append(("dicts", i))
    for i in range(0, 1 << len(ETAG_T), 16):
        us.append(("etags", i, i + 16))
    us.append(("etag-single",))
    for i in range(0, 1 << len(ETAG_T2), 16):
        us.append(("etags2", i, i + 16))
    for i in range(4):
        us.append(("ranges", i))
    us.append(("content-ranges",))
    us.append(("if-range",))
    for w in ("Request", "Response"):
        us.append(("cache-control", w))
        n = len(cc_domain(w))
        for i in range(n):
            us.append(("cache-control3", w, i, True))
    us.append(("csp",))
    for i in range(len(csp_directives())):
        us.append(("csp2", i, True))
    for y in YEARS:
        us.append(("dates", y))
    for y in YEARS_FULL:
        for mo in range(1, 13):
            us.append(("dates-days", y, mo, True))
    us.append(("dates-offsets",))
    for y in (2024, 1970, 9999, 1000):
        us.append(("dates-tzinfo", y))
    us.append(("ages",))
    for i in range(len(BASIC_A) + 1):
        us.append(("basic", i))
    us.append(("inject",))
    us.append(("auth-token",))
    for i in range(len(PARAM_V)):
        us.append(("auth-params", i))
    for i in range(len(RAW_A)):
        us.append(("raw", i, 3))
    for g, atoms in RAWG.items():
        for i in range(len(atoms)):
            us.append(("rawg", g, i, 4 if g in ("content-range", "age", "csp") else 3))
    return us


# ------------------------------------------------------------------ units

def strings_battery(R, v):
    check(R, "quote", v)
    check(R, "quote-forced", v)
    check(R, "list", [v])
    check(R, "dict", {"k": v})
    check(R, "set", [v])
    check(R, "set-dump_header", [v])
    if _opt_ok(v):
        check(R, "options", ("x/y", {"k": v}))
    check(R, "authorization", ("A", "custom", {"k": v}, None))
    check(R, "www-authenticate", ("W", "digest", {"realm": v}, None))
    check(R, "www-authenticate", ("W", "custom", {"k": v}, None))


def run_unit(unit, R, tier):
    U.reset(track=unit[0] not in DEEP_KINDS)
    try:
        _run_unit(unit, R, tier)
    finally:
        U.flush(R)


def _run_unit(unit, R, tier):
    kind = unit[0]
    if kind == "str":
        for v in S(3)[unit[1]:unit[2]]:
            strings_battery(R, v)
        R.sample({"family": "strings", "value": S(3)[unit[1]]})
        return
    if kind == "str4":
        a0 = A[unit[1]]
        for t in itertools.product(A, repeat=3):
            v = a0 + "".join(t)
            check(R, "quote", v)
            check(R, "list", [v])
            check(R, "dict", {"k": v})
            if _opt_ok(v):
                check(R, "options", ("x/y", {"k": v}))
        return
    if kind == "strN":
        _k, n, i, j = unit
        head = A[i] + A[j]
        for t in itertools.product(A, repeat=n - 2):
            v = head + "".join(t)
            check(R, "quote", v)
            check(R, "list", [v])
            check(R, "dict", {"k": v})
            if _opt_ok(v):
                check(R, "options", ("x/y", {"k": v}))
        return
    if kind in ("strcrit", "strcrit5"):
        if kind == "strcrit":
            _k, n, i, j = unit
            head, rest = CRIT[i] + CRIT[j], n - 2
        else:
            head, rest = CRIT[unit[1]], 4
        for t in itertools.product(CRIT, repeat=rest):
            v = head + "".join(t)
            check(R, "quote", v)
            check(R, "list", [v])
            check(R, "dict", {"k": v})
            check(R, "options", ("x/y", {"k": v}))
            check(R, "set", [v])
        U.used.add(kind)
        return
    if kind in ("pairs33", "pairs31", "pairs32"):
        s3 = S(3)
        others = s3 if kind == "pairs33" else (S(1) if kind == "pairs31" else S(2))
        for v in s3[unit[1]:unit[2]]:
            for w in others:
                check(R, "list", [v, w])
                check(R, "dict", {"k": v, "Key2": w})
                if _opt_ok(v) and _opt_ok(w):
                    check(R, "options", ("form-data", {"k": v, "key2": w}))
                if kind != "pairs33":
                    check(R, "list", [w, v])
                    check(R, "dict", {"k": w, "Key2": v})
                    if _opt_ok(v) and _opt_ok(w):
                        check(R, "options", ("form-data", {"k": w, "key2": v}))
        U.used.add(kind)
        return
    if kind == "triples2":
        s2, s1 = S(2), S(1)
        for a in s2[unit[1]:unit[2]]:
            for b in s2:
                for c in s1:
                    for t in ((a, b, c), (a, c, b), (c, a, b)):
                        check(R, "list", list(t))
                        if unit[3] and _opt_ok(a) and _opt_ok(b) and _opt_ok(c):      # quick: lists only
                            check(R, "options", ("form-data", {"name": t[0], "filename": t[1], "k": t[2]}))
        U.used.add(kind)
        return
    if kind == "auth-deep":
        s2 = S(2)
        for v1 in s2[unit[1]:unit[2]]:
            for v2 in s2:
                for typ in ("digest", "custom"):
                    check(R, "authorization", ("A", typ, {"realm": v1, "nonce": v2}, None))
                    check(R, "www-authenticate", ("W", typ, {"realm": v1, "x-y": v2}, None))
            for v2 in S(1):
                for v3 in S(1) + [None]:
                    check(R, "authorization", ("A", "custom", {"k": v1, "realm": v2, "qop": v3}, None))
                    check(R, "www-authenticate", ("W", "bearer", {"qop": v3, "k": v1, "realm": v2}, None))
                    if v3 is not None:
                        check(R, "www-authenticate", ("W", "digest", {"qop": v3, "opaque": v1, "algorithm": v2}, None))
        U.used.add(kind)
        return
    if kind in ("etag-single", "etag-single-deep"):
        vals = S(2) if kind == "etag-single" else S(3)[unit[1]:unit[2]]
        for e in vals:
            if not e or '"' in e:
                continue
            for weak in (False, True):
                check(R, "etag-single", (e, weak))
            amb = stdlib_reads_as_date(http.quote_etag(e))
            check(R, "if-range", ("etag", e), ambiguous=amb)
        if kind == "etag-single":
            for e in ETAG_T:
                check(R, "etag-single", (e, False))
                check(R, "etag-single", (e, True))
        U.used.add("etag-single")
        return
    if kind == "cache-control3":
        _k, which, i, full = unit
        fam = f"cache-control[{which}]"
        dom = cc_domain(which)
        a = dom[i]
        for b in dom:
            if b[0] == a[0]:
                continue
            for c in (dom if full else dom[::3]):
                if c[0] in (a[0], b[0]):
                    continue
                check(R, fam, (which, (a, b, c)))
        U.used.add("cache-control3")
        return
    if kind == "csp2":
        _k, i, full = unit
        ds_ = csp_directives()
        d1 = ds_[i]
        for v1 in CSP_V2:
            check(R, "csp", ((d1, v1),))
            for d2 in ds_:
                if d2 == d1:
                    continue
                for v2 in (CSP_V2 if full else CSP_V2[:3]):
                    check(R, "csp", ((d1, v1), (d2, v2)))
            if full:
                for d2, d3 in itertools.permutations([d for d in CSP_D if d != d1], 2):
                    for v2 in CSP_V2[:3]:
                        check(R, "csp", ((d1, v1), (d2, v2), (d3, v1)))
        U.used.add("csp2")
        return
    if kind == "dates-days":
        _k, y, mo, full = unit
        zones = (None, 0, 19800, -28800, 50400, -43200) if full else (None, -28800)
        for d in range(1, 32):
            for (h, mi, sec) in TIMES:
                for off in zones:
                    t = (y, mo, d, h, mi, sec, off)
                    if date_valid(t):
                        check(R, "date", t)
                        if d in (1, 28, 29) and off in (None, -28800):
                            check(R, "if-range", ("date", t))
            try:
                dtm.date(y, mo, d)
            except ValueError:
                continue
            check(R, "date-object", (y, mo, d))
        U.used.add("dates-days")
        return
    if kind in ("rawg", "rawg-deep"):
        if kind == "rawg":
            _k, g, i, depth = unit
            heads = [(RAWG[g][i], depth - 1)]
            lo = 0
        else:
            _k, g, i, j, full = unit
            deep = 5 if g in ("content-range", "age", "csp", "date") else 4
            if g == "date" and not full:
                deep = 4           # quick: one more atom than the "rawg" units; thorough: two more
            heads = [(RAWG[g][i] + RAWG[g][j], deep - 2)]
            lo = deep - 2          # only the new layer (shallower ones are in the quick units)
            if g == "date":
                lo = 2             # quick has depth 3 for dates: layers 4 and 5 here
        for head, rest in heads:
            for k in range(lo, rest + 1):
                for t in itertools.product(RAWG[g], repeat=k):
                    raw_grammar(R, g, head + "".join(t))
        U.used.add("rawg:" + g)
        return
    if kind == "raw-deep":
        _k, i, j = unit
        head = RAW_A[i] + RAW_A[j]
        for t in itertools.product(RAW_A, repeat=2):
            raw_one(R, head + "".join(t))
        return
    if kind == "inject":
        # values that look like the syntax of the header they are embedded in: a separator followed by
        # something shaped like another item / parameter (a quoted value must hide all of it)
        n = 0
        for a in ("", "a", 'a"', "a\\", "é"):
            for sep in (";", "; ", ",", ", ", " ", '";', '", '):
                for b in ("b=c", 'b="c"', "b", "k=v", "key2=evil", "filename=evil.txt", "q=0", "b=c;d=e"):
                    v = a + sep + b
                    strings_battery(R, v)
                    check(R, "list", ["x", v, "y"])
                    check(R, "dict", {"k": v, "key2": "w"})
                    check(R, "dict", {"key2": "w", "k": v})
                    if _opt_ok(v):
                        check(R, "options", ("form-data", {"k": v, "key2": "w"}))
                        check(R, "options", ("form-data", {"key2": "w", "k": v}))
                        check(R, "options", ("form-data", {"name": v, "filename": "real.txt"}))
                    n += 1
        R.use("inject")
        R.sample({"family": "inject", "value": 'a"; key2=evil', "count": n})
        return
    if kind == "codepoints":
        for cp in range(unit[1], unit[2]):
            if cp in (10, 13) or 0xD800 <= cp <= 0xDFFF:
                continue
            c = chr(cp)
            for v in (c, "a" + c + "b", c + '"'):
                check(R, "quote", v)
                check(R, "list", [v])
                check(R, "dict", {"k": v})
                check(R, "options", ("x/y", {"k": v}))
                check(R, "set", [v])
            check(R, "list", ["x", c, "y"])
            if c != ":":
                check(R, "authorization", ("A", "basic", {"username": c, "password": c + ":"}, None))
            if c != '"':
                check(R, "etags", ((c,), ("w" + c,), False))
        R.use("codepoints")
        return
    if kind == "codepoints-astral":
        for cp in (0x10000, 0x1F600, 0x2FFFF, 0xE0001, 0x10FFFF):
            c = chr(cp)
            for v in (c, "a" + c + "b", c + '"'):
                strings_battery(R, v)
            check(R, "authorization", ("A", "basic", {"username": c, "password": c}, None))
        return
    if kind == "pairs":
        s2 = S(2)
        for v in s2[unit[1]:unit[2]]:
            for w in s2:
                check(R, "list", [v, w])
                check(R, "set-dump_header", [v, w])
                check(R, "dict", {"k": v, "Key2": w})
                if _opt_ok(v) and _opt_ok(w):
                    check(R, "options", ("form-data", {"k": v, "key2": w}))
        return
    if kind == "triples":
        s1 = S(1)
        for t in itertools.product(s1, repeat=3):
            check(R, "list", list(t))
            check(R, "set", list(t))
        R.sample({"family": "list", "value": list(s1[3:6])})
        return
    if kind == "dicts":
        k = KEYS[unit[1]]
        ok = OPT_KEYS[unit[1]]
        for v in S(2):
            check(R, "dict", {k: v})
            check(R, "dict", {k: None, "z": v})
            check(R, "dict", {"z": v, k: None})
            if _opt_ok(v):
                for head in OPT_HEADS:
                    check(R, "options", (head, {ok: v}))
        check(R, "dict", {k: None})
        check(R, "dict", {})
        check(R, "list", [])
        return
    if kind == "etags":
        n = len(ETAG_T)
        for sm in range(unit[1], unit[2]):
            strong = tuple(ETAG_T[i] for i in range(n) if sm >> i & 1)
            for wm in range(1 << n):
                weak = tuple(ETAG_T[i] for i in range(n) if wm >> i & 1)
                v = (strong, weak, False)
                check(R, "etags", v)
        if unit[1] == 0:
            check(R, "etags", ((), (), True))
            R.sample({"family": "etags", "strong": ETAG_T[:2], "weak": ETAG_T[2:4]})
        return
    if kind == "etags2":
        n = len(ETAG_T2)
        for sm in range(unit[1], unit[2]):
            strong = tuple(ETAG_T2[i] for i in range(n) if sm >> i & 1)
            for wm in range(1 << n):
                weak = tuple(ETAG_T2[i] for i in range(n) if wm >> i & 1)
                check(R, "etags", (strong, weak, False))
        for e in ETAG_T2:
            for weak in (False, True):
                check(R, "etag-single", (e, weak))
            check(R, "if-range", ("etag", e), ambiguous=stdlib_reads_as_date(http.quote_etag(e)))
        U.used.add("etags2")
        return
    if kind == "ranges":
        for i, rl in enumerate(range_lists()):
            if i % 4 != unit[1]:
                continue
            asc = ascending(rl)
            R.use("range-ascending" if asc else "range-unordered")
            for units_ in ("bytes", "items"):
                check(R, "range", (units_, rl), lenient_none=not asc)
        if unit[1] == 0:
            for units_ in ("bytes", "items", "pages", "x-rows", "b"):
                for s_ in (0, 1, 9, 10, 4294967296):
                    check(R, "range", (units_, [(s_, None)]))
                    check(R, "range", (units_, [(-max(s_, 1), None)]))
                    check(R, "range", (units_, [(0, s_ + 1)]))
                    check(R, "range", (units_, [(0, 1), (s_ + 1, None)]))
                    check(R, "range", (units_, [(0, 1), (1, 2), (s_ + 2, None)]))
                    check(R, "range", (units_, [(0, 1), (-max(s_, 1), None)]))
            U.used.add("range-open-forms")
        if unit[1] == 0:
            R.sample({"family": "range", "value": [(0, 2), (2, 5), (-3, None)]})
        return
    if kind == "content-ranges":
        for v in content_ranges():
            check(R, "content-range", v)
        return
    if kind == "if-range":
        for e in ETAG_T + ["", "Mon, 01 Jan 2024 00:00:00 GMT", "1 Jan 2024", "2024", "0", "a" * 40]:
            amb = stdlib_reads_as_date(http.quote_etag(e))
            R.use("ifrange-ambiguous" if amb else "ifrange-etag")
            check(R, "if-range", ("etag", e), ambiguous=amb)
        for t in date_grid():
            if t[0] in (1970, 2024) and t[1] in (1, 2, 12) and date_valid(t):
                check(R, "if-range", ("date", t))
        check(R, "if-range", ("none", None))
        return
    if kind == "cache-control":
        which = unit[1]
        fam = f"cache-control[{which}]"
        dom = cc_domain(which)
        if len({p for p, _ in dom}) < 8:
            raise core.Broken(f"cache-control[{which}]: only {len(dom)} typed properties discovered")
        for pv in dom:
            check(R, fam, (which, (pv,)))
        for a, b in itertools.permutations(dom, 2):
            if a[0] != b[0]:
                check(R, fam, (which, (a, b)))
        check(R, fam, (which, ()))
        R.count("cc_properties_" + which, len({p for p, _ in dom}))
        return
    if kind == "csp":
        items1 = [(d, v) for d in CSP_D for v in CSP_V]
        for it in items1:
            check(R, "csp", (it,))
        for a, b in itertools.permutations(items1, 2):
            if a[0] != b[0]:
                check(R, "csp", (a, b))
        check(R, "csp", ())
        return
    if kind == "dates":
        for t in date_grid():
            if t[0] == unit[1] and len(t) == 7 and date_valid(t):
                R.use("tz-naive" if t[6] is None else "tz-aware")
                check(R, "date", t)
        return
    if kind == "dates-tzinfo":
        y = unit[1]
        tags = [t_ for t_ in TZ_TAGS if not t_.startswith("zi:") or _zoneinfo(t_[3:]) is not None]
        if any(t_.startswith("zi:") for t_ in tags):
            U.used.add("zoneinfo")
        for mo in range(1, 13):
            for d in (1, 15, 28, 31):
                for (h, mi, sec) in TIMES + ((1, 30, 0),):
                    for tag in tags:
                        t = (y, mo, d, h, mi, sec, tag)
                        if not date_valid(t):
                            continue
                        x = _dt(t)
                        if x.utcoffset() != x.replace(fold=1).utcoffset():
                            continue        # local time in a DST gap / overlap: the instant is not defined
                        U.used.add("tzinfo:" + tag.split(":")[0])
                        check(R, "date", t)
                        check(R, "if-range", ("date", t))
        return
    if kind == "dates-offsets":
        for ts in (0, 1, 86400, 2 ** 31, 951782400, 253402300799):
            check(R, "timestamp", ts)
        return
    if kind == "ages":
        for n in (0, 1, 59, 60, 86400, 2 ** 31, 10 ** 9):
            check(R, "age", ("int", n))
            check(R, "age", ("td", n))
        check(R, "age", ("none", None))
        return
    if kind == "basic":
        users = [u for u in gen.strings(BASIC_A, 2) if ":" not in u]
        i = unit[1]
        pws = list(gen.strings(BASIC_A, 2))
        for u in users:
            if (0 if not u else BASIC_A.index(u[0]) + 1) != i:
                continue
            for pw in pws:
                check(R, "authorization", ("A", "basic", {"username": u, "password": pw}, None))
        return
    if kind == "auth-token":
        for typ in SCHEMES[1:3] + ["negotiate"]:
            for tok in TOKENS68:
                check(R, "authorization", ("A", typ, None, tok))
                check(R, "www-authenticate", ("W", typ, None, tok))
        return
    if kind == "auth-params":
        v1 = PARAM_V[unit[1]]
        for typ in SCHEMES:
            for k1 in PARAM_K:
                for cls in ("A", "W"):
                    fam = "authorization" if cls == "A" else "www-authenticate"
                    if cls == "A" and typ == "basic":
                        continue
                    check(R, fam, (cls, typ, {k1: v1}, None))
                    for k2 in PARAM_K:
                        if k2 == k1:
                            continue
                        for v2 in PARAM_V + [None]:
                            if v2 is None and cls == "W" and typ == "digest":
                                # WWWAuthenticate.to_header quotes Digest values itself and has no bare-key form;
                                # parameter values are documented as str (setting None deletes the key)
                                continue
                            check(R, fam, (cls, typ, {k1: v1, k2: v2}, None))
                            check(R, fam, (cls, typ, {k2: v2, k1: v1}, None))
        return
    if kind == "raw":
        _k, first, depth = unit
        raw_normal_form(R, first, depth)
        return
    raise core.Broken(f"unknown unit {unit!r}")


def _etags_expect(v):
    strong, weak, star = v
    s = frozenset() if star else frozenset(strong)
    w = frozenset() if star else frozenset(weak)
    return (s, w, bool(star), s | w)


# expectations stated independently of the object under test (default: view(build(v)))
EXPECT = {
    "csp": _csp_expect,
    "cache-control[Request]": _cc_expect,
    "cache-control[Response]": _cc_expect,
    "etags": _etags_expect,
    "set": lambda v: _hs_norm(list(v)),
    "set-dump_header": lambda v: _hs_norm(list(v)),
    "list": lambda v: list(v),
    "quote": lambda v: v,
    "quote-forced": lambda v: v,
    "dict": lambda v: tuple(v.items()),
    "options": lambda v: (v[0], tuple(v[1].items())),
    "timestamp": lambda v: dtm.datetime.fromtimestamp(int(v), dtm.timezone.utc),
    "age": lambda v: None if v[1] is None else dtm.timedelta(seconds=v[1]),
    "etag-single": lambda v: (v[0], bool(v[1])),
    "date-object": lambda v: dtm.datetime(v[0], v[1], v[2], tzinfo=dtm.timezone.utc),
    "range": lambda v: (v[0], [tuple(r) for r in v[1]]),
    "content-range": lambda v: tuple(v),
}


# ------------------------------------------------------------------ normal form on raw header text

_TOKEN = re.compile(r"[!#$%&'*+\-.^_`|~0-9A-Za-z]+\Z")


def _in_domain_str(x):
    return isinstance(x, str) and "\r" not in x and "\n" not in x


def raw_normal_form(R, first, depth):
    head = RAW_A[first]
    for k in range(0, depth):
        for t in itertools.product(RAW_A, repeat=k):
            raw_one(R, head + "".join(t))


def raw_one(R, h):
    """Normal form on raw text: parse h; if the parsed value lies in the documented domain it must survive dump + parse."""
    p = http.parse_list_header(h)
    if all(_in_domain_str(x) for x in p):
        check(R, "list", p)
        U.used.add("raw-list")
    # dict: keys must be tokens without '*' to be in the documented domain (key*=charset'lang'value parses to key)
    d = http.parse_dict_header(h)
    if d and all(_TOKEN.match(k_) and "*" not in k_ for k_ in d) and any(v is not None for v in d.values()):
        check(R, "dict", d)
        U.used.add("raw-dict")
        if "*=" in h:
            U.used.add("raw-dict-rfc2231")
    hs = http.parse_set_header(h)
    check(R, "set", list(hs))
    val, opts = http.parse_options_header("x/y;" + h)
    if opts and all(k_ and "*" not in k_ for k_ in opts) and all(_opt_ok(v) for v in opts.values()):
        check(R, "options", ("x/y", opts))
        U.used.add("raw-options")
        if "*=" in h or "*0" in h or "*1" in h:
            U.used.add("raw-options-rfc2231")
    e = http.parse_etags(h)
    allt = e.as_set(include_weak=True)
    if all(x and '"' not in x for x in allt):
        strong = tuple(sorted(e.as_set()))
        weak = tuple(sorted(x for x in allt if e.is_weak(x)))
        check(R, "etags", (strong, weak, bool(e.star_tag)))
        U.used.add("raw-etags")
    et, weak = http.unquote_etag(h)
    if et and '"' not in et:
        check(R, "etag-single", (et, weak))


_TOKEN68 = re.compile(r"[A-Za-z0-9\-._~+/]+=*\Z")
_CANON_INT = re.compile(r"-?(0|[1-9][0-9]*)\Z")


def _dt_tuple(x):
    off = x.utcoffset()
    return (x.year, x.month, x.day, x.hour, x.minute, x.second, None if off is None else int(off.total_seconds()))


def _auth_value(cls, p):
    """(cls, type, params, token) if the parsed credentials lie in the documented domain, else None."""
    if p is None or not p.type or not _TOKEN.match(p.type) or p.type != p.type.lower():
        return None
    if p.token is not None:
        if not _TOKEN68.match(p.token) or p.parameters:
            return None
        return (cls, p.type, None, p.token)
    params = dict(p.parameters)
    if not params or not any(isinstance(v, str) for v in params.values()):
        return None
    for k, v in params.items():
        if not _TOKEN.match(k) or "*" in k or not (v is None or _in_domain_str(v)):
            return None
        if v is None and cls == "W" and p.type == "digest":
            return None
    if p.type == "basic" and cls == "A":
        if set(params) != {"username", "password"} or ":" in params["username"]:
            return None
    return (cls, p.type, params, None)


def _cc_value(which, p):
    props = _cc_props(CC[which])
    by_key = {cl["key"]: (n, cl) for n, cl in props.items()}
    items = []
    for k, v in p.items():
        if k not in by_key:
            return None
        n, cl = by_key[k]
        if cl["type"] is bool:
            if v is not None:
                return None
            items.append((n, True))
        elif v is None:
            if cl["empty"] is not True:
                return None
            items.append((n, True))
        elif cl["type"] is int:
            if not _CANON_INT.match(v) or v == "-0":
                return None
            items.append((n, int(v)))
        else:
            items.append((n, v))
    return (which, tuple(items))


def raw_grammar(R, g, h):
    """Normal form on raw headers of one grammar: whatever the parser accepts must be a fixed point of dump + parse."""
    if g == "range":
        p = http.parse_range_header(h)
        if p is not None and p.ranges:
            check(R, "range", (p.units, [tuple(x) for x in p.ranges]))
            U.used.add("rawg-hit:range")
    elif g == "content-range":
        p = http.parse_content_range_header(h)
        if p is not None:
            check(R, "content-range", (p.units, p.start, p.stop, p.length))
            U.used.add("rawg-hit:content-range")
    elif g == "date":
        p = http.parse_date(h)
        if p is not None:
            t = _dt_tuple(p)
            if 1 <= t[0] <= 9999 and date_valid(t):
                check(R, "date", t)
                U.used.add("rawg-hit:date")
    elif g == "age":
        p = http.parse_age(h)
        if p is not None:
            check(R, "age", ("td", int(p.total_seconds())))
            U.used.add("rawg-hit:age")
    elif g == "if-range":
        p = http.parse_if_range_header(h)
        if p.date is not None:
            t = _dt_tuple(p.date)
            if date_valid(t):
                check(R, "if-range", ("date", t))
                U.used.add("rawg-hit:if-range-date")
        elif p.etag is not None and '"' not in p.etag:
            check(R, "if-range", ("etag", p.etag), ambiguous=stdlib_reads_as_date(http.quote_etag(p.etag)))
            U.used.add("rawg-hit:if-range-etag")
    elif g == "auth":
        for cls, c in (("A", Authorization), ("W", WWWAuthenticate)):
            v = _auth_value(cls, c.from_header(h))
            if v is not None:
                check(R, "authorization" if cls == "A" else "www-authenticate", v)
                U.used.add("rawg-hit:auth")
    elif g == "cache-control":
        for which in CC:
            p = http.parse_cache_control_header(h, None, CC[which])
            v = _cc_value(which, p) if p else None
            if v is not None and v[1]:
                check(R, f"cache-control[{which}]", v)
                U.used.add("rawg-hit:cache-control")
    elif g == "csp":
        p = http.parse_csp_header(h)
        if p and all(v and ";" not in v and k and " " not in k for k, v in p.items()):
            check(R, "csp", tuple(p.items()))
            U.used.add("rawg-hit:csp")


# ------------------------------------------------------------------ finalize / replay

def finalize(R, tier):
    need = {"family:" + f for f in CODECS} | {"quoted", "escaped", "codepoints", "range-ascending", "range-unordered",
                                              "ifrange-ambiguous", "ifrange-etag", "tz-naive", "tz-aware", "raw-list",
                                              "raw-dict", "raw-options", "raw-etags", "kind:ok", "kind:ok-refused", "inject", "strcrit5",
                                              "pairs31", "etag-single", "cache-control3", "csp2", "dates-days",
                                              "raw-dict-rfc2231", "raw-options-rfc2231", "rawg-hit:range",
                                              "rawg-hit:content-range", "rawg-hit:date", "rawg-hit:age",
                                              "rawg-hit:if-range-date", "rawg-hit:if-range-etag", "rawg-hit:auth",
                                              "rawg-hit:cache-control", "rawg-hit:csp", "etags2", "range-open-forms", "tzinfo:utc0", "tzinfo:london",
                                              "tzinfo:nameless0", "tzinfo:tz0"}
    need |= {"strcrit", "auth-deep", "triples2"}
    if tier == "thorough":
        need |= {"pairs33"}
    else:
        need |= {"pairs32"}
    missing = need - R.used
    if missing:
        raise core.Broken(f"vacuity: never exercised {sorted(missing)}")
    if len(R.sets.get("nontrivial", ())) < 20000:
        raise core.Broken("vacuity: too few values needed quoting / escaping / conversion")
    return {"bound": ("strings <= 5 atoms (6 over the 8 critical atoms), pairs 3x2, triples 2x2x1, raw headers <= 4 "
                      "atoms, grammar headers <= 4-5 atoms" if tier == "quick" else
                      "strings <= 5 atoms (7 over the 8 critical atoms), pairs 3x3, triples 2x2x1, raw headers <= 4 atoms, "
                      "grammar headers <= 4-5 atoms") + ", lists <= 3, dicts <= 3, ranges <= 3 + tail over 0..5",
            "exhaustive": True, "families": len(CODECS)}


def replay(rec):
    if rec.get("kind") == "law":
        v = rec["value"]
        fam = rec["family"]
        v = _thaw(fam, v)
        kind, d = apply_law(fam, v, lenient_none=rec.get("lenient_none", False), ambiguous=rec.get("ambiguous", False))
        text = f"family={fam}\nvalue={v!r}\nresult={kind}\n" + "\n".join(f"{k}={val!r}" for k, val in d.items())
        return not kind.startswith("ok"), text
    return True, rec.get("traceback", "unit exception")


def _thaw(fam, v):
    """JSON turns tuples inside lists into lists; rebuild what the codec's builder expects."""
    if fam == "options":
        return (v[0], dict(v[1]))
    if fam == "range":
        return (v[0], [tuple(r) for r in v[1]])
    if fam in ("authorization", "www-authenticate"):
        return (v[0], v[1], None if v[2] is None else dict(v[2]), v[3])
    if fam.startswith("cache-control"):
        return (v[0], tuple(tuple(x) for x in v[1]))
    if fam == "csp":
        return tuple(tuple(x) for x in v)
    if fam in ("date",):
        return tuple(v)
    if fam == "if-range":
        return (v[0], tuple(v[1]) if v[0] == "date" else v[1])
    if fam == "etags":
        return (tuple(v[0]), tuple(v[1]), v[2])
    if fam == "content-range":
        return tuple(v)
    if fam == "dict":
        return dict(v)
    if fam in ("etag-single", "date-object"):
        return tuple(v)
    if fam == "age":
        return tuple(v)
    return v


FINDINGS: dict = {}
