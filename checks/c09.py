"""C09 - the request body stream never over-reads, truncates or hangs.

E4 (mc/env.py): the harness owns the stream underneath ``LimitedStream``.  Every call the
wrapper makes on it is a choice point: the environment may answer with *any* number of bytes
between 1 and what was asked for / is left, with ``b""`` (the client went away - sticky: the
stream stays at EOF), or raise ``OSError``.  For every configuration (data, limit, is_max,
buffering wrapper, underlying stream with / without ``readinto``, consumer operation sequence)
**all** answer sequences are executed (no deviation cap) and a monitor checks the property
after every consumer operation.

Oracle decision (maximum mode): RequestEntityTooLarge is demanded on every read *attempt made
after the maximum has been reached* while the client sent more (never an EOF indication there),
not on the read that reaches the maximum: ``read()`` / ``readall()`` returning exactly ``limit``
bytes is accepted.  Reason: telling "exactly the maximum" from "longer" needs byte limit+1, which
the same statement forbids to consume, and ``tests/test_wsgi.py::test_limited_stream`` pins
``read() == first limit bytes`` followed by ``on_exhausted`` on the next read.  A consumer that
reads until the stream reports its end therefore always learns about an over-long body; the
consumers inside werkzeug that make a single ``read()`` are checked in part B
(``Request.get_data``) and in C10 (``FormDataParser._parse_urlencoded``).

Part B: the full ``get_input_stream`` / ``Request.stream`` / ``Request.get_data`` product over CONTENT_LENGTH,
Transfer-Encoding, wsgi.input_terminated, max_content_length and safe_fallback against a
table transcribed from the docstrings, again under every answer sequence.
"""
from __future__ import annotations

import io
import itertools

from mc import core, env as E4

ID = "C09"
LEVEL = "model_checking"
RULE = (
    "part A: configurations = data b'ab\\ncd\\nef'[:n] x limit in {0,n-1,n,n+1,n+3} x is_max x wrapper "
    "(bare LimitedStream, io.BufferedReader buffer_size 1/2/8, TextIOWrapper over BufferedReader and over the raw "
    "stream) x underlying stream with/without readinto x every consumer op sequence of the tier's length over "
    "{read(1), read(2), read(), read(-1), readline(), readline(2), readlines(), readinto(1|3|8), next(iter), "
    "exhaust(), readall()}; for each configuration EVERY sequence of environment answers (each underlying call "
    "answered by any length 1..min(asked,left), by sticky early EOF, or by OSError) is executed on the real "
    "LimitedStream (CHESS-style recursion, no deviation bound) and the monitor is applied after every op. "
    "part B: full product of CONTENT_LENGTH x Transfer-Encoding x wsgi.input_terminated x max_content_length x "
    "safe_fallback x body length for get_input_stream and Request.stream, read under every answer sequence. "
    "extra layers: the same with ValueError instead of OSError faults; a LimitedStream subclass whose "
    "on_exhausted/on_disconnect hooks do nothing (safety half of the property only); readlines(hint); after every op "
    "tell(), is_exhausted and readable() of the bare stream and tell() of a BufferedReader are compared with the "
    "bytes consumed / delivered. "
    "state = choice point reached by a distinct answer sequence, transition = one environment answer. "
    "non-trivial = distinct (configuration, answer sequence) with at least one non-default answer or an "
    "exception outcome."
)
ASSUMPTIONS = [
    "the underlying stream is blocking: it answers a positive request with >=1 byte unless the client is gone; "
    "EOF is sticky; it never returns None (non-blocking streams are outside WSGI)",
    "a consumer stops using the stream after the first exception it gets from it",
    "bodies <= 6 bytes (7 in thorough part B), op sequences <= 3 (4 reduced in thorough)",
    "TextIOWrapper is driven with latin-1 / newline='' so that bytes and characters correspond 1:1",
]

from werkzeug.exceptions import ClientDisconnected, RequestEntityTooLarge  # noqa: E402
from werkzeug.wrappers import Request  # noqa: E402
from werkzeug.wsgi import LimitedStream, get_input_stream  # noqa: E402

DATA = b"ab\ncd\nef"
MAX_CALLS = 60          # underlying calls per execution before the environment declares a hang
FILL = 0xEE


Hang = E4.Hang          # raised by the environment when the wrapper keeps calling, or by the CPU watchdog
CPU_GUARD = 2.0         # CPU-seconds one execution may take (normal: < 1 ms)


# ------------------------------------------------------------------ the environment

class Env:
    """Underlying stream (read only) whose answers are chosen through an E4 chooser."""

    def __init__(self, data: bytes, ch: E4.Chooser):
        self.data = data
        self.pos = 0
        self.ch = ch
        self.calls: list = []       # (kind, asked, answer) answer = int | "EOF" | "ERR"
        self.eof_seen = False       # the environment has answered b"" to a positive request
        self.early_eof = False
        self.err = 0
        self.max_taken = 0
        self.errkind = OSError      # or ValueError ("I/O operation on closed file"), which LimitedStream treats alike

    def _answer(self, kind: str, asked: int):
        if len(self.calls) >= MAX_CALLS:
            raise Hang()
        left = len(self.data) - self.pos
        if asked is None or asked < 0:
            full = left
            asked = -1
        else:
            full = min(asked, left)
        if asked == 0:
            opts: list = [0, "ERR"]
        elif full == 0:
            opts = ["EOF", "ERR"]
        elif asked < 0:
            # read() without a size means "until EOF" on a blocking stream: no partial answer
            opts = [full, "EOF", "ERR"]
        else:
            opts = [full, *range(full - 1, 0, -1), "EOF", "ERR"]
        a = opts[self.ch.choose(len(opts), (kind, asked, left))]
        self.calls.append((kind, asked, a))
        if a == "ERR":
            self.err += 1
            raise self.errkind("injected")
        if a == "EOF":
            if left:
                self.early_eof = True
                self.data = self.data[: self.pos]        # sticky: the client sent no more than this
            self.eof_seen = True
            return b""
        out = self.data[self.pos : self.pos + a]
        self.pos += a
        return out

    def read(self, n=-1):
        return self._answer("read", n)


class EnvRI(Env):
    def readinto(self, b):
        out = self._answer("readinto", len(b))
        b[: len(out)] = out
        return len(out)


# ------------------------------------------------------------------ consumer operations

# op = (name, arg)
OPS_FULL = [
    ("read", 1), ("read", 2), ("read", None), ("read", -1), ("readline", None), ("readline", 2),
    ("readlines", None), ("readlines", 3), ("readinto", 1), ("readinto", 3), ("readinto", 8), ("next", None),
    ("exhaust", None), ("readall", None),
]
# read(-1) takes the same path as read() (RawIOBase.read -> readall): it is kept for the "full" layers only
OPS_ALL = [o for o in OPS_FULL if o != ("read", -1)]
OPS_REDUCED = [("read", 2), ("read", None), ("readline", None), ("readinto", 3), ("readinto", 8), ("exhaust", None)]
WRAPS = ["bare", "br1", "br2", "br8", "txt", "txtraw"]
# wrap names may carry "!V": the environment's fault is a ValueError instead of an OSError.
# "hooks": a LimitedStream subclass whose on_exhausted / on_disconnect hooks do nothing (the documented
# extension points) - only the safety half of the property applies (prefix, no over-read, no hang).


class HooksLimitedStream(LimitedStream):
    def on_exhausted(self):
        self.hook_log.append("exhausted")

    def on_disconnect(self, error=None):
        self.hook_log.append("disconnect" if error is None else "disconnect:" + type(error).__name__)


def wrap_base(wrap):
    return wrap.split("!")[0]
ALPHABETS = {"all": OPS_ALL, "full": OPS_FULL, "reduced": OPS_REDUCED}
UNBOUNDED = {("read", None), ("read", -1), ("readlines", None), ("exhaust", None), ("readall", None)}


def ops_for(wrap: str, alphabet):
    wrap = wrap_base(wrap)
    if wrap in ("bare", "hooks"):
        return list(alphabet)
    if wrap.startswith("br"):
        return [o for o in alphabet if o[0] not in ("exhaust", "readall")]
    return [o for o in alphabet if o[0] not in ("exhaust", "readall", "readinto")]


def wrap_stream(ls, wrap: str):
    wrap = wrap_base(wrap)
    if wrap in ("bare", "hooks"):
        return ls
    if wrap.startswith("br"):
        return io.BufferedReader(ls, buffer_size=int(wrap[2:]))
    if wrap == "txt":
        return io.TextIOWrapper(io.BufferedReader(ls, buffer_size=4), encoding="latin-1", newline="")
    if wrap == "txtraw":
        return io.TextIOWrapper(ls, encoding="latin-1", newline="")
    raise core.Broken(f"unknown wrapper {wrap}")


def _b(x):
    return x.encode("latin-1") if isinstance(x, str) else bytes(x)


def apply_op(f, op):
    """Execute one consumer op. Returns (delivered bytes, eof_indication, problems)."""
    name, arg = op
    problems = []
    if name == "read":
        r = f.read() if arg is None else f.read(arg)
        if r is None:
            return b"", False, ["read-returned-None"]
        r = _b(r)
        if arg is not None and arg > 0:
            if len(r) > arg:
                problems.append("read-longer-than-asked")
            return r, r == b"", problems
        return r, True, problems
    if name == "readline":
        r = _b(f.readline() if arg is None else f.readline(arg))
        if arg is not None and len(r) > arg:
            problems.append("readline-longer-than-asked")
        if b"\n" in r[:-1]:
            problems.append("readline-crossed-newline")
        return r, r == b"", problems
    if name == "readlines":
        lines = [_b(x) for x in (f.readlines() if arg is None else f.readlines(arg))]
        for ln in lines:
            if b"\n" in ln[:-1] or ln == b"":
                problems.append("readlines-bad-line")
        if arg is not None:
            # with a hint reading stops once the hint is reached: an empty list is the end-of-stream indication,
            # and no line may be fetched after the hint was reached
            if sum(len(x) for x in lines[:-1]) > arg:
                problems.append("readlines-read-past-hint")
            return b"".join(lines), lines == [], problems
        return b"".join(lines), True, problems
    if name == "readinto":
        b = bytearray([FILL]) * arg
        c = f.readinto(b)
        if c is None:
            return b"", False, ["readinto-returned-None"]
        if len(b) != arg:
            problems.append("readinto-resized-buffer")
            return bytes(b[: min(c, len(b))]), c == 0, problems
        if not 0 <= c <= arg:
            problems.append("readinto-count-out-of-range")
            return b"", False, problems
        if any(x != FILL for x in b[c:]):
            problems.append("readinto-wrote-beyond-count")
        return bytes(b[:c]), c == 0, problems
    if name == "next":
        try:
            r = _b(next(f))
        except StopIteration:
            return b"", True, problems
        if r == b"":
            problems.append("next-yielded-empty")
        if b"\n" in r[:-1]:
            problems.append("readline-crossed-newline")
        return r, False, problems
    if name == "exhaust":
        return _b(f.exhaust()), True, problems
    if name == "readall":
        return _b(f.readall()), True, problems
    raise core.Broken(f"unknown op {op}")


# ------------------------------------------------------------------ one execution + monitor

def run_case(cfg, ch: E4.Chooser):
    """Run one configuration under one answer sequence; returns (violations, summary).

    violations: list of (signature, detail dict)."""
    n, limit, is_max, wrap, ri, ops = cfg
    sent = DATA[:n]
    env = (EnvRI if ri else Env)(sent, ch)
    if wrap.endswith("!V"):
        env.errkind = ValueError
    hooks = wrap_base(wrap) == "hooks"
    if hooks:
        ls = HooksLimitedStream(env, limit, is_max)
        ls.hook_log = []
    else:
        ls = LimitedStream(env, limit, is_max)
    f = wrap_stream(ls, wrap)
    got = b""
    viol: list = []
    outcome: list = []
    bare = wrap_base(wrap) in ("bare", "hooks")
    buffered = wrap_base(wrap).startswith("br")

    def bad(sig, **kw):
        kw["ncalls"] = len(env.calls)      # underlying calls made when the violation was observed
        viol.append((sig, kw))

    for idx, op in enumerate(ops):
        op = tuple(op)
        E4.arm(CPU_GUARD)
        start_total = len(got)
        start_err = env.err
        status = "ok"
        delivered = b""
        eof_ind = False
        exc_text = ""
        try:
            delivered, eof_ind, problems = apply_op(f, op)
        except ClientDisconnected:
            status, problems = "CD", []
        except RequestEntityTooLarge:
            status, problems = "RETL", []
        except Hang:
            status, problems = "HANG", []
        except Exception as e:  # noqa: BLE001 - any other type is "an unrelated exception"
            status, problems = "EXC", []
            exc_text = f"{type(e).__name__}: {e}"[:120]
        finally:
            E4.disarm()
        got += delivered
        total = len(got)
        outcome.append((status, delivered) if status == "ok" else (status, exc_text))
        injected = env.err > start_err
        L = limit
        n_eff = len(env.data)           # what the client really sent (shrinks on early EOF)
        where = f"op{idx}:{op[0]}"

        for p in problems:
            bad(p, op=idx)
        # ---- safety, whatever the outcome
        if not sent.startswith(got):
            bad("yielded-not-a-prefix-of-sent", op=idx)
        if total > L:
            bad("yielded-more-than-limit", op=idx)
        if env.pos > L:
            bad("over-read-underlying", op=idx, consumed=env.pos)
        if bare and ls._pos != env.pos:
            bad("pos-accounting-differs-from-consumed", op=idx, pos=ls._pos, consumed=env.pos)
        if bare:
            # the public face of the accounting
            if ls.tell() != env.pos:
                bad("tell-differs-from-consumed", op=idx, tell=ls.tell(), consumed=env.pos)
            if ls.is_exhausted != (env.pos >= L):
                bad("is_exhausted-wrong", op=idx, consumed=env.pos)
            if ls.readable() is not True or ls.closed:
                bad("readable-false", op=idx)
        elif buffered and status == "ok":
            try:
                t_ = f.tell()
            except Exception as e:  # noqa: BLE001
                t_ = repr(e)
            if t_ != total:
                bad("buffered-tell-differs-from-delivered", op=idx, tell=t_, delivered=total)
        if hooks:
            # hooks overridden to do nothing: every op must simply return (EOF instead of an exception)
            if status not in ("ok", "HANG"):
                bad("exception-although-hooks-do-nothing:" + status, op=idx, text=exc_text)
            if status == "HANG":
                bad("endless-read", op=idx)
            if status == "ok" and total != env.pos:
                bad("bytes-consumed-but-not-delivered", op=idx, consumed=env.pos, delivered=total)
            if status == "ok" and eof_ind and total < L and not (env.eof_seen or injected or env.err):
                bad("silent-truncation:eof-before-end-of-input", op=idx, total=total)
            if status != "ok":
                break
            continue
        if status == "ok":
            if bare and total != env.pos:
                bad("bytes-consumed-but-not-delivered", op=idx, consumed=env.pos, delivered=total)
            if total > env.pos:
                bad("delivered-more-than-consumed", op=idx)
        if status == "HANG":
            bad("endless-read", op=idx)
        elif status == "EXC":
            bad("unrelated-exception:" + exc_text.split(":")[0], op=idx, text=exc_text)
        # ---- an injected OSError must surface as ClientDisconnected
        if injected and status not in ("CD", "EXC", "HANG"):
            bad("oserror-not-surfaced-as-ClientDisconnected", op=idx, status=status)
        # ---- ClientDisconnected only when the client really went away
        if status == "CD" and not injected:
            if is_max:
                bad("ClientDisconnected-under-max-limit-without-error", op=idx)
            elif not (env.eof_seen and env.pos < L):
                bad("ClientDisconnected-without-disconnect", op=idx)
        # ---- RequestEntityTooLarge only when the maximum has been reached
        if status == "RETL":
            if not is_max:
                bad("RequestEntityTooLarge-without-max", op=idx)
            elif env.pos != L:
                bad("RequestEntityTooLarge-before-max-reached", op=idx, consumed=env.pos)
            elif bare and op in UNBOUNDED and op[0] != "readlines" and start_total < L and n_eff <= L:
                # a read-all started below the maximum on a body that is not longer than the maximum
                bad("RequestEntityTooLarge-for-body-within-max", op=idx)
        # ---- end-of-stream indications must be true
        if status == "ok" and (eof_ind or op in UNBOUNDED):
            if not is_max:
                if total != L:
                    # shorter than declared must be ClientDisconnected; longer must be cut at L
                    bad("silent-truncation:eof-before-declared-length", op=idx, total=total)
            else:
                if total == L:
                    if start_total == L and n_eff > L and op[0] != "exhaust":
                        # reading at the maximum while the client sent more: must be RETL
                        bad("silent-truncation:eof-at-max-with-more-sent", op=idx)
                elif not (env.eof_seen and total == env.pos == n_eff):
                    bad("silent-truncation:eof-before-end-of-input", op=idx, total=total)
        if status != "ok":
            break
    summary = (tuple(outcome), env.pos, tuple(env.calls))
    return viol, summary, env


# ------------------------------------------------------------------ part B: get_input_stream

CL_VALUES = [None, "0", "3", "5", "-1", "abc", "٣", " 3 ", "+3", "3.0", "1_0",
             "", "00", "007", "-0", "3 3", "0x3", "99999999999999999999", "3\t", "³"]
TE_VALUES = [None, "chunked", "Chunked", "gzip", "CHUNKED", " chunked", "gzip, chunked", "chunked, gzip", "identity", ""]
MCL_VALUES = [None, 0, 2, 3, 9]


def declared_lengths(cl, te):
    """Set of acceptable readings of the declared length (None = streaming)."""
    def plain(v):
        s = v.strip()
        if s and all(c in "0123456789" for c in s):
            return int(s)
        return 0                     # documented: not an integer, or negative -> 0
    if cl is None:
        return {None}
    if te == "chunked":
        return {None}
    if te is not None and "chunked" in te.lower():
        return {None, plain(cl)}     # statement silent on letter case / padding / coding lists: accept both readings
    return {plain(cl)}


def expected_b(declared, terminated, mcl, safe_fallback, body):
    """('RETL-early',) | ('stream', limit|None, is_max) | ('empty',)   per the docstring of get_input_stream."""
    if declared is not None and mcl is not None and declared > mcl:
        return ("RETL-early",)
    if terminated:
        if mcl is not None:
            return ("stream", mcl, True)
        return ("stream", None, False)
    if declared is None:
        return ("empty",) if safe_fallback else ("stream", None, False)
    return ("stream", declared, False)


def run_b(cfgb, ch: E4.Chooser):
    E4.arm(CPU_GUARD)
    try:
        return _run_b(cfgb, ch)
    finally:
        E4.disarm()


def _run_b(cfgb, ch: E4.Chooser):
    cl, te, term, mcl, sfb, n, via = cfgb
    sent = DATA[:n] if n <= len(DATA) else (DATA * 2)[:n]
    env_s = EnvRI(sent, ch)
    environ = {"wsgi.input": env_s, "REQUEST_METHOD": "POST"}
    if cl is not None:
        environ["CONTENT_LENGTH"] = cl
    if te is not None:
        environ["HTTP_TRANSFER_ENCODING"] = te
    if term:
        environ["wsgi.input_terminated"] = True
    try:
        if via == "get_data":
            s = None
        elif via == "request":
            class R(Request):
                max_content_length = mcl
            s = R(environ).stream
        else:
            s = get_input_stream(environ, safe_fallback=sfb, max_content_length=mcl)
    except RequestEntityTooLarge:
        return ("RETL-early", b"", env_s.pos, False), env_s
    except Hang:
        return ("HANG", b"", env_s.pos, False), env_s
    except Exception as e:  # noqa: BLE001
        return ("EXC-early:" + type(e).__name__, b"", env_s.pos, False), env_s
    got = b""
    status = "ok"
    if via == "get_data":
        # the whole-body accessor of the request object (one stream.read() inside)
        class R2(Request):
            max_content_length = mcl
        try:
            got = R2(environ).get_data()
        except ClientDisconnected:
            status = "CD"
        except RequestEntityTooLarge:
            status = "RETL"
        except Hang:
            status = "HANG"
        except Exception as e:  # noqa: BLE001
            status = "EXC:" + type(e).__name__
        return (status, got, env_s.pos, env_s.err > 0), env_s
    try:
        # read until the stream reports EOF (what a form parser does)
        for _ in range(MAX_CALLS):
            d = s.read(4)
            if not d:
                break
            got += d
        else:
            status = "HANG"
    except ClientDisconnected:
        status = "CD"
    except RequestEntityTooLarge:
        status = "RETL"
    except Hang:
        status = "HANG"
    except Exception as e:  # noqa: BLE001
        status = "EXC:" + type(e).__name__
    return (status, got, env_s.pos, env_s.err > 0), env_s


def check_b(cfgb, res, env_s):
    """Return list of violation signatures for one part-B execution."""
    cl, te, term, mcl, sfb, n, via = cfgb
    status, got, consumed, injected = res
    sent_eff = env_s.data
    out = []
    ok_any = False
    reasons = []
    for declared in declared_lengths(cl, te):
        exp = expected_b(declared, term, mcl, sfb, sent_eff)
        r = _match_b(exp, status, got, consumed, injected, sent_eff, env_s, via == "get_data")
        if r is None:
            ok_any = True
            break
        reasons.append(r)
    if not ok_any:
        out.append(reasons[0])
    return out


def _match_b(exp, status, got, consumed, injected, sent, env_s, whole=False):
    """whole: the body was fetched through Request.get_data() - one result or one exception."""
    if exp[0] == "RETL-early":
        if status != "RETL-early" and not (whole and status == "RETL"):
            return "declared-length-over-max-not-refused"
        if consumed or env_s.calls:
            return "input-read-although-declared-length-over-max"
        return None
    if status == "RETL-early":
        return "RequestEntityTooLarge-without-reason"
    if status == "HANG":
        return "input-stream:endless-read"
    if status.startswith("EXC") and not (status == "EXC:OSError" and injected and exp[0] == "stream" and exp[1] is None):
        return "input-stream:unrelated-exception"
    if exp[0] == "empty":
        if got or consumed or env_s.calls or status != "ok":
            return "no-usable-length-but-stream-not-empty"
        return None
    _k, limit, is_max = exp
    if not sent.startswith(got):
        return "input-stream:not-a-prefix"
    if limit is not None and (len(got) > limit or consumed > limit):
        return "input-stream:over-read"
    if injected:
        # raw (unwrapped) streams propagate the OSError itself
        if limit is None:
            return None if status == "EXC:OSError" else "input-stream:oserror-swallowed"
        return None if status == "CD" else "input-stream:oserror-not-ClientDisconnected"
    if limit is None:
        return None if (status == "ok" and got == sent) else "input-stream:raw-stream-truncated"
    if is_max:
        if len(sent) > limit:
            if whole and status == "ok" and got == sent[:limit]:
                return "get_data:longer-than-max-silently-truncated"
            return None if (status == "RETL" and (whole or got == sent[:limit])) else "input-stream:over-max-not-RETL"
        if len(sent) == limit:
            # cannot be told from "longer" without over-reading: both outcomes accepted
            if status == "RETL" and whole:
                return None
            return None if (status in ("ok", "RETL") and got == sent) else "input-stream:max-exact-wrong"
        return None if (status == "ok" and got == sent) else "input-stream:within-max-wrong"
    if len(sent) < limit:
        return None if (status == "CD" and sent.startswith(got)) else "input-stream:short-body-not-ClientDisconnected"
    return None if (status == "ok" and got == sent[:limit]) else "input-stream:declared-length-wrong"


# ------------------------------------------------------------------ part H: access histories on one Request

ACCESSES = ["get_data", "get_data-nocache", "get_data-text", "data", "stream.read", "get_data-parse"]


def whole_body_expectation(cl, term, mcl, sent):
    """What ONE whole-body access must do: set of ('data', bytes) | 'RETL' | 'CD' (docstring table of
    get_input_stream, truthful or lying declared length)."""
    declared = None if cl is None else int(cl)
    exp = expected_b(declared, term, mcl, True, sent)
    if exp[0] == "RETL-early":
        return {"RETL"}
    if exp[0] == "empty":
        return {("data", b"")}
    _k, limit, is_max = exp
    if limit is None:
        return {("data", sent)}
    if is_max:
        if len(sent) > limit:
            return {"RETL"}
        if len(sent) == limit:
            return {"RETL", ("data", sent)}
        return {("data", sent)}
    if len(sent) < limit:
        return {"CD"}
    return {("data", sent[:limit])}


def run_history(cfgh):
    """cfgh = (cl, term, mcl, n, accesses).  One Request, the accesses in order, exceptions swallowed.
    Returns list of outcomes: ('data', bytes) | 'RETL' | 'CD' | 'EXC:<type>'."""
    cl, term, mcl, n, accesses = cfgh
    sent = DATA[:n]
    environ = {"wsgi.input": EnvRI(sent, E4.Chooser(())), "REQUEST_METHOD": "POST", "CONTENT_TYPE": "text/plain"}
    if cl is not None:
        environ["CONTENT_LENGTH"] = cl
    if term:
        environ["wsgi.input_terminated"] = True

    class R(Request):
        max_content_length = mcl

    rq = R(environ)
    out = []
    for a in accesses:
        E4.arm(CPU_GUARD)
        try:
            if a == "get_data":
                r = rq.get_data()
            elif a == "get_data-nocache":
                r = rq.get_data(cache=False)
            elif a == "get_data-text":
                r = rq.get_data(as_text=True).encode("latin-1", "replace")
            elif a == "get_data-parse":
                r = rq.get_data(parse_form_data=True)
            elif a == "data":
                r = rq.data
            else:
                r = rq.stream.read()
            out.append(("data", bytes(r)))
        except ClientDisconnected:
            out.append("CD")
        except RequestEntityTooLarge:
            out.append("RETL")
        except Hang:
            out.append("EXC:Hang")
        except Exception as e:  # noqa: BLE001
            out.append("EXC:" + type(e).__name__)
        finally:
            E4.disarm()
    return out


def judge_history(cfgh, outs):
    """-> signature or None."""
    cl, term, mcl, n, accesses = cfgh
    sent = DATA[:n]
    exp = whole_body_expectation(cl, term, mcl, sent)
    datas = {e[1] for e in exp if isinstance(e, tuple)}
    refused = False
    for i, (a, o) in enumerate(zip(accesses, outs)):
        if isinstance(o, str) and o.startswith("EXC"):
            return "history:unrelated-exception"
        if o in ("RETL", "CD"):
            if o not in exp:
                return "history:" + o + "-not-justified"
            refused = refused or o == "RETL"
            continue
        d = o[1]
        if d == b"":
            if i == 0 and a != "stream.read" and not datas:
                return "history:first-access-returned-nothing-instead-of-" + sorted(exp)[0]
            continue                      # empty because consumed (or an empty body)
        if refused or exp == {"RETL"}:
            # the body is over the configured maximum: only the stream's own FIRST read may hand out the first
            # max_content_length bytes (stream contract, see module docstring) - never any access after a refusal
            if a == "stream.read" and i == 0 and sent.startswith(d) and len(d) <= (mcl or 0):
                continue
            return "history:body-prefix-returned-for-body-over-max_content_length"
        if a == "stream.read":
            if not sent.startswith(d):
                return "history:stream-data-not-a-prefix"
            continue
        if d not in datas:
            return "history:access-returned-something-else-than-the-body"
        if i == 0 and exp and ("data", d) not in exp:
            return "history:first-access-differs-from-single-access"
    return None


# ------------------------------------------------------------------ spaces / units

def tier_params(tier):
    """layers = (body lengths, op-sequence length, alphabet, variant); thorough is a superset of quick
    (a shorter op sequence is a prefix of a longer one and the monitor runs after every op).
    variant: std = the six wrappers, OSError faults; verr = the same with ValueError faults; hooks = subclass with
    no-op on_exhausted / on_disconnect."""
    if tier == "thorough":
        return dict(layers=[(range(0, 7), 3, "full", "std"), (range(0, 6), 4, "reduced", "std"),
                            (range(0, 4), 4, "all", "std"),
                            (range(0, 4), 3, "all", "verr"), (range(0, 5), 3, "full", "hooks")],
                    nb=(0, 2, 3, 5, 7))
    return dict(layers=[(range(0, 4), 3, "all", "std"), (range(0, 5), 2, "full", "std"),
                        (range(0, 2), 4, "reduced", "std"), (range(4, 5), 3, "reduced", "std"),
                        (range(0, 3), 2, "all", "verr"), (range(0, 3), 3, "reduced", "verr"), (range(0, 4), 2, "full", "hooks"),
                        (range(0, 2), 3, "full", "hooks"), (range(2, 3), 3, "reduced", "hooks")],
                nb=(0, 3, 5))


def limits_for(n):
    return sorted({x for x in (0, n - 1, n, n + 1, n + 3) if x >= 0})


def units(tier):
    P = tier_params(tier)
    us = []
    for ns, depth, which, variant in P["layers"]:
        alphabet = ALPHABETS[which]
        wraps = {"std": WRAPS, "verr": [w + "!V" for w in WRAPS], "hooks": ["hooks"]}[variant]
        for n in ns:
            for limit in limits_for(n):
                for is_max in (False, True):
                    for wrap in wraps:
                        for ri in (False, True):
                            for first in ops_for(wrap, alphabet):
                                us.append(("A", n, limit, is_max, wrap, ri, first, depth, which))
    for cl in CL_VALUES:
        for te in TE_VALUES:
            us.append(("B", cl, te, tuple(P["nb"])))
    for cl in (None, "2", "3", "5"):
        for term in (False, True):
            for mcl in (None, 3, 5):
                us.append(("H", cl, term, mcl))
    return us


def op_sequences(wrap, first, depth, which):
    alpha = ops_for(wrap, ALPHABETS[which])
    for rest in itertools.product(alpha, repeat=depth - 1):
        yield (tuple(first),) + tuple(rest)


# ------------------------------------------------------------------ unit runner

def run_unit(unit, R, tier):
    st = E4.Stats()
    if unit[0] == "A":
        _k, n, limit, is_max, wrap, ri, first, depth, which = unit
        R.use("wrap:" + wrap, "ri:%s" % ri, "max:%s" % is_max)
        for ops in op_sequences(wrap, first, depth, which):
            cfg = (n, limit, is_max, wrap, ri, ops)
            R.ev()
            first_exec = True
            for ch, (viol, summary, env_s) in E4.explore(lambda c: run_case(cfg, c), None, st, max_runs=200000):
                outcome = summary[0]
                for o in outcome:
                    R.use("status:" + o[0])
                for o, op in zip(outcome, ops):
                    if o[0] == "ok":
                        R.use("op-ok:" + op[0])
                    elif o[0] in ("CD", "RETL"):
                        R.use("op-raised:" + op[0])
                if env_s.early_eof:
                    R.use("env:early-eof")
                if env_s.err:
                    R.use("env:oserror" if env_s.errkind is OSError else "env:valueerror")
                if any(c for c in ch.choices):
                    R.use("env:short-read")
                    R.nontrivial((cfg, tuple(ch.choices)))
                elif outcome[-1][0] != "ok":
                    R.nontrivial((cfg, ()))
                R.outcome(tuple(o[0] for o in outcome))
                if first_exec and (R.counts["evaluations"] % 997 == 1):
                    R.sample({"config": dict(n=n, limit=limit, is_max=is_max, wrap=wrap, readinto=ri, ops=ops),
                              "answers": list(ch.choices), "underlying_calls": list(summary[2]),
                              "outcome": list(outcome)})
                first_exec = False
                for sig, kw in viol:
                    R.violation(
                        f"A:{wrap_kind(wrap)}:{sig}",
                        {"kind": "A", "cfg": cfg, "choices": list(ch.choices), "sig": sig, "detail": kw,
                         "outcome": list(outcome), "underlying_calls": list(summary[2]),
                         "consumed": summary[1]},
                    )
    elif unit[0] == "H":
        _k, cl, term, mcl = unit
        for n in (0, 3, 5):
            for accesses in itertools.chain.from_iterable(itertools.product(ACCESSES, repeat=k) for k in (1, 2, 3)):
                cfgh = (cl, term, mcl, n, accesses)
                R.ev()
                R.count("executions")
                R.count("histories")
                outs = run_history(cfgh)
                for o in outs:
                    R.use("H:" + (o if isinstance(o, str) else "data"))
                if len(accesses) > 1:
                    R.nontrivial(("H", cfgh))
                R.outcome(("H", tuple(o if isinstance(o, str) else "data" for o in outs)))
                sig = judge_history(cfgh, outs)
                if sig:
                    R.violation("H:" + sig, {"kind": "H", "cfg": cfgh, "sig": sig, "outcomes": outs})
    else:
        _k, cl, te, nb = unit
        for term in (False, True):
            for mcl in MCL_VALUES:
                for sfb in (True, False):
                    for n in nb:
                        for via in ("direct", "request", "get_data"):
                            if via != "direct" and not sfb:
                                continue
                            cfgb = (cl, te, term, mcl, sfb, n, via)
                            R.ev()
                            for ch, (res, env_s) in E4.explore(lambda c: run_b(cfgb, c), None, st, max_runs=200000):
                                R.use("B:" + res[0].split(":")[0])
                                R.outcome(("B", res[0]))
                                if any(ch.choices) or res[0] != "ok":
                                    R.nontrivial((cfgb, tuple(ch.choices)))
                                for sig in check_b(cfgb, res, env_s):
                                    R.violation("B:" + sig, {"kind": "B", "cfg": cfgb, "choices": list(ch.choices),
                                                             "sig": sig, "result": res,
                                                             "underlying_calls": list(env_s.calls)})
    R.count("states", st.states)
    R.count("transitions", st.transitions)
    R.count("executions", st.executions)
    R.count("max_depth_seen", 0)
    R.distinct("depths", st.max_depth)


def wrap_kind(wrap):
    wrap = wrap_base(wrap)
    if wrap == "hooks":
        return "hooks"
    return "bare" if wrap == "bare" else ("buffered" if wrap.startswith("br") else "text")


def finalize(R, tier):
    need = {"wrap:" + w for w in WRAPS} | {"wrap:hooks", "wrap:bare!V", "wrap:br2!V", "env:valueerror"} | {"ri:True", "ri:False", "max:True", "max:False",
            "status:ok", "status:CD", "status:RETL", "env:early-eof", "env:oserror", "env:short-read",
            "B:ok", "B:CD", "B:RETL", "B:RETL-early", "H:data", "H:RETL", "H:CD"}
    need |= {"op-ok:" + o[0] for o in OPS_FULL} | {"op-raised:" + o[0] for o in OPS_FULL}
    missing = need - R.used
    if missing:
        raise core.Broken(f"vacuity: never exercised {sorted(missing)}")
    if "status:HANG" in R.used and not R.viol:
        raise core.Broken("hang outcome seen but not reported")
    P = tier_params(tier)
    return {
        "bound": "; ".join(f"body length {min(ns)}..{max(ns)}: op sequences of length {d} over the {w} alphabet"
                           + ("" if v == "std" else f" [{v}]")
                           for ns, d, w, v in P["layers"]) + "; every environment answer sequence",
        "deviation_bound": "none (all answer sequences)",
        "exhaustive": True,
        "explanation": "for every configuration the complete tree of environment answers (short reads of every "
                       "length, early EOF, OSError at every call) was executed on the real LimitedStream; shorter op "
                       "sequences are prefixes of the enumerated ones and are checked by the per-op monitor",
    }


# ------------------------------------------------------------------ replay / findings

def replay(rec):
    if rec.get("kind") == "A":
        cfg = rec["cfg"]
        n, limit, is_max, wrap, ri, ops = cfg
        cfg = (n, limit, is_max, wrap, ri, tuple(tuple(o) for o in ops))
        ch = E4.Chooser(tuple(rec["choices"]))
        viol, summary, _env = run_case(cfg, ch)
        text = (f"LimitedStream(data={DATA[:n]!r}, limit={limit}, is_max={is_max}) wrapper={wrap} "
                f"underlying.readinto={ri}\nops={cfg[5]}\nenvironment answers (underlying calls)={list(summary[2])}\n"
                f"outcome={list(summary[0])}\nconsumed from underlying={summary[1]}\n"
                f"violations={[(s, k) for s, k in viol]}")
        return any(s == rec["sig"] for s, _ in viol), text
    if rec.get("kind") == "H":
        cl, term, mcl, n, accesses = rec["cfg"]
        cfgh = (cl, term, mcl, n, tuple(accesses))
        outs = run_history(cfgh)
        sig = judge_history(cfgh, outs)
        text = (f"one Request: CONTENT_LENGTH={cl!r} input_terminated={term} max_content_length={mcl} body sent="
                f"{DATA[:n]!r}\naccesses (exceptions swallowed) = {list(accesses)}\noutcomes = {outs}\n"
                f"a single whole-body access must give {sorted(map(str, whole_body_expectation(cl, term, mcl, DATA[:n])))}\n"
                f"violation = {sig}")
        return sig == rec["sig"], text
    if rec.get("kind") == "B":
        cfgb = tuple(rec["cfg"])
        ch = E4.Chooser(tuple(rec["choices"]))
        res, env_s = run_b(cfgb, ch)
        sigs = check_b(cfgb, res, env_s)
        cl, te, term, mcl, sfb, n, via = cfgb
        text = (f"CONTENT_LENGTH={cl!r} Transfer-Encoding={te!r} input_terminated={term} max_content_length={mcl} "
                f"safe_fallback={sfb} body={DATA[:n]!r} via={via}\nunderlying calls={list(env_s.calls)}\n"
                f"result (status, bytes read, consumed, injected)={res}\nviolations={sigs}")
        return rec["sig"] in sigs, text
    return True, rec.get("traceback", "unit exception")


def _is_temp_buffer_short_read(rec):
    """LimitedStream.readinto, underlying stream has readinto, caller buffer larger than the remaining
    limit (temp buffer path) and the underlying stream answered with fewer bytes than the temp buffer."""
    if rec.get("kind") != "A":
        return False
    n, limit, is_max, wrap, ri, ops = rec["cfg"]
    if not ri:
        return False
    sig = rec["sig"]
    if wrap == "bare":
        if sig != "readinto-resized-buffer":
            return False
    else:
        if not sig.startswith("unrelated-exception:ValueError"):
            return False
        if "memoryview assignment" not in rec["detail"].get("text", ""):
            return False
    calls = [tuple(c) for c in rec["underlying_calls"]][: rec["detail"].get("ncalls")]
    if not calls:
        return False
    kind, asked, ans = calls[-1]
    if kind != "readinto" or not isinstance(ans, int):
        return False
    taken_before = sum(c[2] for c in calls[:-1] if isinstance(c[2], int))
    # temp buffer path: asked exactly the remaining limit, answered short
    return asked == limit - taken_before and 0 < ans < asked


def _get_data_truncates(rec):
    """Request.get_data() on a server-terminated stream longer than max_content_length: the single
    stream.read() returns the first max_content_length bytes and no second read is attempted."""
    if rec.get("kind") != "B" or rec["sig"] != "get_data:longer-than-max-silently-truncated":
        return False
    cl, te, term, mcl, sfb, n, via = rec["cfg"]
    status, got, consumed, injected = rec["result"]
    return via == "get_data" and term and mcl is not None and status == "ok" and len(got) == mcl == consumed


FINDINGS = {
    "C09-readinto-temp-buffer-short-read": _is_temp_buffer_short_read,
    "C09-get-data-truncates-at-max-content-length": _get_data_truncates,
}

LEVEL_TEXT = (
    "Exhaustive exploration of the real LimitedStream against an adversarial underlying stream: for every "
    "configuration (data, limit, maximum/declared, buffering wrapper, readinto available or not, consumer op "
    "sequence) every possible sequence of environment answers - short reads of every length, early EOF, OSError at "
    "every call - is executed and a monitor checks after every op that nothing beyond the limit was yielded or "
    "consumed, that what was yielded is the prefix of what was sent, that end-of-stream indications are true, and "
    "that only ClientDisconnected / RequestEntityTooLarge surface, each only when justified. get_input_stream and "
    "Request.stream are checked over the full environ product. Unit tests read BytesIO with a few fixed call "
    "sequences; this covers all interleavings of read sizes and fragmentations below the bound."
)
LEVEL_NOTE = (
    "Trusted: the harness environment (blocking stream, sticky EOF, never None), the monitor, CPython's io "
    "wrappers. Bodies <= 6 bytes, <= 3 ops (4 over a reduced alphabet); a consumer stops at the first exception."
)
TECHNIQUE = "exhaustive environment-answer exploration (CHESS-style, unbounded deviations) with a per-operation monitor"
DESIGN_REF = "DESIGN.md §4 C09"
