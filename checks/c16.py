"""C16 - live views of response headers never drift from the header text.

E2 on a real Response: for every view family (cache_control, vary/allow/content_language,
www_authenticate, content_security_policy(+report-only), content_range, mimetype_params) the
state graph reachable through view mutations, whole-property assignments, direct header edits
and re-obtaining the view is explored (state = header list + retained view's own
representation + reference model; states rebuilt by replaying their shortest history on a
fresh Response).  After every step the header text - parsed by a small harness-side parser,
never by werkzeug - must mean exactly what the harness-side reference model says (absent when
the model is empty), the retained view and a freshly read property must hold the model's
contents, and typed getters must return the documented normal form.  Scalar typed properties
are checked by exhaustive short assignment histories.
"""
from __future__ import annotations

import itertools
from datetime import datetime, timedelta, timezone, tzinfo

from mc import core

ID = "C16"
LEVEL = "model_checking"
DESIGN_REF = "DESIGN.md §4 C16"
TECHNIQUE = "explicit-state exploration of view/property mutation histories on a real Response against harness-side view models"
RULE = (
    "per view family a graph over (response header list, retained view representation, model): every op of the "
    "family's alphabet (attribute set/del for every typed directive with True/False/None/0/5/'x', item assignment, "
    "add/remove/discard/clear/update/setitem/delitem with letter-case variants, token/type/parameter edits, "
    "set/unset, whole-property assignment of object/string/list/None, direct header edit, re-obtain the view; views "
    "stay retained across assignments and direct edits, so stale-view mutations are part of the graph) from "
    "every reachable state, closed under the unit's alphabet (cache-control: every unordered pair of the 13 "
    "directives) or to the stated depth; scalar properties: every op sequence up to the depth over "
    "assign/delete/direct-edit. non-trivial = distinct (family, state, op) that changed header or view."
)
ASSUMPTIONS = [
    "header text is judged by harness-side parsers against a harness-side model, never by view.to_header() alone",
    "a retained view is kept across edits through another door (property assignment, direct header edit); what is "
    "demanded after a later mutation of that view is: the header is rewritten from the view's own contents, merged "
    "with the part of the header the view does not stand for (mimetype_params: the media type the header had just "
    "before the view op must survive). A call that leaves the view's contents unchanged may or may not rewrite a "
    "header that differs from the view",
    "ill-typed values (bool directive = 'x'/5, int directive = True/'x') may raise ValueError/TypeError leaving "
    "everything unchanged, or be coerced; only coherence is demanded for them",
    "WWWAuthenticate with neither token nor parameters, or with both, is outside the model (serialisation does not "
    "round-trip / documentation says only one should be set): no header demand in those states",
    "ContentRange attribute assignments are only explored when the resulting (start, stop, length) is a valid range",
    "item values are header tokens (quoting is C06's subject); set items assigned directly never contain "
    "case-insensitive duplicates; assigning None to a generic header_property is not explored (use del)",
]
LEVEL_TEXT = (
    "Explicit-state exploration of the real Response and its view objects: every operation from every reachable "
    "state of each view family, with header text, retained view and re-read property compared with a reference "
    "model after every step. The unit tests set one attribute and look once; drift needs histories."
)
LEVEL_NOTE = (
    "Trusted: the per-view reference models and the small header parsers in this file. Alphabets are small "
    "(tokens, two or three items/directives per graph); nothing is claimed beyond them."
)

from werkzeug.datastructures import (  # noqa: E402
    ContentRange, ContentSecurityPolicy, HeaderSet, WWWAuthenticate,
)
from werkzeug.http import COEP, COOP  # noqa: E402
from werkzeug.sansio.response import Response  # noqa: E402


def cat(e):
    if isinstance(e, KeyError):
        return "KeyError"
    if isinstance(e, IndexError):
        return "IndexError"
    return type(e).__name__


def thaw(o):
    if isinstance(o, (list, tuple)):
        return tuple(thaw(x) for x in o)
    return o


def unq(v):
    v = v.strip()
    if len(v) >= 2 and v[0] == v[-1] == '"':
        return v[1:-1].replace("\\\\", "\\").replace('\\"', '"')
    return v


def split_top(text, sep):
    """Split on sep outside double quotes."""
    out, cur, q, esc = [], [], False, False
    for ch in text:
        if esc:
            cur.append(ch)
            esc = False
        elif q and ch == "\\":
            cur.append(ch)
            esc = True
        elif ch == '"':
            q = not q
            cur.append(ch)
        elif ch == sep and not q:
            out.append("".join(cur))
            cur = []
        else:
            cur.append(ch)
    out.append("".join(cur))
    return [x.strip() for x in out if x.strip()]


def parse_kv_list(text, sep=","):
    """'a=1, b, c="x y"' -> [('a','1'),('b',None),('c','x y')]"""
    out = []
    for item in split_top(text, sep):
        if "=" in item:
            k, v = item.split("=", 1)
            out.append((k.strip(), unq(v)))
        else:
            out.append((item, None))
    return out


class Ctx:
    __slots__ = ("r", "view")

    def __init__(self):
        self.r = Response()
        self.view = None


class Skip(Exception):
    """op not enabled in this model state"""


class Exp:
    """What the model expects from one step."""
    __slots__ = ("model", "exc", "lenient", "drop", "readback", "nocheck")

    def __init__(self, model, exc=None, lenient=False, drop=False, readback=None, nocheck=False):
        self.model = model
        self.exc = exc            # None or set of acceptable exception categories (state unchanged)
        self.lenient = lenient    # ill-typed: raise ValueError/TypeError unchanged, or coerce (model := view)
        self.drop = drop          # the retained view stops being live
        self.readback = readback  # (getter(view), expected) checked right after the op
        self.nocheck = nocheck


class Family:
    name = ""
    header = ""
    depth = None        # None: run to the fixpoint of the alphabet / size bound
    big = False         # thorough tier: larger alphabet / size bound

    def get(self, r):
        raise NotImplementedError

    def init_model(self):
        raise NotImplementedError

    def content(self, model):
        """comparable content of the model; None = empty (header must be absent)"""
        raise NotImplementedError

    def valid(self, model):
        return True

    def snap(self, view):
        """content of a view in the model's terms"""
        raise NotImplementedError

    def vrep(self, view):
        raise NotImplementedError

    def parse(self, text):
        raise NotImplementedError

    def size_ok(self, model):
        return True

    def typed(self, view, model):
        """-> list of (name, got, expected) for typed getters"""
        return []

    def model_from_view(self, view, model):
        raise NotImplementedError

    def mrep(self, model):
        return repr(model)

    def serial(self, view):
        return view.to_header()

    def max_lines(self, model):
        return 1

    def view_enabled(self, hp):
        return True

    def fresh_model(self, hp):
        """the model of a view freshly read from a header described by hp"""
        return hp

    def merge(self, hp, vp):
        """header model after the view (contents vp) rewrote the header"""
        return vp

    def door_view(self, op):
        """what a property assignment / direct edit does to the retained view: keep | link | drop"""
        return "keep"

    def expandable(self, m):
        return self.valid(m)

    STRICT = {"attr", "set", "set3", "unset", "item_set", "setitem", "type_set", "token_set", "params_assign", "params_item"}

    def strict(self, op):
        """is op an assignment (header must equal the view's serialisation afterwards even if nothing changed)?"""
        if op[0] == "attr_set":
            return op[2] is not None and op[2] is not False     # None / False mean "remove": removing nothing is a no-op
        return op[0] in self.STRICT


# ----------------------------------------------------------------------------- engine

def view_of(fam, ctx):
    if ctx.view is None:
        ctx.view = fam.get(ctx.r)
    return ctx.view


def hdr_snapshot(ctx):
    return tuple(ctx.r.headers)


DOOR_OPS = {"assign", "hdr_set", "hdr_del", "delprop", "mimetype_set", "ctype_set"}


def step(fam, ctx, M, op, check=True):
    """Apply op to the real response and to the model.  M = (hp, vp): hp is the family model of the header,
    vp the family model of the retained view's own contents (None: no view retained).  A view stays retained
    when the header is changed through another door (property assignment, direct edit); what is demanded
    after a later mutation of that view is that the header is rewritten from the *view's* contents (merged
    with whatever part of the header the view does not stand for, e.g. the media type for mimetype_params).
    -> (violations, new M or None if pruned)"""
    out = []
    hp, vp = M
    n = op[0]
    door = n in DOOR_OPS
    if door or n == "reobtain":
        exp = fam.expect(hp, op)            # may raise Skip
        base = None
    else:
        if not fam.view_enabled(hp):
            raise Skip()
        base = vp if vp is not None else fam.fresh_model(hp)
        exp = fam.expect(base, op)
    before_hdr = hdr_snapshot(ctx)
    before_view = fam.vrep(ctx.view) if ctx.view is not None else None
    try:
        fam.apply(ctx, op)
        res = None
    except Exception as e:  # noqa: BLE001
        res = cat(e)

    def bad(check_name, expd, got):
        out.append((f"{fam.name}:{op[0]}:{check_name}",
                    {"family": fam.name, "params": fam.params, "check": check_name, "op": op, "exp": expd, "got": got}))

    def unchanged():
        # the op failed / was refused: the view (possibly just obtained) keeps its contents
        return (hp, base if (ctx.view is not None and base is not None) else vp)

    cands = None
    new = exp.model
    if exp.lenient:
        if res in ("ValueError", "TypeError"):
            if hdr_snapshot(ctx) != before_hdr or (before_view is not None and fam.vrep(ctx.view) != before_view):
                bad("rejected-but-changed", (before_hdr, before_view), (hdr_snapshot(ctx), fam.vrep(ctx.view)))
                return out, None
            cands = [unchanged()]
        elif res is None:
            new = fam.model_from_view(ctx.view, base)
        else:
            bad("raised", "ValueError/TypeError or accepted", res)
            return out, None
    elif exp.exc:
        if res not in exp.exc:
            bad("wrong-outcome", sorted(exp.exc), res or "returned")
            return out, None
        if hdr_snapshot(ctx) != before_hdr:
            bad("failed-but-changed", before_hdr, hdr_snapshot(ctx))
            return out, None
        cands = [unchanged()]
    elif res is not None:
        bad("raised", "no exception", res)
        return out, None
    if cands is None:
        if n == "reobtain":
            cands = [(new, new)]
        elif door:
            how = fam.door_view(op)
            if how == "drop":
                ctx.view = None
            cands = [(new, new if how == "link" else None if how == "drop" else vp)]
        else:
            fired = fam.merge(hp, new)
            cands = [(fired, new)]
            if fam.view_content(new) == fam.view_content(base) and fired != hp and (exp.lenient or not fam.strict(op)):
                # a container call that did not change the view's contents (clear() on an empty view, pop of a
                # missing key ...): whether a stale header is rewritten is not stated.  An attribute or item
                # ASSIGNMENT is a mutation step even when the value equals what the view holds: no leniency.
                cands.append((hp, new))
    if exp.nocheck or not check:
        if len(cands) > 1:
            cands = [c for c in cands if not coherence(fam, ctx, c, op)] or cands
        return out, cands[0]
    if exp.readback is not None and res is None and ctx.view is not None:
        getter, want = exp.readback
        try:
            got = getter(ctx.view)
        except Exception as e:  # noqa: BLE001
            got = ("exc", cat(e))
        if got != want or type(got) is not type(want):
            bad("readback", want, got)
    wrote = hdr_snapshot(ctx) != before_hdr and not door
    results = [(c, coherence(fam, ctx, c, op, wrote)) for c in cands]
    clean = [c for c, v in results if not v]
    if clean and not out:
        return out, clean[0]
    out += results[0][1]
    return out, None


def coherence(fam, ctx, M, op, wrote=False):
    out = []
    hp, vp = M

    def bad(check_name, expd, got):
        out.append((f"{fam.name}:{op[0]}:{check_name}",
                    {"family": fam.name, "params": fam.params, "check": check_name, "op": op, "exp": expd, "got": got,
                     "header_model": hp, "view_model": vp}))

    want = fam.content(hp)
    if (ctx.view is None) != (vp is None):
        raise core.Broken(f"{fam.name}: harness lost track of the retained view at {op}")
    if ctx.view is not None:
        got = fam.snap(ctx.view)
        if got != fam.view_content(vp):
            bad("view-content", fam.view_content(vp), got)
    if not fam.valid(hp):
        return out
    text = ctx.r.headers.get(fam.header)
    nlines = len(ctx.r.headers.getlist(fam.header))
    if nlines > fam.max_lines(hp):
        bad("header-repeated", fam.max_lines(hp), nlines)
        return out
    if want is None:
        if text is not None:
            bad("header-not-removed", None, text)
    else:
        if text is None:
            bad("header-missing", want, None)
        else:
            try:
                parsed = fam.parse(text)
            except Exception as e:  # noqa: BLE001
                parsed = ("unparsable", text, cat(e))
            if parsed != want:
                bad("header-text", want, text)
            elif wrote and ctx.view is not None and fam.serial(ctx.view) not in (None, text):
                bad("header-vs-view-serialisation", fam.serial(ctx.view), text)
    try:
        fresh = fam.get(ctx.r)
        got = fam.snap(fresh)
    except Exception as e:  # noqa: BLE001
        fresh, got = None, ("exc", cat(e))
    if got != fam.fresh_content(hp):
        bad("reread", fam.fresh_content(hp), got)
    for v, label, m in ((ctx.view, "view", vp), (fresh, "fresh", fam.fresh_model(hp))):
        if v is None:
            continue
        for name, g, w in fam.typed(v, m):
            if g != w or type(g) is not type(w):
                bad("typed:" + label, (name, w), (name, g))
                break
    return out


def rebuild(fam, hist):
    ctx = Ctx()
    model = (fam.init_model(), None)
    for op in hist:
        _v, model = step(fam, ctx, model, op, check=False)
        if model is None:
            raise core.Broken(f"{fam.name}: history {hist} no longer replays")
    return ctx, model


def canon(fam, ctx, M):
    return (hdr_snapshot(ctx), fam.vrep(ctx.view) if ctx.view is not None else None,
            fam.mrep(M[0]), fam.mrep(M[1]) if M[1] is not None else None)


def m_ok(fam, M, pred):
    return pred(M[0]) and (M[1] is None or pred(M[1]))


STATE_CAP = 60000


def explore(fam, R):
    """BFS with merging on canon; -> closed?"""
    ctx0, m0 = rebuild(fam, ())
    seen = {canon(fam, ctx0, m0)}
    frontier = [()]
    closed = True
    ops = fam.ops()
    depth = 0
    while frontier:
        nxt = []
        for hist in frontier:
            R.count("states")
            for op in ops:
                ctx, model = rebuild(fam, hist)
                R.count("executions", len(hist))
                c0 = canon(fam, ctx, model)
                try:
                    vs, new = step(fam, ctx, model, op)
                except Skip:
                    R.use(("skip", fam.name, op[0]))
                    continue
                R.count("transitions")
                R.count("executions")
                R.ev()
                R.use(("op", fam.name, op[0]))
                for sig, rec in vs:
                    rec["history"] = hist
                    R.violation(sig, rec)
                after = (hdr_snapshot(ctx), fam.vrep(ctx.view) if ctx.view is not None else None)
                if after != c0[:2]:
                    R.nontrivial((fam.name, fam.params, c0, op))
                    R.use(("changed", fam.name, op[0]))
                if new is None:
                    continue
                c1 = canon(fam, ctx, new)
                R.outcome((fam.name, c1[0]))
                if c1 in seen or not m_ok(fam, new, fam.size_ok) or not m_ok(fam, new, fam.expandable):
                    continue
                seen.add(c1)
                if len(seen) > STATE_CAP:
                    R.violation(f"{fam.name}:graph:state-cap",
                                {"family": fam.name, "params": fam.params, "check": "state-cap", "op": op, "history": hist,
                                 "exp": f"a finite graph (<= {STATE_CAP} states)", "got": "still growing"})
                    return False, len(seen)
                if fam.depth is not None and depth + 1 >= fam.depth:
                    closed = False
                    continue
                nxt.append(hist + (op,))
        frontier = nxt
        depth += 1
    if fam.depth is None or closed:
        R.use(("closed", fam.name))
    R.distinct("graph_states", (fam.name, fam.params, len(seen)))
    return closed, len(seen)


# ----------------------------------------------------------------------------- set-valued headers

SET_ATOMS = ["foo", "Foo", "FOO", "bar", "Bar", "baz"]


class SetFam(Family):
    def __init__(self, prop, header):
        self.name = "set:" + prop
        self.prop = prop
        self.header = header
        self.params = (prop,)

    def get(self, r):
        return getattr(r, self.prop)

    def init_model(self):
        return ()

    def content(self, m):
        return list(m) or None

    def view_content(self, m):
        return list(m)

    fresh_content = view_content

    def snap(self, v):
        return list(v)

    def vrep(self, v):
        return (tuple(v._headers), tuple(sorted(v._set)))

    def parse(self, text):
        return [unq(x) for x in split_top(text, ",")]

    def size_ok(self, m):
        return len(m) <= (4 if self.big else 3)

    def mrep(self, m):
        return m

    def typed(self, v, m):
        lows = [x.lower() for x in m]
        return [("len", len(v), len(m)), ("bool", bool(v), bool(m))] + \
               [("in:" + a, a in v, a.lower() in lows) for a in ("FOO", "bar", "qux")]

    def ops(self):
        ops = []
        for x in SET_ATOMS + (["BAZ", "qux"] if self.big else []):
            ops += [("add", x), ("remove", x), ("discard", x)]
        ops += [("clear",), ("update", ("foo", "Bar")), ("update", ("BAZ", "baz", "Foo")), ("update", ())]
        for i in (0, 1, -1):
            ops.append(("delitem", i))
            for x in ("Foo", "bar", "baz", "qux"):
                ops.append(("setitem", i, x))
        ops += [("setitem", 5, "foo"), ("delitem", 5)]
        ops += [("assign", "none", None), ("assign", "str", "foo, Bar"), ("assign", "str", ""), ("assign", "list", ("baz", "foo")),
                ("assign", "list", ()), ("assign", "hs", ("Foo", "bar")), ("assign", "tuple", ("bar",)),
                ("assign", "hs", ()), ("assign", "tuple", ()),
                ("hdr_set", "baz, Foo"), ("hdr_set", "qux"), ("hdr_del",), ("reobtain",)]
        return ops

    def apply(self, ctx, op):
        n = op[0]
        r = ctx.r
        if n == "assign":
            kind, val = op[1], op[2]
            if kind == "list":
                val = list(val)
            elif kind == "hs":
                val = HeaderSet(list(val))
            setattr(r, self.prop, val)
            return
        if n == "hdr_set":
            r.headers[self.header] = op[1]
            return
        if n == "hdr_del":
            r.headers.pop(self.header, None)
            return
        if n == "reobtain":
            ctx.view = None
            view_of(self, ctx)
            return
        v = view_of(self, ctx)
        if n == "add":
            v.add(op[1])
        elif n == "remove":
            v.remove(op[1])
        elif n == "discard":
            v.discard(op[1])
        elif n == "clear":
            v.clear()
        elif n == "update":
            v.update(list(op[1]))
        elif n == "setitem":
            v[op[1]] = op[2]
        elif n == "delitem":
            del v[op[1]]
        else:
            raise core.Broken(op)

    def expect(self, m, op):
        n = op[0]
        l = list(m)
        lows = [x.lower() for x in l]
        if n == "assign":
            kind, val = op[1], op[2]
            if kind in ("none",) or not val:
                return Exp((), drop=True)
            if kind == "str":
                return Exp(tuple(self.parse(val)), drop=True)
            return Exp(tuple(val), drop=True)
        if n == "hdr_set":
            return Exp(tuple(self.parse(op[1])), drop=True)
        if n == "hdr_del":
            return Exp((), drop=True)
        if n == "reobtain":
            return Exp(m)
        if n in ("add", "update"):
            for x in ((op[1],) if n == "add" else op[1]):
                if x.lower() not in [y.lower() for y in l]:
                    l.append(x)
            return Exp(tuple(l))
        if n in ("remove", "discard"):
            if op[1].lower() not in lows:
                return Exp(m, exc={"KeyError"}) if n == "remove" else Exp(m)
            del l[lows.index(op[1].lower())]
            return Exp(tuple(l))
        if n == "clear":
            return Exp(())
        if n == "delitem":
            if not -len(l) <= op[1] < len(l):
                return Exp(m, exc={"IndexError"})
            del l[op[1]]
            return Exp(tuple(l))
        if n == "setitem":
            i, x = op[1], op[2]
            if not -len(l) <= i < len(l):
                return Exp(m, exc={"IndexError"})
            i %= len(l)
            if any(j != i and y.lower() == x.lower() for j, y in enumerate(l)):
                raise Skip()        # would create a case-insensitive duplicate: C08's subject, not drift
            l[i] = x
            return Exp(tuple(l))
        raise core.Broken(op)


# ----------------------------------------------------------------------------- dict-shaped views

class DictFam(Family):
    """CallbackDict based views: model = tuple of (key, value) pairs in dict order."""

    def init_model(self):
        return ()

    def mrep(self, m):
        return m

    def content(self, m):
        return list(m) or None

    def view_content(self, m):
        return list(m)

    fresh_content = view_content

    def snap(self, v):
        return list(v.items())

    def vrep(self, v):
        return tuple(dict.items(v))

    def dict_ops(self, keys, values):
        ops = []
        for k in keys:
            for v in values:
                ops += [("item_set", k, v), ("setdefault", k, v), ("update", ((k, v),)), ("ior", ((k, v),))]
            ops += [("item_del", k), ("pop", k), ("pop_d", k)]
        ops += [("popitem",), ("clear",)]
        return ops

    def dict_apply(self, v, op):
        n = op[0]
        if n == "item_set":
            v[op[1]] = op[2]
        elif n == "setdefault":
            v.setdefault(op[1], op[2])
        elif n == "update":
            v.update(dict(op[1]))
        elif n == "ior":
            v |= dict(op[1])
        elif n == "item_del":
            del v[op[1]]
        elif n == "pop":
            v.pop(op[1])
        elif n == "pop_d":
            v.pop(op[1], None)
        elif n == "popitem":
            v.popitem()
        elif n == "clear":
            v.clear()
        else:
            return False
        return True

    def dict_expect(self, m, op):
        n = op[0]
        d = dict(m)
        if n == "item_set":
            d[op[1]] = op[2]
        elif n == "setdefault":
            d.setdefault(op[1], op[2])
        elif n in ("update", "ior"):
            d.update(dict(op[1]))
        elif n in ("item_del", "pop"):
            if op[1] not in d:
                return Exp(m, exc={"KeyError"})
            del d[op[1]]
        elif n == "pop_d":
            d.pop(op[1], None)
        elif n == "popitem":
            if not d:
                return Exp(m, exc={"KeyError"})
            d.popitem()
        elif n == "clear":
            d.clear()
        else:
            return None
        return Exp(tuple(d.items()))


CC_DIRECTIVES = {
    # attribute: (header key, kind)
    "no_store": ("no-store", "bool"), "no_transform": ("no-transform", "bool"), "public": ("public", "bool"),
    "must_revalidate": ("must-revalidate", "bool"), "proxy_revalidate": ("proxy-revalidate", "bool"),
    "immutable": ("immutable", "bool"), "must_understand": ("must-understand", "bool"),
    "max_age": ("max-age", "int"), "s_maxage": ("s-maxage", "int"), "stale_if_error": ("stale-if-error", "int"),
    "stale_while_revalidate": ("stale-while-revalidate", "int"),
    "no_cache": ("no-cache", "str"), "private": ("private", "str"),
}
CC_VALUES = (True, False, None, 0, 1, 5, "x", "")


def cc_typed_get(d, key, kind):
    if kind == "bool":
        return key in d
    if key not in d:
        return None
    v = d[key]
    if kind == "int":
        if v is None:
            return None
        try:
            return int(v)
        except ValueError:
            return None
    return True if v is None else v


class CCFam(DictFam):
    header = "Cache-Control"

    def __init__(self, *attrs):
        self.name = "cache_control"
        self.attrs = tuple(attrs)
        self.params = tuple(attrs)
        self.keys = [CC_DIRECTIVES[a][0] for a in self.attrs]

    def get(self, r):
        return r.cache_control

    def parse(self, text):
        return parse_kv_list(text)

    def typed(self, v, m):
        d = dict(m)
        return [(a, getattr(v, a), cc_typed_get(d, *CC_DIRECTIVES[a])) for a in self.attrs]

    def model_from_view(self, v, m):
        return tuple(dict.items(v))

    def strict(self, op):
        if op[0] == "attr_set" and CC_DIRECTIVES[op[1]][1] == "bool":
            return bool(op[2])          # a falsy value removes the directive: removing nothing is a no-op
        return Family.strict(self, op)

    def ops(self):
        ops = []
        for a in self.attrs:
            ops += [("attr_set", a, val) for val in CC_VALUES] + [("attr_del", a)]
        ops += self.dict_ops(self.keys, ("7", None))
        k1, k2 = self.keys[0], self.keys[-1]
        ops += [("hdr_set", f"{k1}=5, {k2}"), ("hdr_set", k2), ("hdr_del",), ("reobtain",)]
        return ops

    def apply(self, ctx, op):
        n = op[0]
        if n == "hdr_set":
            ctx.r.headers[self.header] = op[1]
            return
        if n == "hdr_del":
            ctx.r.headers.pop(self.header, None)
            return
        if n == "reobtain":
            ctx.view = None
            view_of(self, ctx)
            return
        v = view_of(self, ctx)
        if n == "attr_set":
            setattr(v, op[1], op[2])
        elif n == "attr_del":
            delattr(v, op[1])
        elif not self.dict_apply(v, op):
            raise core.Broken(op)

    def expect(self, m, op):
        n = op[0]
        if n == "hdr_set":
            return Exp(tuple(self.parse(op[1])), drop=True)
        if n == "hdr_del":
            return Exp((), drop=True)
        if n == "reobtain":
            return Exp(m)
        d = dict(m)
        if n == "attr_del":
            d.pop(CC_DIRECTIVES[op[1]][0], None)
            return Exp(tuple(d.items()))
        if n == "attr_set":
            a, val = op[1], op[2]
            key, kind = CC_DIRECTIVES[a]
            getter = lambda v, a=a: getattr(v, a)  # noqa: E731
            if kind == "bool":
                # every value is in scope for a bool directive; the normal form is bool(value):
                # truthy -> the bare directive is present, falsy (False, None, 0, '') -> it is absent
                if val:
                    d[key] = None
                else:
                    d.pop(key, None)
                return Exp(tuple(d.items()), readback=(getter, bool(val)))
            if val is None or val is False:
                d.pop(key, None)
                return Exp(tuple(d.items()), readback=(getter, None))
            if kind == "int":
                if val is True or not isinstance(val, int):
                    return Exp(m, lenient=True)
                d[key] = str(val)
                return Exp(tuple(d.items()), readback=(getter, val))
            # str-or-True directives (no-cache, private): documented to convert the value to a string
            if val is True:
                d[key] = None
                return Exp(tuple(d.items()), readback=(getter, True))
            d[key] = str(val)
            return Exp(tuple(d.items()), readback=(getter, str(val)))
        e = self.dict_expect(m, op)
        if e is None:
            raise core.Broken(op)
        return e


CSP_ATTRS = {"default_src": "default-src", "script_src": "script-src", "img_src": "img-src"}
CSP_VALUES = ("'self'", "a b", "*")


class CSPFam(DictFam):
    def __init__(self, prop, header):
        self.name = "csp:" + prop
        self.prop = prop
        self.header = header
        self.params = (prop,)
        self.keys = list(CSP_ATTRS.values()) + ["x-y"]

    def get(self, r):
        return getattr(r, self.prop)

    def parse(self, text):
        out = []
        for item in text.split(";"):
            item = item.strip()
            if item:
                k, _, v = item.partition(" ")
                out.append((k, v.strip()))
        return out

    def size_ok(self, m):
        return len(m) <= (3 if self.big else 2)

    def typed(self, v, m):
        d = dict(m)
        return [(a, getattr(v, a), d.get(k)) for a, k in CSP_ATTRS.items()]

    def ops(self):
        ops = []
        for a in CSP_ATTRS:
            ops += [("attr_set", a, val) for val in CSP_VALUES + (None,)] + [("attr_del", a)]
        ops += self.dict_ops(self.keys[:2] + ["x-y"], CSP_VALUES[:2])
        # not generated: a directive with an EMPTY value. parse_csp_header documents "ignore badly formatted
        # policies (no space)" and the suite pins it ("...; img-src" -> img_src is None), so '' is outside the
        # view's value domain rather than a drift.
        ops += [("assign", "none", None), ("assign", "str", "img-src *; default-src 'self'"), ("assign", "str", ""),
                ("assign", "obj", (("script-src", "*"),)), ("assign", "obj", ()),
                ("hdr_set", "script-src a b"), ("hdr_del",), ("reobtain",)]
        return ops

    def apply(self, ctx, op):
        n = op[0]
        if n == "assign":
            val = op[2]
            if op[1] == "obj":
                val = ContentSecurityPolicy(list(val))
            setattr(ctx.r, self.prop, val)
            return
        if n == "hdr_set":
            ctx.r.headers[self.header] = op[1]
            return
        if n == "hdr_del":
            ctx.r.headers.pop(self.header, None)
            return
        if n == "reobtain":
            ctx.view = None
            view_of(self, ctx)
            return
        v = view_of(self, ctx)
        if n == "attr_set":
            setattr(v, op[1], op[2])
        elif n == "attr_del":
            delattr(v, op[1])
        elif not self.dict_apply(v, op):
            raise core.Broken(op)

    def expect(self, m, op):
        n = op[0]
        if n == "assign":
            if not op[2]:
                return Exp((), drop=True)
            if op[1] == "str":
                return Exp(tuple(self.parse(op[2])), drop=True)
            return Exp(tuple(op[2]), drop=True)
        if n == "hdr_set":
            return Exp(tuple(self.parse(op[1])), drop=True)
        if n == "hdr_del":
            return Exp((), drop=True)
        if n == "reobtain":
            return Exp(m)
        d = dict(m)
        if n == "attr_del":
            d.pop(CSP_ATTRS[op[1]], None)
            return Exp(tuple(d.items()))
        if n == "attr_set":
            a, val = op[1], op[2]
            if val is None:
                d.pop(CSP_ATTRS[a], None)
            else:
                d[CSP_ATTRS[a]] = val
            return Exp(tuple(d.items()), readback=(lambda v, a=a: getattr(v, a), val))
        e = self.dict_expect(m, op)
        if e is None:
            raise core.Broken(op)
        return e


class MimeFam(DictFam):
    """model = (mimetype or None, params pairs)"""
    name = "mimetype_params"
    header = "Content-Type"
    params = ()

    def get(self, r):
        return r.mimetype_params

    def init_model(self):
        return ("text/plain", (("charset", "utf-8"),))

    def content(self, m):
        return None if m[0] is None else (m[0], list(m[1]))

    def view_content(self, m):
        return list(m[1])

    fresh_content = view_content

    def valid(self, m):
        return True

    def view_enabled(self, hp):
        return hp[0] is not None    # parameters without a content type: nothing is documented

    def merge(self, hp, vp):
        # the view stands for the parameters only: the media type is whatever the header says *now*
        return (hp[0], vp[1])

    def parse(self, text):
        parts = split_top(text, ";")
        return (parts[0], [(k.lower(), v) for k, v in parse_kv_list(";".join(parts[1:]), ";")])

    def size_ok(self, m):
        return len(m[1]) <= (3 if self.big else 2)

    def typed(self, v, m):
        return []

    def serial(self, view):
        return None

    def ops(self):
        ops = self.dict_ops(["charset", "boundary", "x"], ("utf-8", "a b", ""))
        ops += [("mimetype_set", "text/html"), ("mimetype_set", "application/json"), ("ctype_set", "text/x; a=b; charset=z"),
                ("hdr_del",), ("reobtain",)]
        return ops

    def apply(self, ctx, op):
        n = op[0]
        if n == "mimetype_set":
            ctx.r.mimetype = op[1]
            return
        if n == "ctype_set":
            ctx.r.content_type = op[1]
            return
        if n == "hdr_del":
            del ctx.r.headers["Content-Type"]
            return
        if n == "reobtain":
            ctx.view = None
            view_of(self, ctx)
            return
        if not self.dict_apply(view_of(self, ctx), op):
            raise core.Broken(op)

    def expect(self, m, op):
        n = op[0]
        if n == "mimetype_set":
            p = (("charset", "utf-8"),) if op[1].startswith("text/") else ()
            return Exp((op[1], p), drop=True)
        if n == "ctype_set":
            mt, p = self.parse(op[1])
            return Exp((mt, tuple(p)), drop=True)
        if n == "hdr_del":
            return Exp((None, ()), drop=True)
        if n == "reobtain":
            return Exp(m)
        e = self.dict_expect(m[1], op)
        if e is None:
            raise core.Broken(op)
        if e.exc:
            return Exp(m, exc=e.exc)
        return Exp((m[0], e.model))

    def mrep(self, m):
        return m


# ----------------------------------------------------------------------------- WWW-Authenticate

class WWWFam(Family):
    """model = (type, token, params pairs)"""
    name = "www_authenticate"
    header = "WWW-Authenticate"
    params = ()

    def get(self, r):
        return r.www_authenticate

    def init_model(self):
        return ("basic", None, (), 1)

    def max_lines(self, m):
        return m[3]

    def expandable(self, m):
        return not (m[1] is not None and bool(m[2]))     # token and parameters together: out of the model

    def door_view(self, op):
        if op[0] == "assign" and op[1] == "obj":
            return "link"                                # documented: the assigned object stays live
        if op[0] in ("assign", "delprop"):
            return "drop"
        return "keep"

    def mrep(self, m):
        return m

    def valid(self, m):
        return (m[1] is not None) != bool(m[2])      # exactly one of token / parameters

    def content(self, m):
        return (m[0], m[1], list(m[2]))

    def view_content(self, m):
        return (m[0], m[1], list(m[2]))

    fresh_content = view_content

    def snap(self, v):
        return (v.type, v.token, list(v.parameters.items()))

    def vrep(self, v):
        return (v._type, v._token, tuple(v._parameters.items()))

    def parse(self, text):
        scheme, _, rest = text.partition(" ")
        rest = rest.strip()
        if "=" in rest:
            return (scheme.lower(), None, parse_kv_list(rest))
        return (scheme.lower(), rest, [])

    def size_ok(self, m):
        return len(m[2]) <= (3 if self.big else 2)

    def typed(self, v, m):
        d = dict(m[2])
        return [("realm", v.realm, d.get("realm")), ("item:qop", v["qop"], d.get("qop")), ("in:realm", "realm" in v, "realm" in d),
                ("get:nonce", v.get("nonce", "D"), d.get("nonce", "D"))]

    def ops(self):
        return [("type_set", "digest"), ("type_set", "bearer"), ("type_set", "basic"),
                ("token_set", "tok"), ("token_set", "abc"), ("token_set", None),
                ("attr_set", "realm", "r"), ("attr_set", "realm", None), ("attr_set", "realm", ""), ("attr_set", "nonce", "n"),
                ("attr_set", "realm", "CORP\\users"), ("attr_set", "realm", 'clusters "eu, us" only'),
                ("item_set", "qop", 'say "hi"'), ("params_item", "opaque", 'a\\b "c, d"'),
                ("attr_del", "realm"),
                ("attr_del", "nonce"),
                ("item_set", "qop", "auth"), ("item_set", "qop", None), ("item_set", "realm", "z"), ("item_del", "qop"),
                ("params_item", "realm", "z"), ("params_item", "opaque", "o"), ("params_pop", "realm"), ("params_clear",),
                ("params_assign", (("a", "b"),)), ("params_assign", ()),
                ("assign", "obj", ("digest", (("realm", "r"),), None)), ("assign", "obj", ("bearer", (), "t")),
                ("assign", "obj", ("digest", (("realm", "CORP\\users"), ("nonce", 'n "1, 2"')), None)),
                ("assign", "obj", ("basic", (("realm", 'say "hi"'),), None)),
                ("assign", "none", None), ("assign", "emptylist", None),
                ("assign", "list", (("digest", (("realm", "r"),), None), ("bearer", (), "t"))), ("delprop",),
                ("hdr_set", 'Digest realm="x", qop=auth'), ("hdr_set", "Bearer abc"), ("hdr_del",), ("reobtain",)]

    @staticmethod
    def mk(spec):
        t, params, token = spec
        return WWWAuthenticate(t, dict(params) if params else None, token)

    def apply(self, ctx, op):
        n = op[0]
        r = ctx.r
        if n == "assign":
            kind = op[1]
            if kind == "obj":
                obj = self.mk(op[2])
                r.www_authenticate = obj
                ctx.view = obj              # documented: the assigned object stays live
            elif kind == "none":
                r.www_authenticate = None
                ctx.view = None
            elif kind == "emptylist":
                r.www_authenticate = []
                ctx.view = None
            else:
                r.www_authenticate = [self.mk(x) for x in op[2]]
                ctx.view = None
            return
        if n == "delprop":
            del r.www_authenticate
            ctx.view = None
            return
        if n == "hdr_set":
            r.headers[self.header] = op[1]
            return
        if n == "hdr_del":
            r.headers.pop(self.header, None)
            return
        if n == "reobtain":
            ctx.view = None
            view_of(self, ctx)
            return
        v = view_of(self, ctx)
        if n == "type_set":
            v.type = op[1]
        elif n == "token_set":
            v.token = op[1]
        elif n == "attr_set":
            setattr(v, op[1], op[2])
        elif n == "attr_del":
            delattr(v, op[1])
        elif n == "item_set":
            v[op[1]] = op[2]
        elif n == "item_del":
            del v[op[1]]
        elif n == "params_item":
            v.parameters[op[1]] = op[2]
        elif n == "params_pop":
            v.parameters.pop(op[1], None)
        elif n == "params_clear":
            v.parameters.clear()
        elif n == "params_assign":
            v.parameters = dict(op[1])
        else:
            raise core.Broken(op)

    def expect(self, m, op):
        n = op[0]
        t, tok, params, nl = m
        d = dict(params)
        if n == "assign":
            if op[1] == "obj":
                a, p, k = op[2]
                return Exp((a, k, tuple(p), 1))
            if op[1] in ("none", "emptylist"):
                return Exp(self.init_model())
            a, p, k = op[2][0]
            return Exp((a, k, tuple(p), len(op[2])))      # a list: one header line per item, the first is the view
        if n in ("delprop", "hdr_del"):
            return Exp(self.init_model(), drop=True)
        if n == "hdr_set":
            a, k, p = self.parse(op[1])
            return Exp((a, k, tuple(p), 1), drop=True)
        if n == "reobtain":
            if not self.valid(m):
                raise Skip()
            return Exp(m)
        if n == "type_set":
            return Exp((op[1], tok, params, nl), readback=(lambda v: v.type, op[1]))
        if n == "token_set":
            return Exp((t, op[1], params, nl), readback=(lambda v: v.token, op[1]))
        if n in ("attr_set", "item_set", "params_item"):
            if op[2] is None:
                d.pop(op[1], None)
            else:
                d[op[1]] = op[2]
            return Exp((t, tok, tuple(d.items()), nl))
        if n in ("attr_del", "item_del", "params_pop"):
            d.pop(op[1], None)
            return Exp((t, tok, tuple(d.items()), nl))
        if n == "params_clear":
            return Exp((t, tok, (), nl))
        if n == "params_assign":
            return Exp((t, tok, tuple(op[1]), nl))
        raise core.Broken(op)


# ----------------------------------------------------------------------------- Content-Range

def range_valid(start, stop, length):
    """independent statement of a satisfiable byte content range"""
    if (start is None) != (stop is None):
        return False
    if length is not None and length < 0:
        return False
    if start is None:
        return True
    if not 0 <= start < stop:
        return False
    return length is None or stop <= length          # the explored domain: ranges that lie inside the length


class CRFam(Family):
    """model = (units, start, stop, length)"""
    name = "content_range"
    header = "Content-Range"
    params = ()

    def get(self, r):
        return r.content_range

    def init_model(self):
        return (None, None, None, None)

    def mrep(self, m):
        return m

    def content(self, m):
        return None if m[0] is None else m

    def view_content(self, m):
        return m

    def fresh_content(self, m):
        return (None, None, None, None) if m[0] is None else m

    fresh_model = fresh_content

    def snap(self, v):
        return (v.units, v.start, v.stop, v.length)

    vrep = snap

    def parse(self, text):
        units, rest = text.split(None, 1)
        rng, length = rest.split("/")
        length = None if length == "*" else int(length)
        if rng == "*":
            return (units, None, None, length)
        a, b = rng.split("-")
        return (units, int(a), int(b) + 1, length)

    def typed(self, v, m):
        return [("bool", bool(v), m[0] is not None)] + \
               ([(a, getattr(v, a), x) for a, x in zip(("units", "start", "stop", "length"), m)] if m[0] is not None else [])

    def ops(self):
        # boundary values on purpose: length 0 (only valid for */0), start 0, stop == length, start == stop - 1,
        # unknown length, units other than bytes
        ops = []
        for st, sp in ((None, None), (0, 1), (0, 3), (2, 3), (0, 5), (2, 5)):
            for ln in (None, 0, 3, 5):
                if range_valid(st, sp, ln):
                    ops.append(("set", st, sp, ln, "bytes"))
        ops += [("set", 0, 3, None, "items"), ("set", None, None, 0, "items"), ("set3", 2, 5, 5), ("set3", None, None, 0), ("unset",)]
        ops += [("attr", "units", x) for x in ("bytes", "items", None)]
        ops += [("attr", "start", x) for x in (0, 2, None)]
        ops += [("attr", "stop", x) for x in (1, 3, 5, None)]
        ops += [("attr", "length", x) for x in (0, 3, 5, None)]
        ops += [("assign", "obj", ("bytes", 0, 3, 5)), ("assign", "obj", ("bytes", None, None, 0)), ("assign", "obj", ("items", 0, 1, None)),
                ("assign", "str", "bytes 2-4/5"), ("assign", "str", "bytes */5"), ("assign", "str", "bytes */0"),
                ("assign", "str", "bytes 0-0/*"), ("assign", "none", None), ("assign", "str", ""),
                ("hdr_set", "items 0-2/*"), ("hdr_set", "bytes */0"), ("hdr_del",), ("reobtain",)]
        return ops

    def apply(self, ctx, op):
        n = op[0]
        r = ctx.r
        if n == "assign":
            val = op[2]
            if op[1] == "obj":
                u, a, b, l = val
                val = ContentRange(u, a, b, l)
            r.content_range = val
            return
        if n == "hdr_set":
            r.headers[self.header] = op[1]
            return
        if n == "hdr_del":
            r.headers.pop(self.header, None)
            return
        if n == "reobtain":
            ctx.view = None
            view_of(self, ctx)
            return
        v = view_of(self, ctx)
        if n == "set":
            v.set(op[1], op[2], op[3], op[4])
        elif n == "set3":
            v.set(op[1], op[2], op[3])
        elif n == "unset":
            v.unset()
        elif n == "attr":
            setattr(v, op[1], op[2])
        else:
            raise core.Broken(op)

    def expect(self, m, op):
        n = op[0]
        if n == "assign":
            if not op[2]:
                return Exp(self.init_model(), drop=True)
            if op[1] == "str":
                return Exp(self.parse(op[2]), drop=True)
            return Exp(tuple(op[2]), drop=True)
        if n == "hdr_set":
            return Exp(self.parse(op[1]), drop=True)
        if n == "hdr_del":
            return Exp(self.init_model(), drop=True)
        if n == "reobtain":
            return Exp(m if m[0] is not None else self.init_model())
        if n == "set":
            return Exp((op[4], op[1], op[2], op[3]))
        if n == "set3":
            return Exp(("bytes", op[1], op[2], op[3]))
        if n == "unset":
            return Exp((None, None, None, None))
        if n == "attr":
            d = dict(zip(("units", "start", "stop", "length"), m))
            d[op[1]] = op[2]
            if not range_valid(d["start"], d["stop"], d["length"]):
                raise Skip()
            return Exp((d["units"], d["start"], d["stop"], d["length"]),
                       readback=(lambda v, a=op[1]: getattr(v, a), op[2]))
        raise core.Broken(op)


# ----------------------------------------------------------------------------- scalar typed properties

DAYS = ["Mon", "Tue", "Wed", "Thu", "Fri", "Sat", "Sun"]
MONTHS = ["Jan", "Feb", "Mar", "Apr", "May", "Jun", "Jul", "Aug", "Sep", "Oct", "Nov", "Dec"]
UTC = timezone.utc


def rfc1123(dt):
    dt = dt.astimezone(UTC)
    return f"{DAYS[dt.weekday()]}, {dt.day:02d} {MONTHS[dt.month - 1]} {dt.year:04d} {dt.hour:02d}:{dt.minute:02d}:{dt.second:02d} GMT"


D1 = datetime(2015, 1, 1, 0, 0, 0, tzinfo=UTC)
D2 = datetime(2024, 2, 29, 23, 59, 59, 999999, tzinfo=UTC)                       # microseconds, leap day
D3 = datetime(2020, 12, 31, 23, 30, 15, 250000, tzinfo=timezone(timedelta(hours=2)))    # non-UTC offset
D4 = datetime(2001, 9, 9, 1, 46, 40)                                                    # naive = UTC
D0 = datetime(1970, 1, 1, tzinfo=UTC)                                                   # the epoch: timestamp 0 is a date


class _ZeroTZ(tzinfo):
    """a third-party style UTC class: zero offset, but not datetime.timezone.utc"""

    def utcoffset(self, dt):
        return timedelta(0)

    def dst(self, dt):
        return timedelta(0)

    def tzname(self, dt):
        return "UTC"


class _LondonLikeTZ(tzinfo):
    """zero offset in winter, +1 h from April to September (hand-written, independent of the tz database)"""

    def _summer(self, dt):
        return dt is not None and 4 <= dt.month <= 9

    def utcoffset(self, dt):
        return timedelta(hours=1) if self._summer(dt) else timedelta(0)

    def dst(self, dt):
        return timedelta(hours=1) if self._summer(dt) else timedelta(0)

    def tzname(self, dt):
        return "BST" if self._summer(dt) else "GMT"


# aware datetimes whose offset is zero although tzinfo is not datetime.timezone.utc - all well-typed
ZERO_OFFSET_DATES = [
    datetime(2021, 1, 15, 12, 30, 45, 500000, tzinfo=_ZeroTZ()),
    datetime(2021, 1, 15, 12, 30, 45, tzinfo=_LondonLikeTZ()),          # winter: offset 0
    datetime(2021, 7, 15, 12, 30, 45, tzinfo=_LondonLikeTZ()),          # summer: +01:00
    datetime(2021, 1, 15, 12, 30, 45, tzinfo=timezone(timedelta(0), "GMT")),
    datetime(2021, 1, 15, 12, 30, 45, tzinfo=timezone(timedelta(0))),
]
try:
    import zoneinfo as _zi

    if {"UTC", "Europe/London", "Africa/Abidjan"} <= _zi.available_timezones():
        ZERO_OFFSET_DATES += [
            datetime(2021, 1, 15, 12, 30, 45, tzinfo=_zi.ZoneInfo("UTC")),
            datetime(2021, 1, 15, 12, 30, 45, tzinfo=_zi.ZoneInfo("Europe/London")),      # winter
            datetime(2021, 7, 15, 12, 30, 45, tzinfo=_zi.ZoneInfo("Europe/London")),      # summer
            datetime(2021, 7, 15, 12, 30, 45, tzinfo=_zi.ZoneInfo("Africa/Abidjan")),
        ]
except Exception:  # noqa: BLE001 - no tz database: the hand-written classes above cover the case
    pass
ALL_DATES = [D1, D2, D3, D4, D0] + ZERO_OFFSET_DATES


def as_utc_second(dt):
    if dt.tzinfo is None:
        dt = dt.replace(tzinfo=UTC)
    return dt.astimezone(UTC).replace(microsecond=0)


class RB:
    """expected read-back"""

    def __init__(self, kind, value=None):
        self.kind, self.value = kind, value

    def ok(self, got, t0=None, t1=None):
        k, v = self.kind, self.value
        if k == "eq":
            return got == v and type(got) is type(v)
        if k == "dt":
            return (isinstance(got, datetime) and got.tzinfo is not None and got.utcoffset() == timedelta(0)
                    and got.microsecond == 0 and got == v)
        if k == "set":
            return isinstance(got, HeaderSet) and list(got) == list(v)
        if k == "emptyset":      # an empty collection: read back as an empty set, or as "not set"
            return got is None or (isinstance(got, HeaderSet) and list(got) == [])
        if k == "soon":      # now + v seconds, bracketed by the harness clock
            return isinstance(got, datetime) and got.tzinfo is not None and t0 + timedelta(seconds=v) <= got <= t1 + timedelta(seconds=v)
        raise core.Broken(k)

    def __repr__(self):
        return f"{self.kind}:{self.value!r}"


def _str_prop(prop, header):
    return dict(prop=prop, header=header, default=RB("eq", None), deletable=True,
                assigns=[("a", "a", "a", RB("eq", "a")), ("url", "/x?y=1", "/x?y=1", RB("eq", "/x?y=1"))],
                direct=[("zz", RB("eq", "zz"))])


def _date_prop(prop, header):
    return dict(prop=prop, header=header, default=RB("eq", None), deletable=True,
                assigns=[(f"d{i}", d, rfc1123(as_utc_second(d)), RB("dt", as_utc_second(d))) for i, d in enumerate(ALL_DATES)],
                direct=[("Sun, 06 Nov 1994 08:49:37 GMT", RB("dt", datetime(1994, 11, 6, 8, 49, 37, tzinfo=UTC))),
                        ("garbage", RB("eq", None))])


def _set_prop(prop, header):
    return dict(prop=prop, header=header, default=RB("eq", None), deletable=True, parse_set=True,
                assigns=[("list", ["X-A", "b"], ["X-A", "b"], RB("set", ["X-A", "b"])),
                         ("hs", ("HS", ("q", "R")), ["q", "R"], RB("set", ["q", "R"])),
                         ("empty-list", [], ("ANY", "", None), RB("emptyset")),
                         ("empty-hs", ("HS", ()), ("ANY", "", None), RB("emptyset"))],
                direct=[("a, B", RB("set", ["a", "B"]))])


SCALARS = [
    dict(prop="age", header="Age", default=RB("eq", None), deletable=True,
         assigns=[("0", 0, "0", RB("eq", timedelta(0))), ("5", 5, "5", RB("eq", timedelta(seconds=5))),
                  ("td0", timedelta(0), "0", RB("eq", timedelta(0))),
                  ("td", timedelta(seconds=7), "7", RB("eq", timedelta(seconds=7))),
                  ("td-frac", timedelta(seconds=7, microseconds=500000), "7", RB("eq", timedelta(seconds=7))),
                  ("td-day", timedelta(days=1, seconds=1), "86401", RB("eq", timedelta(days=1, seconds=1)))],
         direct=[("12", RB("eq", timedelta(seconds=12))), ("x", RB("eq", None))]),
    dict(prop="content_length", header="Content-Length", default=RB("eq", None), deletable=True,
         assigns=[("0", 0, "0", RB("eq", 0)), ("5", 5, "5", RB("eq", 5))],
         direct=[("12", RB("eq", 12)), ("x", RB("eq", None))]),
    dict(prop="access_control_max_age", header="Access-Control-Max-Age", default=RB("eq", None), deletable=True,
         assigns=[("0", 0, "0", RB("eq", 0)), ("600", 600, "600", RB("eq", 600))],
         direct=[("12", RB("eq", 12)), ("x", RB("eq", None))]),
    _str_prop("location", "Location"), _str_prop("content_location", "Content-Location"),
    _str_prop("content_encoding", "Content-Encoding"), _str_prop("content_md5", "Content-MD5"),
    _str_prop("accept_ranges", "Accept-Ranges"), _str_prop("access_control_allow_origin", "Access-Control-Allow-Origin"),
    dict(prop="content_type", header="Content-Type", default=RB("eq", None), deletable=True,
         assigns=[("html", "text/html", "text/html", RB("eq", "text/html")),
                  ("json", "application/json; x=1", "application/json; x=1", RB("eq", "application/json; x=1"))],
         direct=[("text/x", RB("eq", "text/x"))]),
    _date_prop("date", "Date"), _date_prop("expires", "Expires"), _date_prop("last_modified", "Last-Modified"),
    dict(prop="retry_after", header="Retry-After", default=RB("eq", None), deletable=False,
         assigns=[("dt", D2, rfc1123(as_utc_second(D2)), RB("dt", as_utc_second(D2))),
                  ("dt-off", D3, rfc1123(as_utc_second(D3)), RB("dt", as_utc_second(D3))),
                  ("epoch", D0, rfc1123(D0), RB("dt", D0)), ("int0", 0, "0", RB("soon", 0)),
                  *[(f"zero{i}", d, rfc1123(as_utc_second(d)), RB("dt", as_utc_second(d))) for i, d in enumerate(ZERO_OFFSET_DATES)],
                  ("int", 120, "120", RB("soon", 120)), ("str", "30", "30", RB("soon", 30)), ("none", None, None, RB("eq", None))],
         direct=[("7", RB("soon", 7)), ("Sun, 06 Nov 1994 08:49:37 GMT", RB("dt", datetime(1994, 11, 6, 8, 49, 37, tzinfo=UTC)))]),
    dict(prop="access_control_allow_credentials", header="Access-Control-Allow-Credentials", default=RB("eq", False), deletable=False,
         assigns=[("true", True, "true", RB("eq", True)), ("false", False, None, RB("eq", False)), ("none", None, None, RB("eq", False))],
         direct=[("true", RB("eq", True))]),
    _set_prop("access_control_allow_headers", "Access-Control-Allow-Headers"),
    _set_prop("access_control_allow_methods", "Access-Control-Allow-Methods"),
    _set_prop("access_control_expose_headers", "Access-Control-Expose-Headers"),
    dict(prop="cross_origin_opener_policy", header="Cross-Origin-Opener-Policy", default=RB("eq", COOP.UNSAFE_NONE), deletable=True,
         assigns=[("same-origin", COOP.SAME_ORIGIN, "same-origin", RB("eq", COOP.SAME_ORIGIN)),
                  ("allow-popups", COOP.SAME_ORIGIN_ALLOW_POPUPS, "same-origin-allow-popups", RB("eq", COOP.SAME_ORIGIN_ALLOW_POPUPS)),
                  ("unsafe-none", COOP.UNSAFE_NONE, "unsafe-none", RB("eq", COOP.UNSAFE_NONE))],
         direct=[("same-origin", RB("eq", COOP.SAME_ORIGIN)), ("bogus", RB("eq", COOP.UNSAFE_NONE))]),
    dict(prop="cross_origin_embedder_policy", header="Cross-Origin-Embedder-Policy", default=RB("eq", COEP.UNSAFE_NONE), deletable=True,
         assigns=[("require-corp", COEP.REQUIRE_CORP, "require-corp", RB("eq", COEP.REQUIRE_CORP)),
                  ("unsafe-none", COEP.UNSAFE_NONE, "unsafe-none", RB("eq", COEP.UNSAFE_NONE))],
         direct=[("require-corp", RB("eq", COEP.REQUIRE_CORP)), ("bogus", RB("eq", COEP.UNSAFE_NONE))]),
    dict(prop="etag", header="ETag", default=RB("eq", (None, None)), deletable=False, etag=True,
         assigns=[("strong", ("abc", False), '"abc"', RB("eq", ("abc", False))), ("weak", ("abc", True), 'W/"abc"', RB("eq", ("abc", True))),
                  ("empty", ("", False), '""', RB("eq", ("", False)))],
         direct=[('"zz"', RB("eq", ("zz", False))), ('W/"zz"', RB("eq", ("zz", True)))]),
]
SCALAR_BY_NAME = {s["prop"]: s for s in SCALARS}


def scalar_ops(spec):
    ops = [("assign", i) for i in range(len(spec["assigns"]))]
    ops += [("direct", i) for i in range(len(spec["direct"]))]
    ops.append(("hdr_del",))
    if spec["deletable"]:
        ops.append(("del",))
    return ops


def scalar_run(prop, seq):
    """Run one op sequence on a fresh Response. -> (violations, steps executed)"""
    spec = SCALAR_BY_NAME[prop]
    seq = [thaw(o) for o in seq]
    r = Response()
    if prop == "content_type":
        del r.headers["Content-Type"]
    out = []
    done = 0
    for i, op in enumerate(seq):
        label = op[0]
        exp_text, rb = None, spec["default"]
        try:
            if op[0] == "assign":
                label, val, exp_text, rb = spec["assigns"][op[1]]
                if isinstance(val, tuple) and val and val[0] == "HS":
                    val = HeaderSet(list(val[1]))
                if spec.get("etag"):
                    r.set_etag(*val)
                else:
                    setattr(r, prop, val)
            elif op[0] == "direct":
                exp_text, rb = spec["direct"][op[1]]
                label = "direct:" + exp_text
                r.headers[spec["header"]] = exp_text
            elif op[0] == "hdr_del":
                r.headers.pop(spec["header"], None)
            else:
                delattr(r, prop)
            err = None
        except Exception as e:  # noqa: BLE001
            err = cat(e)
        done += 1
        base = {"family": "scalar:" + prop, "prop": prop, "seq": tuple(seq[: i + 1]), "op": op, "label": label}
        if err is not None:
            out.append((f"scalar:{prop}:{op[0]}:raised", dict(base, check="raised", exp="no exception", got=err)))
            return out, done
        text = r.headers.get(spec["header"])
        if isinstance(exp_text, tuple) and exp_text and exp_text[0] == "ANY":
            okh = text in exp_text[1:]
        elif spec.get("parse_set") and exp_text is not None and not isinstance(exp_text, str):
            okh = text is not None and [unq(x) for x in split_top(text, ",")] == list(exp_text)
        else:
            okh = text == exp_text
        if len(r.headers.getlist(spec["header"])) > 1:
            okh = False
        if not okh:
            out.append((f"scalar:{prop}:{op[0]}:header", dict(base, check="header", exp=exp_text, got=text)))
            return out, done
        t0 = datetime.now(UTC).replace(microsecond=0)
        try:
            got = r.get_etag() if spec.get("etag") else getattr(r, prop)
        except Exception as e:  # noqa: BLE001
            got = ("exc", cat(e))
        t1 = datetime.now(UTC) + timedelta(seconds=1)
        if not rb.ok(got, t0, t1):
            out.append((f"scalar:{prop}:{op[0]}:readback", dict(base, check="readback", exp=repr(rb), got=repr(got))))
            return out, done
    return out, done


# ----------------------------------------------------------------------------- units / runner interface

SET_PROPS = [("vary", "Vary"), ("allow", "Allow"), ("content_language", "Content-Language")]
CSP_PROPS = [("content_security_policy", "Content-Security-Policy"),
             ("content_security_policy_report_only", "Content-Security-Policy-Report-Only")]


def make_family(kind, params):
    params = thaw(params)
    if kind == "set":
        return SetFam(*params)
    if kind == "cc":
        return CCFam(*params)
    if kind == "csp":
        return CSPFam(*params)
    if kind == "mime":
        return MimeFam()
    if kind == "www":
        return WWWFam()
    if kind == "cr":
        return CRFam()
    raise core.Broken(kind)


def scalar_depth(tier):
    return 3 if tier == "thorough" else 2


CC_TRIPLE_ATTRS = ["public", "no_store", "max_age", "s_maxage", "no_cache", "private"]


def units(tier):
    u = [("graph", "set", p) for p in SET_PROPS]
    u += [("graph", "cc", pair) for pair in itertools.combinations(sorted(CC_DIRECTIVES), 2)]
    triples = list(itertools.combinations(CC_TRIPLE_ATTRS, 3))
    quick_triples = [("public", "max_age", "no_cache"), ("no_store", "s_maxage", "private"), ("max_age", "s_maxage", "no_cache")]
    assert all(t in triples for t in quick_triples)
    u += [("graph", "cc", t) for t in (triples if tier == "thorough" else quick_triples)]
    u += [("graph", "csp", p) for p in CSP_PROPS]
    u += [("graph", "mime", ()), ("graph", "www", ()), ("graph", "cr", ())]
    for spec in SCALARS:
        for first in scalar_ops(spec):
            u.append(("scalar", spec["prop"], first))
    return u


def run_unit(unit, R, tier):
    kind, a, b = unit
    if kind == "graph":
        fam = make_family(a, b)
        fam.kind = a
        fam.big = tier == "thorough"
        closed, n = explore(fam, R)
        R.use(("family", a))
        R.count("graphs")
        R.count("graphs_closed", 1 if closed else 0)
        R.sample({"family": fam.name, "params": fam.params, "graph_states": n, "closed": closed, "ops": len(fam.ops())})
    else:
        spec = SCALAR_BY_NAME[a]
        ops = scalar_ops(spec)
        R.use(("family", "scalar"))
        for n in range(scalar_depth(tier)):
            for rest in itertools.product(ops, repeat=n):
                seq = (b,) + rest
                vs, done = scalar_run(a, seq)
                R.count("executions", done)
                R.count("transitions", done)
                R.count("states")
                R.ev()
                R.use(("scalar", a, seq[-1][0]))
                R.nontrivial(("scalar", a, seq))
                for sig, rec in vs:
                    R.violation(sig, rec)


FAMILY_KIND = {"cache_control": "cc", "mimetype_params": "mime", "www_authenticate": "www", "content_range": "cr"}


def fam_from_rec(rec):
    name = rec["family"]
    if name.startswith("set:"):
        return make_family("set", [p for p in SET_PROPS if p[0] == name[4:]][0])
    if name.startswith("csp:"):
        return make_family("csp", [p for p in CSP_PROPS if p[0] == name[4:]][0])
    return make_family(FAMILY_KIND[name], rec.get("params", ()))


def replay(rec):
    if rec.get("family", "").startswith("scalar:"):
        vs, _ = scalar_run(rec["prop"], rec["seq"])
        hit = [r for _s, r in vs if r["check"] == rec["check"]]
        text = (f"property {rec['prop']}: ops {rec['seq']!r}\nexpected {rec['check']} = {rec['exp']!r}\nrecorded = {rec['got']!r}\n"
                f"now      = {hit[0]['got']!r}" if hit else "now: as expected")
        return bool(hit), text
    if "history" not in rec:
        return True, rec.get("traceback", "unit exception")
    fam = fam_from_rec(rec)
    hist = tuple(thaw(o) for o in rec["history"])
    op = thaw(rec["op"])
    ctx, model = rebuild(fam, hist)
    hdr0 = ctx.r.headers.get(fam.header)
    vs, _new = step(fam, ctx, model, op)
    hit = [r for _s, r in vs if r["check"] == rec["check"]]
    if rec["check"] == "state-cap":
        return True, f"{fam.name}: the state graph does not close (more than {STATE_CAP} states); last history {hist!r} + {op!r}"
    lines = [f"family   = {fam.name} {fam.params}", "r = Response(); view = r.<property>", f"history  = {hist!r}",
             f"header before = {hdr0!r}", f"op       = {op!r}", f"check    = {rec['check']}", f"expected = {rec['exp']!r}",
             f"recorded = {rec['got']!r}", f"header after  = {ctx.r.headers.get(fam.header)!r}",
             f"now      = {hit[0]['got']!r}" if hit else "now      = coherent"]
    return bool(hit), "\n".join(lines)


def finalize(R, tier):
    need = {("family", k) for k in ("set", "cc", "csp", "mime", "www", "cr", "scalar")}
    for fam in [SetFam(*SET_PROPS[0]), CCFam("max_age", "public"), CSPFam(*CSP_PROPS[0]), MimeFam(), WWWFam(), CRFam()]:
        for n in {o[0] for o in fam.ops()}:
            need.add(("op", fam.name, n))
            if n != "reobtain":
                need.add(("changed", fam.name, n))
        need.add(("closed", fam.name))
    for spec in SCALARS:
        for o in scalar_ops(spec):
            need.add(("scalar", spec["prop"], o[0]))
    missing = [x for x in need if x not in R.used]
    if missing:
        raise core.Broken(f"vacuity: never exercised {sorted(map(str, missing))[:12]}")
    if R.counts["graphs"] != R.counts["graphs_closed"]:
        raise core.Broken("a view graph did not reach its fixpoint")
    if R.counts["transitions"] < 20000:
        raise core.Broken("vacuity: graphs unexpectedly small")
    return {
        "bound": ("sets <=4 items over 8 spellings; cache-control: every pair of the 13 directives and every triple of 6 "
                  "representative ones x 6 values; csp <=3 of 4 directives; mimetype <=3 params; www-authenticate <=3 params; "
                  if tier == "thorough" else
                  "sets <=3 items over 6 spellings; cache-control: every pair of the 13 directives and 3 triples x 6 values; csp <=2 of 4 "
                  "directives; mimetype <=2 params; www-authenticate <=2 params; ")
                 + f"content-range over 3x3x3 values; scalar properties: op sequences <= {scalar_depth(tier)}",
        "exhaustive": True,
        "closed": True,
        "explanation": "every view graph ran to its fixpoint under the alphabet / size bound (all histories of any length "
                       "inside it); scalar properties by depth-bounded histories",
    }


def _f_hs_remove(rec):
    """vary/allow/content_language: remove()/discard() with an argument that is not all lower case."""
    if not rec.get("family", "").startswith("set:") or thaw(rec["op"])[0] not in ("remove", "discard"):
        return False
    arg = thaw(rec["op"])[1]
    return arg != arg.lower() and rec["check"] in ("view-content", "header-text", "header-not-removed", "reread",
                                                   "typed:view", "typed:fresh")


def _f_www_setattr(rec):
    """www_authenticate.token = / .type = / .parameters = are swallowed by __setattr__ and stored as parameters."""
    return (rec.get("family") == "www_authenticate" and thaw(rec["op"])[0] in ("type_set", "token_set", "params_assign")
            and rec["check"] in ("readback", "view-content", "header-text", "reread", "header-missing", "typed:view",
                                 "typed:fresh", "header-not-removed"))


def _f_csp_empty_value(rec):
    """a CSP directive with an empty value is serialised as 'name ' and dropped again by parse_csp_header"""
    op = thaw(rec["op"])
    return (rec.get("family", "").startswith("csp:") and op[0] in ("item_set", "attr_set") and op[2] == ""
            and rec["check"] in ("reread", "typed:fresh"))


FINDINGS = {
    "C16-headerset-remove-other-case": _f_hs_remove,
    "C16-www-authenticate-token-type-setters-dead": _f_www_setattr,
}
