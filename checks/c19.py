"""C19 - the development server transports requests and responses faithfully.

Space A (E3/E4, serving.DechunkedInput driven directly)
  every chunk framing (all compositions of the body into chunks x hex spelling x CRLF/LF) of
  every body up to the bound, *truncated at every byte offset* (the only answer freedom a
  blocking rfile has is where EOF falls), plus malformed size lines / terminators; for each raw
  input the complete read-schedule graph (node = rfile offset, _len, _done, bytes delivered;
  edge = readinto(bytearray(k)) for every k) and direct schedules through read(k), read(),
  readline() and io.BufferedReader.  Oracle: an independent strict chunked parser.

Space B (E1 product over an in-process socket pair)
  WSGIRequestHandler(sock, addr, stub_server): request line x headers x body framing x
  application read schedule; response status x Content-Length x body items x write() x method
  x protocol version.  Oracle: harness-side request builder / response de-framer.
"""
from __future__ import annotations

import collections
import copy
import io
import itertools
import socket

from mc import core, gen
from mc import env as E4

ID = "C19"
LEVEL = "model_checking"
RULE = (
    "A: raw inputs = every chunk framing (all compositions into chunks x {lower, upper, leading-zero} hex x "
    "{CRLF, LF}) of bodies b'ab\\ncd\\nef'[:n] (plus 11-byte bodies for hex letters), each cut at EVERY byte offset, "
    "plus a table of malformed size lines / terminators substituted at the first and second chunk; for each raw "
    "input the complete read-schedule graph of the real DechunkedInput (state = rfile offset, _len, _done, "
    "delivered count; transition = readinto(bytearray(k)), k = 1..n+2) and all schedules of <=3 sized reads "
    "followed by read-all through RawIOBase.read, readline and io.BufferedReader(buffer_size 1|2|3|8), judged "
    "against an independent strict chunked parser. B: WSGIRequestHandler over socket.socketpair(): methods x "
    "request targets x header sets x (no body | Content-Length | every chunking) x application read schedules; "
    "responses: status x Content-Length given/absent x body item lists <=3 over {b'', b'a', b'bc'} x write() "
    "callable x HEAD/GET x HTTP/1.0|1.1, plus 5 spellings of the Content-Length header name and 4 unusual "
    "application header sets (mixed-case duplicates, Date/Server/Connection set by the application, look-alike "
    "names) x item lists <=2. B2: client_address x ssl_context x server_address x request version x target x Expect header x pipelined "
    "second request (REMOTE_ADDR/PORT, SERVER_NAME/PORT/PROTOCOL, wsgi.url_scheme, interim 100, one response per "
    "connection); B3: 13 application behaviours (generator / closable iterable, mixed write()+iterable, bare "
    "status, exc_info replace / after output, exceptions before and after output, start_response twice) x "
    "Content-Length x method x HTTP/1.1|1.0|0.9 request; request header sets with empty / blank values in every "
    "position of a repeated header; response header lists empty / single / unusual spellings. "
    "non-trivial = distinct raw input with >=2 chunks, a truncation or a "
    "malformation (A); distinct request/response with a body or a non-default head (B)."
)
ASSUMPTIONS = [
    "rfile is a blocking buffered reader (socket.makefile('rb')): read(n) is short and readline() unterminated only "
    "at EOF - BytesIO has the same contract; the socket-pair runs use the real makefile",
    "DechunkedInput's future depends only on the rfile offset and its instance attributes (state key and clone are generic over vars())",
    "chunk extensions and trailers are outside the property's domain (either outcome accepted for extensions, "
    "trailers not generated); size lines padded with blanks are accepted either way",
    "one request per connection, client side shut down for writing before the handler runs; no TLS, no keep-alive",
]

from werkzeug.serving import DechunkedInput, WSGIRequestHandler  # noqa: E402

DATA = b"ab\ncd\nef\ngh"
LONG = b"0123456789\nXYZ"
FILL = 0xEE
CPU_GUARD = 1.0          # CPU-seconds one readinto / one wrapper schedule / one request may take (normal: < 1 ms)

# ------------------------------------------------------------------ reference chunked parser

HEXDIG = frozenset(b"0123456789abcdefABCDEF")
BLANK = b" \t\r\x0b\x0c"


def classify_size_line(line: bytes):
    """line without its LF / CRLF. -> ('hex', value) | ('may', value) | ('bad', None)

    hex: 1*HEXDIG (RFC 9112 7.1).  may: the same padded with blanks, or followed by a chunk
    extension (';...') - outside the property's domain, either outcome accepted.
    bad: anything else (sign, 0x prefix, underscore, non-hex, empty)."""
    if line and all(c in HEXDIG for c in line):
        return "hex", int(line, 16)
    core_part = line.split(b";", 1)[0].strip(BLANK)
    if core_part and all(c in HEXDIG for c in core_part):
        return "may", int(core_part, 16)
    return "bad", None


def ref_parse(raw: bytes, lenient: bool, intstyle: bool = False):
    """Strict reference de-chunker. Returns (deliverable, end, reason).

    deliverable: chunk-data bytes in order up to the first malformation (partial data of a
    truncated chunk included).  end: 'eof' (complete, well formed), 'error' (malformed or
    truncated: must end in OSError, never in EOF), 'either' (truncated inside the last-chunk
    line or the final line end: the body is complete, both outcomes accepted)."""
    pos = 0
    out = b""
    while True:
        j = raw.find(b"\n", pos)
        if j < 0:
            rest = raw[pos:].strip(BLANK)
            if rest and set(rest) <= {0x30}:
                return out, "either", "trunc-last-chunk-line"
            return out, "error", "trunc-size-line"
        line = raw[pos:j]
        if line.endswith(b"\r"):
            line = line[:-1]
        kind, size = classify_size_line(line)
        if kind == "bad" and intstyle:
            # only used to attribute a report to a known finding: read the line the way int(x, 16) does
            try:
                size = int(line.decode("latin-1").strip(), 16)
                kind = "may" if size >= 0 else "bad"
            except ValueError:
                pass
        if kind == "bad" or (kind == "may" and not lenient):
            return out, "error", "bad-size-line"
        pos = j + 1
        if size == 0:
            t = raw[pos : pos + 2]
            if t[:2] == b"\r\n" or t[:1] == b"\n":
                return out, "eof", "complete"
            if t in (b"", b"\r"):
                return out, "either", "trunc-final-line-end"
            return out, "error", "bad-final-line-end"
        data = raw[pos : pos + size]
        out += data
        if len(data) < size:
            return out, "error", "trunc-data"
        pos += size
        if raw[pos : pos + 2] == b"\r\n":
            pos += 2
        elif raw[pos : pos + 1] == b"\n":
            pos += 1
        elif raw[pos:] in (b"", b"\r"):
            return out, "error", "trunc-terminator"
        else:
            return out, "error", "bad-terminator"


def interpretations(raw: bytes):
    a = ref_parse(raw, False)
    b = ref_parse(raw, True)
    return [a] if a == b else [a, b]


def judge(interps, delivered: bytes, event: str):
    """event: 'data' (delivered already includes the new bytes) | 'eof' | 'OSError'.
    Returns None if some interpretation allows it, else a signature."""
    if event == "data":
        if any(d.startswith(delivered) for d, _e, _r in interps):
            return None
        d, e, r = interps[0]
        if e == "error" and delivered.startswith(d):
            return "bytes-after-malformed-framing-delivered-as-body"
        return "delivered-bytes-differ-from-body"
    if event == "eof":
        if any(e in ("eof", "either") and d == delivered for d, e, _r in interps):
            return None
        d, e, r = interps[0]
        if e == "error":
            return "eof-instead-of-io-error-on-malformed-framing"
        if not d.startswith(delivered):
            return "delivered-bytes-differ-from-body"
        return "eof-before-end-of-body"
    if event == "OSError":
        if any(e in ("error", "either") for _d, e, _r in interps):
            return None
        return "io-error-on-well-formed-framing"
    return "unrelated-exception"


# ------------------------------------------------------------------ framing

HEXF = {
    "lower": lambda k: b"%x" % k,
    "upper": lambda k: b"%X" % k,
    "zero": lambda k: b"0%x" % k,
}


def frame(body: bytes, comp, nl: bytes, hexf, size_lines=None) -> bytes:
    out = b""
    i = 0
    for ci, k in enumerate(comp):
        sl = size_lines.get(ci) if size_lines else None
        out += (sl if sl is not None else HEXF[hexf](k)) + nl + body[i : i + k] + nl
        i += k
    return out + b"0" + nl + nl


# ------------------------------------------------------------------ A: DechunkedInput graph

def clone(d, raw):
    """Attribute-level clone that does not depend on the attribute set: a fresh object over a fresh BytesIO at
    the same offset, every other attribute copied (mutable containers deep-copied), so a refactoring that adds a
    field neither aliases state between clones nor breaks the harness.  The only attribute the harness itself
    reads is _rfile (the underlying file, to position the copy)."""
    if not hasattr(d, "_rfile") or not hasattr(d._rfile, "tell"):
        raise core.Broken("DechunkedInput no longer keeps its underlying file in _rfile: the harness cannot clone it")
    n = DechunkedInput.__new__(DechunkedInput)
    for k, v in d.__dict__.items():
        if k == "_rfile":
            continue
        if isinstance(v, bytearray):
            v = bytearray(v)
        elif isinstance(v, (list, dict, set)):
            v = copy.deepcopy(v)
        n.__dict__[k] = v
    n._rfile = io.BytesIO(raw)
    n._rfile.seek(d._rfile.tell())
    return n


def di_state_key(d, delivered):
    """Everything any method can read (generic over vars(d)) + what was delivered."""
    dyn = []
    for k in sorted(d.__dict__):
        if k == "_rfile":
            continue
        v = d.__dict__[k]
        if isinstance(v, bytearray):
            v = bytes(v)
        elif isinstance(v, (list, dict, set)):
            v = repr(v)
        dyn.append((k, v))
    return (d._rfile.tell(), tuple(dyn), delivered)


def step(d, k):
    """One readinto(bytearray(k)). -> (event, payload, text)"""
    b = bytearray([FILL]) * k
    try:
        E4.arm(CPU_GUARD)
        try:
            c = d.readinto(b)
        finally:
            E4.disarm()
    except OSError as e:
        return "OSError", b"", str(e)[:60]
    except E4.Hang:
        return "HANG", b"", f"readinto({k}) did not return within {CPU_GUARD} CPU-seconds"
    except Exception as e:  # noqa: BLE001
        return "EXC", b"", f"{type(e).__name__}: {e}"[:100]
    if len(b) != k:
        return "RESIZED", b"", f"buffer length {k} -> {len(b)}, returned count {c}"
    if not isinstance(c, int) or not 0 <= c <= k:
        return "BADCOUNT", b"", f"returned {c!r} for a {k}-byte buffer"
    if any(x != FILL for x in b[c:]):
        return "WROTE-BEYOND", b"", f"bytes beyond the returned count {c} were overwritten"
    if c == 0:
        return "eof", b"", ""
    return "data", bytes(b[:c]), ""


def explore_raw(raw: bytes, sizes, R, meta):
    """Complete read-schedule graph of DechunkedInput over `raw`. Returns (states, transitions)."""
    interps = interpretations(raw)
    d0 = DechunkedInput(io.BytesIO(raw))
    seen = {di_state_key(d0, b"")}
    queue = collections.deque([(d0, b"", ())])
    trans = 0
    while queue:
        d, delivered, sched = queue.popleft()
        for k in sizes:
            d2 = clone(d, raw)
            ev, payload, text = step(d2, k)
            trans += 1
            s2 = sched + (k,)
            R.use("A-event:" + ev)
            if ev in ("RESIZED", "BADCOUNT", "WROTE-BEYOND", "EXC", "HANG"):
                sig = {"RESIZED": "readinto-resized-buffer", "BADCOUNT": "readinto-count-out-of-range",
                       "WROTE-BEYOND": "readinto-wrote-beyond-count", "HANG": "endless-read",
                       "EXC": "unrelated-exception:" + text.split(":")[0]}[ev]
                report(R, "A:graph:" + sig, raw, interps, ("readinto",) + s2, meta, sig, text)
                if ev == "HANG":
                    return len(seen), trans, True      # one endless read per input is enough (each costs CPU_GUARD)
                continue
            new = delivered + payload
            sig = judge(interps, new, ev)
            if sig is not None:
                report(R, "A:graph:" + sig, raw, interps, ("readinto",) + s2, meta, sig, text)
                continue
            if ev == "eof":
                # EOF must be sticky
                ev2, _p, text2 = step(d2, k)
                trans += 1
                if ev2 != "eof":
                    report(R, "A:graph:eof-not-sticky", raw, interps, ("readinto",) + s2 + (k,), meta,
                           "eof-not-sticky", text2)
                continue
            if ev == "OSError":
                continue
            key = di_state_key(d2, new)
            if key not in seen:
                seen.add(key)
                queue.append((d2, new, s2))
    return len(seen), trans, False


def report(R, sig_full, raw, interps, schedule, meta, sig, text):
    R.violation(sig_full, {"kind": "A", "raw": raw, "schedule": list(schedule), "sig": sig, "text": text,
                           "reference": [list(x) for x in interps], "meta": meta})


def run_schedule(raw: bytes, schedule):
    """Re-execute one schedule without the explorer. schedule = (mode, *sizes).

    modes: readinto (sizes are buffer lengths, stop at the first terminal event),
           read / brN (sized reads, then read-all), readline (readline until b'')."""
    interps = interpretations(raw)
    mode = schedule[0]
    sizes = list(schedule[1:])
    d = DechunkedInput(io.BytesIO(raw))
    delivered = b""
    if mode == "readinto":
        at_eof = False
        for k in sizes:
            ev, payload, text = step(d, k)
            if ev in ("RESIZED", "BADCOUNT", "WROTE-BEYOND", "EXC", "HANG"):
                sig = {"RESIZED": "readinto-resized-buffer", "BADCOUNT": "readinto-count-out-of-range",
                       "WROTE-BEYOND": "readinto-wrote-beyond-count", "HANG": "endless-read",
                       "EXC": "unrelated-exception:" + text.split(":")[0]}[ev]
                return sig, delivered, ev, text
            if at_eof:
                if ev != "eof":
                    return "eof-not-sticky", delivered, ev, text
                continue
            delivered += payload
            sig = judge(interps, delivered, ev)
            if sig:
                return sig, delivered, ev, text
            if ev == "OSError":
                return None, delivered, ev, text
            if ev == "eof":
                at_eof = True
        return None, delivered, "eof" if at_eof else "end-of-schedule", ""
    f = d if mode in ("read", "readline") else io.BufferedReader(d, buffer_size=int(mode[2:]))
    end = "eof"
    text = ""
    spy = {"resized": None}
    if f is d:
        # RawIOBase.read(k) / readline() call self.readinto(bytearray(k)) and then take `count` bytes from the
        # bytearray's memory whatever its length: spy on the call so that a resized buffer is reported as such
        # (the root cause) and not only through the stale bytes that are then delivered as body data.
        real = d.readinto

        def spy_readinto(b):
            n0 = len(b)
            c = real(b)
            if len(b) != n0 and spy["resized"] is None:
                spy["resized"] = f"buffer length {n0} -> {len(b)}, returned count {c}"
            return c

        d.readinto = spy_readinto
    try:
        E4.arm(CPU_GUARD)
        if mode == "readline":
            for _ in range(len(raw) + 3):
                r = f.readline()
                if spy["resized"]:
                    return ("readinto-resized-buffer", delivered, "RESIZED",
                            spy["resized"] + f"; readline() then returned {r!r}")
                if not r:
                    break
                delivered += r
                if judge(interps, delivered, "data"):
                    return judge(interps, delivered, "data"), delivered, "data", ""
        else:
            stop = False
            for k in sizes:
                r = f.read(k)
                if spy["resized"]:
                    return ("readinto-resized-buffer", delivered, "RESIZED",
                            spy["resized"] + f"; read({k}) then returned {r!r} (stale buffer memory)")
                if r is None:
                    return "read-returned-None", delivered, "data", ""
                if len(r) > k:
                    return "read-longer-than-asked", delivered, "data", ""
                delivered += r
                sig = judge(interps, delivered, "data")
                if sig:
                    return sig, delivered, "data", ""
                if not r:
                    stop = True
                    break
            if not stop:
                r = f.read()
                if spy["resized"]:
                    return ("readinto-resized-buffer", delivered, "RESIZED",
                            spy["resized"] + f"; read() then returned {r!r}")
                delivered += r
                sig = judge(interps, delivered, "data")
                if sig:
                    return sig, delivered, "data", ""
    except OSError as e:
        end, text = "OSError", str(e)[:60]
    except E4.Hang:
        return "endless-read", delivered, "HANG", f"schedule did not finish within {CPU_GUARD} CPU-seconds"
    except Exception as e:  # noqa: BLE001
        text = f"{type(e).__name__}: {e}"[:100]
        return "unrelated-exception:" + type(e).__name__, delivered, "EXC", text
    finally:
        E4.disarm()
    return judge(interps, delivered, end), delivered, end, text


def wrapper_schedules(n, depth):
    ks = sorted({1, 2, 3, n + 2})
    for mode in ("read", "br1", "br2", "br3", "br8"):
        for seq in gen.sequences(ks, depth):
            yield (mode,) + seq
    yield ("readline",)


# size lines substituted into an otherwise well-formed framing (chunk of 2 bytes expected: value 2)
MALFORMED_SIZE_LINES = [
    b"", b"-1", b"-2", b"-0", b"+2", b"0x2", b"0X2", b"1_0", b"0_2", b"zz", b"g", b"2g", b"2;x=1", b" 2", b"2 ",
    b"\t2", b"2\r", b"\x0b2", b"2\x00", b"\xb2", b"2 2", b"0x", b"+", b"--2", b"2.0", b"2e0",
]


def malformed_inputs():
    """(descr, raw) - malformed size lines at the first / second chunk and as the last chunk, broken terminators."""
    body = b"abcd"
    for nl in (b"\r\n", b"\n"):
        for sl in MALFORMED_SIZE_LINES:
            yield ("size0:" + repr(sl), frame(body, (2, 2), nl, "lower", {0: sl}))
            yield ("size1:" + repr(sl), frame(body, (2, 2), nl, "lower", {1: sl}))
            # as the last-chunk line
            yield ("last:" + repr(sl), b"2" + nl + b"ab" + nl + sl + nl + nl)
        # 16 data bytes for the values int() makes of '1_0' / '0x10' / '+10'
        for sl in (b"1_0", b"0x10", b"+10", b"-10"):
            yield ("size16:" + repr(sl), sl + nl + b"0123456789abcdef" + nl + b"0" + nl + nl)
        # terminator problems
        yield ("term:missing", b"2" + nl + b"ab" + b"2" + nl + b"cd" + nl + b"0" + nl + nl)
        yield ("term:junk", b"2" + nl + b"abXX" + nl + b"0" + nl + nl)
        yield ("term:data-longer-than-declared", b"2" + nl + b"abc" + nl + b"0" + nl + nl)
        yield ("term:data-shorter-than-declared", b"3" + nl + b"ab" + nl + b"0" + nl + nl)
        yield ("term:cr-only-then-more", b"2" + nl + b"ab\r" + b"0" + nl + nl)
        yield ("term:double", b"2" + nl + b"ab" + nl + nl + b"0" + nl + nl)
        yield ("final:junk-after-last-chunk", b"2" + nl + b"ab" + nl + b"0" + nl + b"junk" + nl)
        yield ("empty-input", b"")
        yield ("only-newline", nl)


# ------------------------------------------------------------------ B: handler over a socket pair

class StubServer:
    ssl_context = None
    multithread = False
    multiprocess = False
    passthrough_errors = False
    server_address = ("127.0.0.1", 5000)
    _server_version = "Werkzeug/verif"

    def __init__(self, app):
        self.app = app
        self.logs = []

    def log(self, type, msg, *a):  # noqa: A002
        self.logs.append((type, (msg % a) if a else msg))


_HANDLERS: dict = {}


def handler_class(protocol):
    h = _HANDLERS.get(protocol)
    if h is None:
        class H(WSGIRequestHandler):
            protocol_version = protocol
            timeout = 5

            def log(self, type, message, *args):  # noqa: A002
                self.server.logs.append((type, message % args if args else message))

        h = _HANDLERS[protocol] = H
    return h


def serve(app, raw: bytes, protocol: str, client_address=("127.0.0.1", 1234), ssl=False, server_address=None):
    a, b = socket.socketpair()
    try:
        a.settimeout(5)
        b.settimeout(5)
        b.sendall(raw)
        b.shutdown(socket.SHUT_WR)
        srv = StubServer(app)
        if ssl:
            srv.ssl_context = object()          # make_environ only tests "is None"; no TLS is spoken
        if server_address is not None:
            srv.server_address = server_address
        E4.arm(CPU_GUARD)
        try:
            handler_class(protocol)(a, client_address, srv)
        except E4.Hang:
            srv.logs.append(("error", f"handler did not finish within {CPU_GUARD} CPU-seconds (endless loop)"))
        finally:
            E4.disarm()
        a.close()
        out = b""
        while True:
            d = b.recv(65536)
            if not d:
                break
            out += d
    finally:
        a.close()
        b.close()
    return out, srv.logs


def pct_decode(b: bytes) -> bytes:
    out = bytearray()
    i = 0
    while i < len(b):
        if b[i] == 0x25 and i + 2 < len(b) and b[i + 1] in HEXDIG and b[i + 2] in HEXDIG:
            out.append(int(b[i + 1 : i + 3], 16))
            i += 3
        else:
            out.append(b[i])
            i += 1
    return bytes(out)


def expected_target(target: str):
    """(PATH_INFO, QUERY_STRING, host override) from the raw request target - independent of urlsplit."""
    t = target
    host = None
    low = t.lower()
    if low.startswith("http://") or low.startswith("https://"):
        rest = t.split("://", 1)[1]
        cut = len(rest)
        for ch in "/?":
            p = rest.find(ch)
            if p >= 0:
                cut = min(cut, p)
        host = rest[:cut]
        t = rest[cut:]
    path, q, query = t.partition("?")
    raw_path = pct_decode(path.encode("latin-1")).decode("latin-1")
    return raw_path, query, host


def norm_slashes(p: str) -> str:
    # the suite pins that a leading '//' is collapsed (test_double_slash_path)
    return "/" + p.lstrip("/") if p.startswith("/") else p


def build_request(method, target, headers, body_mode, body, comp=None, nl=b"\r\n", hexf="lower", version="HTTP/1.1"):
    lines = [f"{method} {target} {version}".encode("latin-1")]
    # a header whose name starts with "~" is sent AFTER the framing header (Content-Length / Transfer-Encoding)
    hs = [h for h in headers if not h[0].startswith("~")]
    late = [(h[0][1:], h[1]) for h in headers if h[0].startswith("~")]
    payload = b""
    # body_mode = "none" | "cl[:<header name spelling>]" | "chunked[:<header name spelling>=<value spelling>]"
    mode, _, spell = body_mode.partition(":")
    if mode == "cl":
        hs.append((spell or "Content-Length", str(len(body))))
        payload = body
    elif mode == "chunked":
        name, _, val = (spell or "Transfer-Encoding=chunked").partition("=")
        hs.append((name, val))
        payload = frame(body, comp, nl, hexf)
    hs += late
    for k, v in hs:
        lines.append(f"{k}: {v}".encode("latin-1"))
    return b"\r\n".join(lines) + b"\r\n\r\n" + payload, hs


def expected_headers(hs, host_override):
    exp: dict = {}
    for k, v in hs:
        if "_" in k:
            continue
        v = v.lstrip(" \t")          # "Name:   value": the blanks after the colon are not part of the value
        key = k.upper().replace("-", "_")
        if key not in ("CONTENT_TYPE", "CONTENT_LENGTH"):
            key = "HTTP_" + key
            if key in exp:
                v = exp[key] + "," + v
        exp[key] = v
    if host_override is not None:
        exp["HTTP_HOST"] = host_override
    return exp


def run_request(method, target, headers, body_mode, body, comp, nl, hexf, reads, protocol="HTTP/1.1"):
    """Returns list of violation (sig, text)."""
    raw, hs = build_request(method, target, headers, body_mode, body, comp, nl, hexf)
    body_mode = body_mode.partition(":")[0]
    seen: dict = {}

    def app(environ, start_response):
        seen["method"] = environ.get("REQUEST_METHOD")
        seen["path"] = environ.get("PATH_INFO")
        seen["query"] = environ.get("QUERY_STRING")
        seen["hdrs"] = {k: v for k, v in environ.items()
                        if k.startswith("HTTP_") or k in ("CONTENT_TYPE", "CONTENT_LENGTH")}
        seen["terminated"] = environ.get("wsgi.input_terminated")
        inp = environ["wsgi.input"]
        got = b""
        err = None
        try:
            if body_mode == "cl":
                left = len(body)
                for k in reads:
                    if left <= 0:
                        break
                    d = inp.read(min(k, left))
                    got += d
                    left -= len(d)
                    if not d:
                        break
                if left > 0:
                    got += inp.read(left)
            elif body_mode == "chunked":
                stop = False
                for k in reads:
                    d = inp.read(k)
                    got += d
                    if not d:
                        stop = True
                        break
                if not stop:
                    got += inp.read()
        except Exception as e:  # noqa: BLE001
            err = f"{type(e).__name__}: {e}"
        seen["body"] = got
        seen["err"] = err
        start_response("200 OK", [("Content-Length", "2")])
        return [b"ok"]

    out, logs = serve(app, raw, protocol)
    v = []
    exp_path, exp_query, host = expected_target(target)
    if "method" not in seen:
        return [("request-not-delivered-to-application", out[:200].decode("latin-1"))]
    if seen["method"] != method:
        v.append(("method-differs", f"{seen['method']!r} != {method!r}"))
    if norm_slashes(seen["path"]) != norm_slashes(exp_path):
        v.append(("path-differs", f"PATH_INFO {seen['path']!r}, expected {exp_path!r}"))
    if seen["query"] != exp_query:
        v.append(("query-differs", f"QUERY_STRING {seen['query']!r}, expected {exp_query!r}"))
    exp_h = expected_headers(hs, host)
    if seen["hdrs"] != exp_h:
        v.append(("headers-differ", f"environ {seen['hdrs']!r}, expected {exp_h!r}"))
    if seen["err"]:
        v.append(("body-read-raised", seen["err"]))
    elif body_mode != "none" and seen["body"] != body:
        v.append(("body-differs", f"application read {seen['body']!r}, client sent {body!r}"))
    if body_mode == "chunked" and not seen["terminated"]:
        v.append(("chunked-without-input-terminated", ""))
    if not out.startswith(b"HTTP/1.1 200 OK\r\n") or not out.endswith(b"\r\n\r\nok"):
        v.append(("response-to-request-garbled", out[:200].decode("latin-1")))
    if any(t == "error" for t, _m in logs):
        v.append(("server-logged-error", str([m for t, m in logs if t == "error"])[:300]))
    return v


def parse_response(out: bytes):
    head, sep, body = out.partition(b"\r\n\r\n")
    if not sep:
        return None
    lines = head.split(b"\r\n")
    sl = lines[0].decode("latin-1")
    parts = sl.split(" ", 2)
    if len(parts) < 2:
        return None
    version, code = parts[0], parts[1]
    reason = parts[2] if len(parts) > 2 else ""
    hdrs = []
    for ln in lines[1:]:
        k, _, v = ln.decode("latin-1").partition(":")
        hdrs.append((k, v.strip()))
    return version, code, reason, hdrs, body


def dechunk_strict(b: bytes):
    """-> (body, sizes) or None when the framing is not exactly chunks + 0CRLFCRLF with nothing after."""
    pos = 0
    out = b""
    sizes = []
    while True:
        j = b.find(b"\r\n", pos)
        if j < 0:
            return None
        line = b[pos:j]
        if not line or any(c not in HEXDIG for c in line):
            return None
        n = int(line, 16)
        pos = j + 2
        if n == 0:
            if b[pos:] != b"\r\n":
                return None
            return out, sizes
        out += b[pos : pos + n]
        if len(b[pos : pos + n]) != n or b[pos + n : pos + n + 2] != b"\r\n":
            return None
        sizes.append(n)
        pos += n + 2


CL_SPELLINGS = ["Content-Length", "content-length", "CONTENT-LENGTH", "Content-length", "cOnTeNt-LeNgTh"]
# application header sets in unusual spellings: mixed-case duplicates, and names the server also emits itself
EXTRA_HEADER_SETS = [
    (),
    (("X-Probe", "a"), ("x-probe", "b"), ("X-PROBE", "c")),
    (("date", "Thu, 01 Jan 1970 00:00:00 GMT"), ("SERVER", "app-server")),
    (("connection", "close"), ("CONTENT-TYPE", "text/x-second")),
    (("content-LENGTH-x", "7"), ("X-Content-Length", "9"), ("transfer-encoding-x", "chunked")),
    (("X-Empty", ""), ("X-Zero", "0"), ("X-Empty", "")),
    "EMPTY",       # index 6: the application's header list is empty
    "SINGLE",      # index 7: a single header
]
N_UNUSUAL = 6      # indexes 1..5 are the unusual sets
SERVER_ADDED = {"server", "date", "connection", "transfer-encoding"}


def run_response(status, with_cl, items, use_write, method, protocol, extra_headers=()):
    """with_cl: False | True | the spelling of the Content-Length header name the application uses."""
    body = b"".join(items)
    if extra_headers == "EMPTY":         # start_response(status, []) (plus Content-Length when with_cl)
        app_headers = []
    elif extra_headers == "SINGLE":
        app_headers = [("X-App", "v1")]
    else:
        app_headers = [("X-App", "v1"), ("Content-Type", "text/x-test")]
        app_headers += [tuple(h) for h in extra_headers]
    if with_cl:
        app_headers.append(("Content-Length" if with_cl is True else with_cl, str(len(body))))

    def app(environ, start_response):
        w = start_response(status, list(app_headers))
        if use_write:
            for it in items:
                w(it)
            return []
        return list(items)

    raw = f"{method} /r HTTP/1.1\r\nHost: h\r\n\r\n".encode()
    out, logs = serve(app, raw, protocol)
    v = []
    p = parse_response(out)
    if p is None:
        return [("response-unparsable", out[:200].decode("latin-1"))], None
    version, code, reason, hdrs, payload = p
    want_code, _, want_reason = status.partition(" ")
    if version != protocol:
        v.append(("status-line-version", f"{version!r} != {protocol!r}"))
    if code != want_code:
        v.append(("status-code-differs", f"{code!r} != {want_code!r}"))
    if want_reason and reason != want_reason:
        v.append(("reason-differs", f"{reason!r} != {want_reason!r}"))
    # application headers: all present, in order, exact
    idx = 0
    for h in hdrs:
        if idx < len(app_headers) and h == app_headers[idx]:
            idx += 1
    if idx != len(app_headers):
        v.append(("application-headers-not-delivered", f"sent {app_headers!r}, client saw {hdrs!r}"))
    # nothing but the application's headers and the server's own (Server, Date, Connection, Transfer-Encoding)
    import collections as _c
    sent_n = _c.Counter(k.lower() for k, _v in app_headers)
    seen_n = _c.Counter(k.lower() for k, _v in hdrs)
    for name, cnt in seen_n.items():
        if name in SERVER_ADDED:
            if cnt > sent_n.get(name, 0) + 1:
                v.append(("server-header-emitted-twice", name))
        elif cnt != sent_n.get(name, 0):
            v.append(("application-header-duplicated-or-invented", f"{name} x{cnt}, application sent x{sent_n.get(name, 0)}"))
    for h in set(app_headers):
        if hdrs.count(h) != app_headers.count(h):
            v.append(("application-header-spelling-or-count-changed", f"{h!r}: sent x{app_headers.count(h)}, seen x{hdrs.count(h)}"))
    te = [val for k, val in hdrs if k.lower() == "transfer-encoding"]
    code_i = int(want_code)
    has_cl = any(k.lower() == "content-length" for k, _v in app_headers)
    want_chunked = (not has_cl and protocol == "HTTP/1.1" and method != "HEAD"
                    and not (100 <= code_i < 200) and code_i not in (204, 304))
    if want_chunked:
        if te != ["chunked"]:
            v.append(("chunked-framing-missing", f"Transfer-Encoding {te!r}"))
        else:
            dc = dechunk_strict(payload)
            if dc is None:
                v.append(("chunked-body-malformed", repr(payload[:120])))
            elif dc[0] != body:
                v.append(("chunked-body-differs", f"{dc[0]!r} != {body!r}"))
    else:
        if te:
            v.append(("chunked-framing-forbidden", f"Transfer-Encoding {te!r} for {method} {status} cl={with_cl} {protocol}"))
        if payload != body:
            v.append(("body-differs", f"client received {payload!r}, application produced {body!r}"))
    if any(t == "error" for t, _m in logs):
        v.append(("server-logged-error", str([m for t, m in logs if t == "error"])[:300]))
    return v, want_chunked


# ------------------------------------------------------------------ B2: environ extras, Expect, pipelining

CONTINUE = b"HTTP/1.1 100 Continue\r\n\r\n"


def strip_interim(out: bytes):
    n = 0
    while out.startswith(CONTINUE):
        out = out[len(CONTINUE):]
        n += 1
    return out, n


def run_env_case(client_address, ssl, server_address, req_version, target, expect, pipelined, protocol):
    """Request-derived environ keys beyond method/path/query/headers/body, the interim 100 response and
    one-request-per-connection.  Returns [(sig, text)]."""
    hs = [("Host", "h")]
    if expect is not None:
        hs.append(expect)
    lines = [f"POST {target} {req_version}"] + [f"{k}: {v}" for k, v in hs] + ["Content-Length: 3"]
    raw = "\r\n".join(lines).encode("latin-1") + b"\r\n\r\nabc"
    if pipelined:
        raw += b"GET /second HTTP/1.1\r\nHost: h\r\n\r\n"
    calls = []

    def app(environ, start_response):
        calls.append({k: environ.get(k) for k in ("REMOTE_ADDR", "REMOTE_PORT", "SERVER_NAME", "SERVER_PORT",
                                                   "SERVER_PROTOCOL", "wsgi.url_scheme", "SCRIPT_NAME", "PATH_INFO",
                                                   "REQUEST_METHOD", "HTTP_EXPECT", "wsgi.input_terminated")})
        calls[-1]["body"] = environ["wsgi.input"].read(3)
        start_response("200 OK", [("Content-Length", "2")])
        return [b"ok"]

    out, logs = serve(app, raw, protocol, client_address, ssl, server_address)
    v = []
    if len(calls) != 1:
        return [("application-called-%d-times-for-one-connection" % len(calls), out[:200].decode("latin-1"))]
    e = calls[0]
    if not client_address:
        want_addr, want_port = "<local>", 0
    elif isinstance(client_address, str):
        want_addr, want_port = client_address, 0
    else:
        want_addr, want_port = client_address[0], client_address[1]
    sa = server_address or StubServer.server_address
    exp = {"REMOTE_ADDR": want_addr, "REMOTE_PORT": want_port, "SERVER_NAME": sa[0], "SERVER_PORT": str(sa[1]),
           "SERVER_PROTOCOL": req_version, "wsgi.url_scheme": "https" if ssl else "http", "SCRIPT_NAME": "",
           "REQUEST_METHOD": "POST", "HTTP_EXPECT": expect[1] if expect and expect[0].lower() == "expect" else None, "wsgi.input_terminated": None,
           "body": b"abc"}
    for k, want in exp.items():
        if e.get(k) != want:
            v.append(("environ:" + k + "-differs", f"{k}={e.get(k)!r}, expected {want!r}"))
    exp_path, _q, _h = expected_target(target)
    if norm_slashes(e["PATH_INFO"]) != norm_slashes(exp_path):
        v.append(("path-differs", f"PATH_INFO {e['PATH_INFO']!r}, expected {exp_path!r}"))
    final, interim = strip_interim(out)
    wants100 = expect is not None and expect[0].lower() == "expect" and expect[1].strip().lower() == "100-continue"
    if interim and not wants100:
        v.append(("100-continue-sent-without-expect", out[:120].decode("latin-1")))
    # (an interim response to an HTTP/1.0 request that itself carries "Expect: 100-continue" is accepted: the
    # client used a 1.1 feature first and the statement is silent about it)
    p = parse_response(final)
    if p is None or p[1] != "200" or p[4] != b"ok":
        v.append(("response-to-request-garbled", final[:200].decode("latin-1")))
    if any(t == "error" for t, _m in logs):
        v.append(("server-logged-error", str([m for t, m in logs if t == "error"])[:300]))
    return v


# ------------------------------------------------------------------ B3: application behaviours

BEHAVIOURS = ["plain", "generator", "closable", "mixed-write", "write-empty-only", "bare-status",
              "exc-before-start", "exc-after-start", "start-twice", "exc-after-first-item",
              "exc_info-replace", "exc_info-after-write", "write-then-exc"]


class _Boom(Exception):
    pass


BEH_STATUSES = ["200 OK", "404 Not Found", "204 No Content", "304 Not Modified", "500 Oops"]


def run_behaviour(beh, with_cl, method, protocol, req_version, status0="200 OK"):
    """Applications that use the rarer parts of the WSGI response protocol, or fail.  Returns [(sig, text)]."""
    items = [b"a", b"", b"bc"]
    body = b"".join(items)
    hdr = [("X-App", "v1")] + ([("Content-Length", str(len(body)))] if with_cl else [])
    code0, _, reason0 = status0.partition(" ")
    status = code0 if beh == "bare-status" else status0
    closed = []
    crash = beh in ("exc-before-start", "exc-after-start", "start-twice", "exc-after-first-item",
                    "exc_info-after-write", "write-then-exc")

    class Closable:
        def __init__(self, it):
            self.it = iter(it)

        def __iter__(self):
            return self

        def __next__(self):
            return next(self.it)

        def close(self):
            closed.append(1)

    def app(environ, start_response):
        if beh == "exc-before-start":
            raise _Boom("before start_response")
        if beh == "exc_info-replace":
            start_response(status0, [("X-First", "1")])
            try:
                raise _Boom("handled")
            except _Boom:
                import sys as _sys
                start_response("503 Busy", list(hdr), _sys.exc_info())
            return list(items)
        w = start_response(status, list(hdr))
        if beh == "exc-after-start":
            raise _Boom("after start_response, nothing written")
        if beh == "start-twice":
            start_response(status, list(hdr))
        if beh == "generator":
            return (x for x in items)
        if beh == "closable":
            return Closable(items)
        if beh == "mixed-write":
            w(items[0])
            return list(items[1:])
        if beh == "write-empty-only":
            w(b"")
            return []
        if beh == "write-then-exc":
            w(items[0])
            raise _Boom("after write()")
        if beh in ("exc-after-first-item", "exc_info-after-write"):
            def gen():
                yield items[0]
                if beh == "exc_info-after-write":
                    try:
                        raise _Boom("late")
                    except _Boom:
                        import sys as _sys
                        start_response("500 Late", [("X-Late", "1")], _sys.exc_info())
                raise _Boom("mid-iteration")
            return gen()
        return list(items)

    if req_version == "0.9":
        raw = f"{method} /b\r\n".encode()
    else:
        raw = f"{method} /b {req_version}\r\nHost: h\r\n\r\n".encode()
    out, logs = serve(app, raw, protocol)
    v = []
    want_body = b"" if beh == "write-empty-only" else body
    chunk_ok = (protocol == "HTTP/1.1" and req_version == "HTTP/1.1" and method != "HEAD"
                and ("503" if beh == "exc_info-replace" else code0) not in ("204", "304"))
    if req_version == "0.9":
        # no status line, no headers: the body must arrive as it is
        if crash:
            return v
        if out != want_body:
            if dechunk_strict(out) is not None:
                v.append(("chunked-framing-sent-to-pre-1.1-client", f"HTTP/0.9 request got {out!r}"))
            else:
                v.append(("body-differs", f"HTTP/0.9 client received {out!r}, application produced {want_body!r}"))
        return v
    p = parse_response(out)
    if p is None:
        return [("response-unparsable", out[:200].decode("latin-1"))]
    version, code, reason, hdrs, payload = p
    te = [val for k, val in hdrs if k.lower() == "transfer-encoding"]
    if te and not chunk_ok:
        v.append(("chunked-framing-sent-to-pre-1.1-client" if req_version != "HTTP/1.1" else "chunked-framing-forbidden",
                  f"{req_version} {method} request, server {protocol}: Transfer-Encoding {te!r}"))
        return v
    if beh in ("exc-before-start", "exc-after-start", "start-twice"):
        # nothing was sent when the application failed: the documented behaviour is a 500 response
        if code != "500":
            v.append(("application-error-before-output-not-a-500", f"status {code!r} {reason!r}"))
        elif te:
            if dechunk_strict(payload) is None:
                v.append(("chunked-body-malformed", repr(payload[:80])))
        return v
    want_code, want_reason, want_hdr = code0, ("" if beh == "bare-status" else reason0), hdr
    if beh == "exc_info-replace":
        want_code, want_reason = "503", "Busy"
    if code != want_code:
        v.append(("status-code-differs", f"{code!r} != {want_code!r}"))
    if want_reason and reason != want_reason:
        v.append(("reason-differs", f"{reason!r} != {want_reason!r}"))
    for h in want_hdr:
        if hdrs.count(h) != 1:
            v.append(("application-headers-not-delivered", f"sent {want_hdr!r}, client saw {hdrs!r}"))
            break
    if beh == "exc_info-replace" and any(k == "X-First" for k, _v in hdrs):
        v.append(("replaced-headers-still-sent", repr(hdrs)))
    if beh == "exc_info-after-write" and (code != code0 or any(k == "X-Late" for k, _v in hdrs)):
        v.append(("status-changed-after-output-started", repr((code, hdrs))))
    want_chunked = (not with_cl) and chunk_ok
    if crash:
        # output had started: what arrived must be a prefix of what the application produced, and a chunked
        # body must NOT be terminated (the client has to be able to see the truncation)
        if want_chunked:
            if te != ["chunked"]:
                v.append(("chunked-framing-missing", f"Transfer-Encoding {te!r}"))
            elif dechunk_strict(payload) is not None:
                v.append(("failed-response-terminated-as-complete", repr(payload)))
            else:
                got = partial_dechunk(payload)
                if got is None or not body.startswith(got):
                    v.append(("body-differs", f"client received {payload!r}"))
        elif not body.startswith(payload) or (with_cl and payload == body and method != "HEAD"):
            v.append(("body-differs", f"client received {payload!r} from a failing application producing {items[0]!r}"))
        return v
    if want_chunked:
        if te != ["chunked"]:
            v.append(("chunked-framing-missing", f"Transfer-Encoding {te!r}"))
        else:
            dc = dechunk_strict(payload)
            if dc is None:
                v.append(("chunked-body-malformed", repr(payload[:120])))
            elif dc[0] != want_body:
                v.append(("chunked-body-differs", f"{dc[0]!r} != {want_body!r}"))
    elif payload != want_body:
        v.append(("body-differs", f"client received {payload!r}, application produced {want_body!r}"))
    if beh == "closable" and closed != [1]:
        v.append(("iterable-close-called-%d-times" % len(closed), ""))
    if any(t == "error" for t, _m in logs):
        v.append(("server-logged-error", str([m for t, m in logs if t == "error"])[:300]))
    return v


def partial_dechunk(b: bytes):
    """Concatenated data of the complete chunks at the start of b; None if b is not a prefix of a chunk stream."""
    pos = 0
    out = b""
    while pos < len(b):
        j = b.find(b"\r\n", pos)
        if j < 0:
            return None
        line = b[pos:j]
        if not line or any(c not in HEXDIG for c in line):
            return None
        n = int(line, 16)
        if n == 0 or b[pos + len(line) + 2 + n : pos + len(line) + 4 + n] != b"\r\n":
            return None
        out += b[j + 2 : j + 2 + n]
        pos = j + 2 + n + 2
    return out


METHODS = ["GET", "POST", "HEAD", "PUT"]
TARGETS = ["/", "/a%20b", "/%C3%A9", "/a;b?x=1&y=%26", "//dbl/x", "///x", "http://other/p?q", "/a?",
           "/a%2Fb%zz", "/%", "http://other.example:81", "/x?a=%C3%A9&b=//c", "/p%3Fq?r", "/%2F%2Fy"]
HEADER_SETS = [
    [("Host", "h")],
    [("Host", "h"), ("X-Foo", "1"), ("X-Foo", "2")],
    [("Host", "h"), ("X_Under", "v"), ("X-Ok", "w")],
    [("Host", "example.org:8080"), ("Content-Type", "text/plain; charset=utf-8")],
    [("X-Foo", "a b"), ("x-foo", "c"), ("X-FOO", "d"), ("Accept", "*/*")],
    # empty and blank values: alone, and in every position of a repeated header
    [("Host", "h"), ("X-A", "")],
    [("Host", "h"), ("X-A", ""), ("X-A", "2")],
    [("Host", "h"), ("X-A", "1"), ("X-A", "")],
    [("Host", "h"), ("X-A", ""), ("X-A", ""), ("X-A", "3")],
    [("Host", "h"), ("X-A", "1"), ("X-A", ""), ("X-A", "3")],
    [("Host", "h"), ("X-A", ""), ("X-A", "")],
    [("Host", "h"), ("X-A", "  "), ("X-A", "2"), ("X-B", " "), ("Accept", ""), ("accept", "0")],
    [("Host", ""), ("Content-Type", ""), ("X-A", "0"), ("X-A", "")],
    # underscore spellings of the two headers that have no HTTP_ prefix: dropped like every underscore name,
    # before / after / without the real header
    [("Host", "h"), ("Content_Length", "99"), ("Content_Type", "text/evil")],
    [("Host", "h"), ("content_type", "text/evil"), ("Content-Type", "text/plain"), ("CONTENT_LENGTH", "0")],
    [("Host", "h"), ("Content-Type", "text/plain"), ("CONTENT_TYPE", "text/evil"), ("~content_length", "1"),
     ("~Content_Type", "x/y")],
    [("Host", "h"), ("Content_length", "2"), ("~CONTENT_LENGTH", "7"), ("Transfer_Encoding", "chunked"),
     ("HTTP_X", "1"), ("X-Under_Score", "u")],
]
STATUSES = ["100 Continue", "200 OK", "204 No Content", "304 Not Modified", "404 Not Found",
            "500 Internal Server Error", "299 X", "199 Y", "205 Reset Content"]
ITEMS = [b"", b"a", b"bc"]


# ------------------------------------------------------------------ units

CLIENT_ADDRESSES = [("127.0.0.1", 1234), ("::1", 80, 0, 0), ("10.0.0.9", 65535), "", "/tmp/s.sock"]
SERVER_ADDRESSES = [None, ("localhost", 80), ("::", 8443)]
EXPECTS = [None, ("Expect", "100-continue"), ("expect", "100-Continue"), ("EXPECT", "100-CONTINUE"),
           ("Expect", "200-ok"), ("X-Expect", "100-continue")]


def tier_params(tier):
    if tier == "thorough":
        return dict(nmax=9, wdepth=3, bmax=7, items=5)
    return dict(nmax=8, wdepth=2, wdepth_small=3, bmax=7, items=5)   # wrapper schedules <= 3 reads for n <= 6


def units(tier):
    P = tier_params(tier)
    us = []
    for n in range(0, P["nmax"] + 1):
        comps = list(gen.compositions(n))
        for nl in (b"\r\n", b"\n"):
            for hexf in HEXF:
                for part in gen.chunked(comps, 4):
                    us.append(("A-wf", n, nl, hexf, part))
    for nl in (b"\r\n", b"\n"):
        for hexf in HEXF:
            us.append(("A-long", nl, hexf))
    mal = list(malformed_inputs())
    for part in gen.chunked(mal, 8):
        us.append(("A-mal", part))
    for m in METHODS:
        for ti in range(len(TARGETS)):
            us.append(("B-req", m, ti))
    for n in range(0, P["bmax"] + 1):
        for nl in (b"\r\n", b"\n"):
            us.append(("B-body", n, nl))
    for st in STATUSES:
        for proto in ("HTTP/1.0", "HTTP/1.1"):
            for method in ("GET", "HEAD"):
                us.append(("B-resp", st, proto, method, P["items"]))
    for proto in ("HTTP/1.0", "HTTP/1.1"):
        for ci in range(len(CLIENT_ADDRESSES)):
            us.append(("B-env", proto, ci))
        for beh in BEHAVIOURS:
            us.append(("B-beh", proto, beh))
    return us


def check_raw(raw, n, R, tier, meta, graph=True, wrappers=True):
    P = tier_params(tier)
    interps = interpretations(raw)
    if graph:
        sizes = list(range(1, n + 3))
        s, t, hung = explore_raw(raw, sizes, R, meta)
        R.count("states", s)
        R.count("transitions", t)
        R.count("executions", t)
        if hung:
            return
    if wrappers:
        for sched in wrapper_schedules(n, P.get("wdepth_small", P["wdepth"]) if n <= 6 else P["wdepth"]):
            sig, delivered, end, text = run_schedule(raw, sched)
            R.count("executions")
            R.count("wrapper_runs")
            R.use("A-end:" + end)
            R.outcome(("A", end, sig))
            if sig:
                report(R, f"A:{'buffered' if sched[0].startswith('br') else sched[0]}:" + sig, raw, interps, sched,
                       meta, sig, text)
                if end == "HANG":
                    break
    for _d, e, r in interps:
        R.use("ref:" + r)


def run_unit(unit, R, tier):
    kind = unit[0]
    if kind in ("B-env", "B-beh"):
        return run_unit_b2(unit, R, tier)
    P = tier_params(tier)
    if kind == "A-wf":
        _k, n, nl, hexf, comps = unit
        body = DATA[:n]
        for comp in comps:
            raw = frame(body, comp, nl, hexf)
            meta = {"family": "well-formed", "body": body, "chunks": list(comp), "cut": None}
            R.ev()
            R.use("hex:" + hexf, "nl:" + repr(nl))
            if len(comp) >= 2:
                R.nontrivial(raw)
            if R.counts["evaluations"] == 1:
                R.sample({"raw": raw, "body": body, "chunks": list(comp)})
            check_raw(raw, n, R, tier, meta)
            # every truncation
            for cut in range(len(raw)):
                traw = raw[:cut]
                meta2 = {"family": "truncated", "body": body, "chunks": list(comp), "cut": cut}
                R.ev()
                R.nontrivial(traw + b"|trunc")
                check_raw(traw, n, R, tier, meta2, graph=True, wrappers=True)
    elif kind == "A-long":
        _k, nl, hexf = unit
        for body in (LONG[:11], LONG[:12]):
            for comp in ((len(body),), (10, len(body) - 10), (1, len(body) - 1), (len(body) - 10, 10)):
                raw = frame(body, comp, nl, hexf)
                meta = {"family": "well-formed-long", "body": body, "chunks": list(comp), "cut": None}
                R.ev()
                R.nontrivial(raw)
                R.use("hex-letter:" + hexf)
                interps = interpretations(raw)
                s, t, _hung = explore_raw(raw, [1, 3, 9, 10, 11, 14], R, meta)
                R.count("states", s)
                R.count("transitions", t)
                R.count("executions", t)
                for sched in (("read", 3), ("br8", 5), ("br3", 11), ("readline",), ("read",)):
                    sig, _dl, end, text = run_schedule(raw, sched)
                    R.count("executions")
                    if sig:
                        report(R, "A:long:" + sig, raw, interps, sched, meta, sig, text)
    elif kind == "A-mal":
        for descr, raw in unit[1]:
            meta = {"family": "malformed", "descr": descr}
            R.ev()
            R.nontrivial(raw + b"|mal")
            R.use("mal:" + descr.split(":")[0])
            if descr.startswith("size0:") and R.counts["evaluations"] <= 2:
                R.sample({"malformed": descr, "raw": raw})
            check_raw(raw, 6, R, tier, meta)
    elif kind == "B-req":
        _k, method, ti = unit
        target = TARGETS[ti]
        for hs in HEADER_SETS:
            for body_mode, body, comp in (("none", b"", None), ("cl", b"abc", None), ("cl", b"", None),
                                          ("chunked", b"abc", (2, 1)), ("chunked", b"", ())):
                R.ev()
                R.count("executions")
                R.count("requests")
                R.use("B-req:" + body_mode)
                if body or len(hs) > 1 or target != "/":
                    R.nontrivial(("req", method, target, tuple(hs), body_mode, body))
                v = run_request(method, target, hs, body_mode, body, comp, b"\r\n", "lower", (2,))
                R.outcome(("Breq", tuple(s for s, _t in v)))
                for sig, text in v:
                    R.violation("B:request:" + sig, {"kind": "B-req", "method": method, "target": target,
                                                     "headers": [list(h) for h in hs], "body_mode": body_mode,
                                                     "body": body, "comp": list(comp) if comp else None,
                                                     "nl": b"\r\n", "hexf": "lower", "reads": [2], "sig": sig,
                                                     "text": text})
        if ti == 0:
            # spellings of the framing headers (names are case-insensitive, 'chunked' too)
            spelled = [("cl:content-length", b"abc", None), ("cl:CONTENT-LENGTH", b"abc", None),
                       ("cl:Content-length", b"", None),
                       ("chunked:transfer-encoding=chunked", b"abc", (1, 2)),
                       ("chunked:TRANSFER-ENCODING=CHUNKED", b"abc", (3,)),
                       ("chunked:Transfer-Encoding=Chunked", b"abcd", (2, 2))]
            for hs in (HEADER_SETS[0], [("host", "h"), ("content-TYPE", "text/plain"), ("X-foo", "1"), ("x-FOO", "2")]):
                for body_mode, body, comp in spelled:
                    for reads in ((), (2,), (1, 5)):
                        R.ev()
                        R.count("executions")
                        R.count("requests")
                        R.use("B-req:spelling")
                        R.nontrivial(("reqspell", method, tuple(hs), body_mode, body, reads))
                        v = run_request(method, "/s", hs, body_mode, body, comp, b"\r\n", "lower", reads)
                        for sig, text in v:
                            R.violation("B:request:" + sig, {"kind": "B-req", "method": method, "target": "/s",
                                                             "headers": [list(h) for h in hs], "body_mode": body_mode,
                                                             "body": body, "comp": list(comp) if comp else None,
                                                             "nl": b"\r\n", "hexf": "lower", "reads": list(reads),
                                                             "sig": sig, "text": text})
        if ti == 0 and method == "POST":
            R.sample({"request": build_request(method, "/a%20b?x=1", HEADER_SETS[1], "chunked", b"abc", (2, 1))[0]})
    elif kind == "B-body":
        _k, n, nl = unit
        body = DATA[:n]
        read_scheds = [()] + [tuple(s) for s in gen.sequences([1, 2, 3, n + 2], 2, 1)]
        for comp in gen.compositions(n):
            for hexf in HEXF:
                for reads in read_scheds:
                    R.ev()
                    R.count("executions")
                    R.count("requests")
                    R.nontrivial(("body", body, comp, nl, hexf, reads))
                    v = run_request("POST", "/b", HEADER_SETS[0], "chunked", body, comp, nl, hexf, reads)
                    R.outcome(("Bbody", tuple(s for s, _t in v)))
                    for sig, text in v:
                        R.violation("B:request:" + sig, {"kind": "B-req", "method": "POST", "target": "/b",
                                                         "headers": [list(h) for h in HEADER_SETS[0]],
                                                         "body_mode": "chunked", "body": body, "comp": list(comp),
                                                         "nl": nl, "hexf": hexf, "reads": list(reads), "sig": sig,
                                                         "text": text})
        if nl == b"\r\n":
            for reads in [tuple(c) for c in gen.compositions(n)] + [(n + 2,)]:
                R.ev()
                R.count("executions")
                R.count("requests")
                v = run_request("PUT", "/b", HEADER_SETS[0], "cl", body, None, nl, "lower", reads)
                for sig, text in v:
                    R.violation("B:request:" + sig, {"kind": "B-req", "method": "PUT", "target": "/b",
                                                     "headers": [list(h) for h in HEADER_SETS[0]], "body_mode": "cl",
                                                     "body": body, "comp": None, "nl": nl, "hexf": "lower",
                                                     "reads": list(reads), "sig": sig, "text": text})
    elif kind == "B-resp":
        _k, status, proto, method, maxitems = unit

        def one(with_cl, items, use_write, extra):
            R.ev()
            R.count("executions")
            R.count("responses")
            if items:
                R.nontrivial(("resp", status, proto, method, with_cl, items, use_write, extra))
            v, chunked = run_response(status, with_cl, items, use_write, method, proto, EXTRA_HEADER_SETS[extra])
            R.use("B-resp:chunked" if chunked else "B-resp:plain")
            if with_cl not in (False, True, "Content-Length"):
                R.use("B-resp:cl-spelling")
            if extra in (6, 7):
                R.use("B-resp:header-list-" + EXTRA_HEADER_SETS[extra].lower())
            elif extra:
                R.use("B-resp:extra-headers")
            R.outcome(("Bresp", chunked, tuple(s for s, _t in v)))
            for sig, text in v:
                R.violation("B:response:" + sig, {"kind": "B-resp", "status": status, "with_cl": with_cl,
                                                  "items": list(items), "use_write": use_write, "extra": extra,
                                                  "method": method, "protocol": proto, "sig": sig,
                                                  "text": text})

        # full item product with / without the canonical Content-Length
        for extra in (0, 6, 7):              # standard / empty / single-header list
            for with_cl in (False, True):
                for items in gen.sequences(ITEMS, maxitems):
                    for use_write in (False, True):
                        one(with_cl, items, use_write, extra)
        # every spelling of the Content-Length header name x item lists <= 2, and every unusual application
        # header set x Content-Length absent / canonical / lower case x item lists <= 2
        for items in gen.sequences(ITEMS, 2):
            for use_write in (False, True):
                for sp in CL_SPELLINGS[1:]:
                    one(sp, items, use_write, 0)
                for extra in range(1, N_UNUSUAL):
                    for with_cl in (False, True, "content-length"):
                        one(with_cl, items, use_write, extra)
        if status == "200 OK" and proto == "HTTP/1.1" and method == "GET":
            R.sample({"response_case": dict(status=status, items=[b"a", b"", b"bc"], protocol=proto),
                      "client_received": serve(lambda e, s: (s(status, [("X-App", "v1")]), [b"a", b"", b"bc"])[1],
                                               b"GET /r HTTP/1.1\r\nHost: h\r\n\r\n", proto)[0]})


def run_unit_b2(unit, R, tier):
    kind = unit[0]
    if kind == "B-env":
        _k, proto, ci = unit
        ca = CLIENT_ADDRESSES[ci]
        for ssl in (False, True):
            for sa in SERVER_ADDRESSES:
                for rv in ("HTTP/1.1", "HTTP/1.0"):
                    for target in ("/", "http://other.example:81/p%20q?x", "HTTPS://Sec.Example/", "//dbl//x"):
                        for expect in EXPECTS:
                            for pipelined in (False, True):
                                R.ev()
                                R.count("executions")
                                R.count("requests")
                                R.use("B-env:expect" if expect else "B-env:plain", "B-env:ssl" if ssl else "B-env:nossl")
                                R.nontrivial(("env", proto, ca, ssl, sa, rv, target, expect, pipelined))
                                v = run_env_case(ca, ssl, sa, rv, target, expect, pipelined, proto)
                                R.outcome(("Benv", tuple(s for s, _t in v)))
                                for sig, text in v:
                                    R.violation("B:environ:" + sig,
                                                {"kind": "B-env", "client_address": ca, "ssl": ssl, "server_address": sa,
                                                 "req_version": rv, "target": target, "expect": expect,
                                                 "pipelined": pipelined, "protocol": proto, "sig": sig, "text": text})
    else:
        _k, proto, beh = unit
        for with_cl in (False, True):
            for method in ("GET", "HEAD", "POST"):
                for rv in ("HTTP/1.1", "HTTP/1.0", "0.9"):
                    if rv == "0.9" and method != "GET":
                        continue
                    for st0 in BEH_STATUSES:
                        R.ev()
                        R.count("executions")
                        R.count("responses")
                        R.use("B-beh:" + beh, "B-beh:req-" + rv, "B-beh:status-" + st0[:3])
                        R.nontrivial(("beh", proto, beh, with_cl, method, rv, st0))
                        v = run_behaviour(beh, with_cl, method, proto, rv, st0)
                        R.outcome(("Bbeh", beh, tuple(s for s, _t in v)))
                        for sig, text in v:
                            R.violation("B:behaviour:" + sig, {"kind": "B-beh", "beh": beh, "with_cl": with_cl,
                                                               "method": method, "protocol": proto,
                                                               "req_version": rv, "status": st0, "sig": sig,
                                                               "text": text})


def finalize(R, tier):
    need = {"A-event:data", "A-event:eof", "A-event:OSError", "A-end:eof", "A-end:OSError",
            "hex:lower", "hex:upper", "hex:zero", "hex-letter:lower", "hex-letter:upper",
            "nl:" + repr(b"\r\n"), "nl:" + repr(b"\n"),
            "ref:complete", "ref:trunc-size-line", "ref:trunc-data", "ref:trunc-terminator", "ref:bad-size-line",
            "ref:bad-terminator", "ref:trunc-final-line-end", "ref:trunc-last-chunk-line", "ref:bad-final-line-end",
            "mal:size0", "mal:size1", "mal:last", "mal:term", "mal:size16",
            "B-req:none", "B-req:cl", "B-req:chunked", "B-resp:chunked", "B-resp:plain",
            "B-resp:cl-spelling", "B-resp:extra-headers", "B-req:spelling",
            "B-resp:header-list-empty", "B-resp:header-list-single", "B-env:expect", "B-env:plain", "B-env:ssl", "B-beh:req-0.9", "B-beh:req-HTTP/1.0"}
    need |= {"B-beh:" + b for b in BEHAVIOURS} | {"B-beh:status-" + x[:3] for x in BEH_STATUSES}
    missing = need - R.used
    if missing:
        raise core.Broken(f"vacuity: never exercised {sorted(missing)}")
    if R.counts["requests"] < 500 or R.counts["responses"] < 1000:
        raise core.Broken("vacuity: socket-pair product barely ran")
    P = tier_params(tier)
    return {
        "bound": f"A: bodies <= {P['nmax']} bytes (every framing x every truncation, readinto sizes 1..n+2, wrapper "
                 f"schedules <= {P['wdepth']} reads); B: chunked request bodies <= {P['bmax']} bytes, response "
                 f"item lists <= {P['items']}",
        "exhaustive": True,
        "closed": True,
        "explanation": "A: the read-schedule graph of DechunkedInput is explored to a fixpoint for every raw input "
                       "(every sequence of readinto sizes of any length is covered); B: full products as stated",
    }


# ------------------------------------------------------------------ replay / findings

def replay(rec):
    k = rec.get("kind")
    if k == "A":
        raw = rec["raw"]
        sched = tuple(rec["schedule"])
        sig, delivered, end, text = run_schedule(raw, sched)
        interps = interpretations(raw)
        t = (f"raw chunked input = {raw!r}\nschedule = {sched}\nreference (deliverable, end, reason) = {interps}\n"
             f"delivered = {delivered!r}\nend = {end} {text}\nviolation = {sig}")
        return sig == rec["sig"], t
    if k == "B-req":
        v = run_request(rec["method"], rec["target"], [tuple(h) for h in rec["headers"]], rec["body_mode"],
                        rec["body"], tuple(rec["comp"]) if rec["comp"] is not None else None, rec["nl"],
                        rec["hexf"], tuple(rec["reads"]))
        raw, _hs = build_request(rec["method"], rec["target"], [tuple(h) for h in rec["headers"]], rec["body_mode"],
                                 rec["body"], tuple(rec["comp"]) if rec["comp"] is not None else None, rec["nl"],
                                 rec["hexf"])
        return any(s == rec["sig"] for s, _t in v), f"request bytes = {raw!r}\napplication reads = {rec['reads']}\nviolations = {v}"
    if k == "B-env":
        ca = rec["client_address"]
        ca = tuple(ca) if isinstance(ca, (list, tuple)) else ca
        sa = tuple(rec["server_address"]) if rec["server_address"] is not None else None
        ex = tuple(rec["expect"]) if rec["expect"] is not None else None
        v = run_env_case(ca, rec["ssl"], sa, rec["req_version"], rec["target"], ex, rec["pipelined"], rec["protocol"])
        return any(s == rec["sig"] for s, _t in v), (
            f"client_address={ca!r} ssl_context set={rec['ssl']} server_address={sa!r} request "
            f"'POST {rec['target']} {rec['req_version']}' extra header={ex!r} pipelined second request="
            f"{rec['pipelined']} server protocol={rec['protocol']}\nviolations = {v}")
    if k == "B-beh":
        v = run_behaviour(rec["beh"], rec["with_cl"], rec["method"], rec["protocol"], rec["req_version"],
                          rec.get("status", "200 OK"))
        return any(s == rec["sig"] for s, _t in v), (
            f"application behaviour={rec['beh']} status={rec.get('status', '200 OK')!r} Content-Length given={rec['with_cl']} request={rec['method']} "
            f"{rec['req_version']} server protocol={rec['protocol']}\nviolations = {v}")
    if k == "B-resp":
        v, chunked = run_response(rec["status"], rec["with_cl"], tuple(rec["items"]), rec["use_write"],
                                  rec["method"], rec["protocol"], EXTRA_HEADER_SETS[rec.get("extra", 0)])
        return any(s == rec["sig"] for s, _t in v), (
            f"application: status={rec['status']!r} Content-Length header={rec['with_cl']!r} "
            f"extra headers={EXTRA_HEADER_SETS[rec.get('extra', 0)]} items={rec['items']} "
            f"write()={rec['use_write']} request method={rec['method']} protocol={rec['protocol']}\n"
            f"chunked framing expected={chunked}\nviolations = {v}")
    return True, rec.get("traceback", "unit exception")


def _ref(rec):
    return [tuple(x) for x in rec["reference"]]


def _eof_in_chunk_data(rec):
    """Input ends inside chunk data (or inside a size line, i.e. before any of the announced data):
    the short rfile.read() answer is slice-assigned into the caller's buffer - bytearray resized and
    count overstated, memoryview (BufferedReader) -> ValueError - instead of raising OSError."""
    if rec.get("kind") != "A":
        return False
    ref = _ref(rec)
    if any(r[1] != "error" for r in ref):
        return False
    # read the input the way the implementation does (blank-padded and int()-style size lines taken as sizes,
    # which covers combinations with the other finding): it must end inside announced chunk data
    if ref_parse(rec["raw"], True, intstyle=True)[2] not in ("trunc-data", "trunc-size-line"):
        return False
    if rec["sig"] == "readinto-resized-buffer":
        return rec["schedule"][0] in ("readinto", "read", "readline")
    if rec["sig"] == "unrelated-exception:ValueError":
        return rec["schedule"][0].startswith("br") and "memoryview assignment" in rec["text"]
    return False


import re as _re  # noqa: E402

_INT_BUT_NOT_HEX = _re.compile(rb"^[+-]?(0[xX])?[0-9a-fA-F]+(_[0-9a-fA-F]+)*$")


def _first_bad_line(raw):
    pos = 0
    while True:
        j = raw.find(b"\n", pos)
        if j < 0:
            return None
        line = raw[pos:j]
        if line.endswith(b"\r"):
            line = line[:-1]
        kind, size = classify_size_line(line)
        if kind == "bad":
            return line
        if size == 0:
            return None
        pos = j + 1 + size
        if raw[pos : pos + 2] == b"\r\n":
            pos += 2
        elif raw[pos : pos + 1] == b"\n":
            pos += 1
        else:
            return None


def _nonhex_size_accepted(rec):
    """A size line that is not 1*HEXDIG but that int(x, 16) accepts (sign, 0x prefix, underscores) is taken as a
    chunk size: the following bytes are delivered as body / the stream ends normally instead of OSError."""
    if rec.get("kind") != "A":
        return False
    if rec["sig"] not in ("bytes-after-malformed-framing-delivered-as-body",
                          "eof-instead-of-io-error-on-malformed-framing"):
        return False
    ref = _ref(rec)
    if not all(r[1] == "error" and r[2] == "bad-size-line" for r in ref):
        return False
    line = _first_bad_line(rec["raw"])
    if line is None or not _INT_BUT_NOT_HEX.match(line.strip(BLANK)):
        return False
    try:
        return int(line.decode("latin-1").strip(), 16) >= 0
    except ValueError:
        return False


def _chunked_to_old_client(rec):
    """Server protocol HTTP/1.1, request version HTTP/1.0 or HTTP/0.9, no Content-Length: the response body is
    chunk-framed although the client cannot speak chunked."""
    return (rec.get("kind") == "B-beh" and rec["sig"] == "chunked-framing-sent-to-pre-1.1-client"
            and rec["protocol"] == "HTTP/1.1" and rec["req_version"] in ("HTTP/1.0", "0.9") and not rec["with_cl"])


FINDINGS = {
    "C19-chunked-response-to-pre-http11-request": _chunked_to_old_client,
    "C19-dechunk-eof-inside-chunk-data": _eof_in_chunk_data,
    "C19-dechunk-nonhex-size-line-accepted": _nonhex_size_accepted,
}

LEVEL_TEXT = (
    "Explicit-state exploration of the real DechunkedInput: for every chunk framing of every body up to the bound, "
    "cut at every byte offset, and for a table of malformed size lines and terminators, the complete read-schedule "
    "graph (every sequence of readinto sizes, to a fixpoint) plus read/readline/BufferedReader schedules is executed "
    "and judged by an independent strict de-chunker; the request/response behaviour of WSGIRequestHandler is checked "
    "over the full stated product through a real socket pair. The suite starts a live server for ~20 scenarios."
)
LEVEL_NOTE = (
    "Trusted: the strict reference de-chunker, the harness request builder / response parser, BytesIO standing in "
    "for the buffered socket file in space A (space B uses the real one). Bodies <= 9 bytes; no TLS / keep-alive / "
    "reloader; chunk extensions, blank-padded size lines and truncation after the last-chunk line accept either outcome."
)
TECHNIQUE = "explicit-state read-schedule graphs of the de-chunker + exhaustive request/response product over a socket pair"
DESIGN_REF = "DESIGN.md §4 C19"
