"""C10 - configured form limits are enforced and are pure guards.

D (E3)  MultipartDecoder with limits: for limit-sized bodies x (max_form_memory_size, max_parts)
        the complete arrival-schedule graph (every way of cutting the body into receive_data calls);
        monitor after every receive_data: len(buffer) <= max_form_memory_size, parts <= max_parts;
        every terminal output is RequestEntityTooLarge or the ground-truth part list.
P (E1+E4) MultiPartParser.parse for every buffer_size (and every single short read for a stated
        set of buffer sizes) x limit configurations.
F (E1+E4) Request.form / parse_form_data over the configuration product
        max_form_memory_size x max_form_parts x max_content_length x CONTENT_LENGTH present/absent x
        wsgi.input_terminated, on an instrumented input stream (bytes taken are counted), multipart
        and urlencoded bodies, default answers and every single short read.
"""
from __future__ import annotations

import collections
import io

from checks import c01
from mc import core, env as E4

ID = "C10"
LEVEL = "model_checking"
RULE = (
    "bodies = limit-sized derivations of the C01 grammar for L in the tier's set (one field of L-1, L, L+1 bytes of "
    "letters / CRLF lines / CR / LF, a file of 3L, 1..5 tiny parts, a header block > L, a preamble of 2L, bodies "
    "without any delimiter) and urlencoded bodies with a field of L-1, L, L+1 bytes / several fields; D: for each "
    "body x (max_form_memory_size in {None, 16, L, len(body)-1, len(body), 10*len(body)}) x (max_parts in {None, "
    "parts-1, parts, parts+1}) the complete arrival-schedule graph of the real MultipartDecoder with a monitor "
    "after every receive_data; P: MultiPartParser.parse for every buffer_size 1..len+1 (+ every single short read "
    "for buffer sizes {1, 7, L, len+1}); F: Request.form and parse_form_data for max_form_memory_size x "
    "max_form_parts x max_content_length in {None, small, exact, large} x CONTENT_LENGTH present/absent x "
    "wsgi.input_terminated x underlying stream with/without readinto, default answers plus every single short "
    "read (E4, deviation bound 1). additionally: bodies with a FALSE delimiter followed by a long run, a long run after the headers and a long "
    "epilogue under max_form_memory_size 64/96 (every decoder state after the header block), empty form, charset "
    "field, part without Content-Disposition; at parser and form level the real decoder is observed "
    "(largest buffer after a receive_data); at form level also Request with cached data, limits as instance "
    "attributes, get_data(parse_form_data=True), FormDataParser(silent=False), FormDataParser.parse directly, "
    "content-type parameter spellings, content that is not a form, multipart without usable boundary, and a "
    "declared length that lies below max_content_length on a longer terminated stream. "
    "non-trivial = distinct (body, configuration) in which at least one limit is "
    "set and the body is within a factor 3 of it."
)
ASSUMPTIONS = [
    "decoder future depends only on its instance attributes (C01's clone and state key are generic over vars())",
    "callers pump next_event() until NEED_DATA after each receive_data (what MultiPartParser does)",
    "ground truth for 'parsing without limits' is the part list the body was built from (C01 establishes that the "
    "unlimited decoder returns it on every schedule)",
    "CONTENT_LENGTH, when present, is truthful (lying lengths are C09's space)",
    "whether a body *inside* all limits is accepted is not demanded (refusals need not be schedule independent)",
]

from werkzeug.exceptions import RequestEntityTooLarge  # noqa: E402
from werkzeug.formparser import FormDataParser, MultiPartParser, parse_form_data  # noqa: E402
from werkzeug.sansio import multipart as mp  # noqa: E402
from werkzeug.wrappers import Request  # noqa: E402

B = b"bnd"


def fld(name, p):
    return ("field", name, None, None, p)


def fil(name, p, ct=b"text/plain"):
    return ("file", name, b"f.txt", ct, p)


# ------------------------------------------------------------------ bodies

def multipart_bodies(L, tier):
    """(descr, parts|None, body, kw) - parts None = not a well-formed multipart body (no ground truth)."""
    T = tier == "thorough"
    out = []

    def add(descr, parts, **kw):
        for _k, _n, _f, _c, p in parts:
            if not c01.well_formed_payload(p, B, kw.get("nl", b"\r\n")):
                raise core.Broken(f"C10 body generator made an ill-formed payload: {descr}")
        out.append((descr, tuple(parts), c01.build_body(parts, B, **kw)))

    for d in (-1, 0, 1):
        add(f"field:x*{L + d}", [fld(b"a", b"x" * (L + d))])
    add(f"field:crlf*{L}", [fld(b"a", b"\r\n" * L)])
    add(f"field:cr*{2 * L}", [fld(b"a", b"\r" * (2 * L))])
    add(f"field:lf*{2 * L}", [fld(b"a", b"\n" * (2 * L))])
    add(f"field:lines*{L + 1}", [fld(b"a", (b"ab\r\n" * L)[: L + 1])])
    add(f"file:y*{3 * L}", [fil(b"f", b"y" * (3 * L))])
    add(f"file:lines*{3 * L}", [fil(b"f", (b"yyyyyy\r\n" * L)[: 3 * L])])
    for k in range(1, (6 if T else 5)):
        add(f"tiny*{k}", [fld(b"a%d" % i, b"v") for i in range(k)])
    add("tiny-mixed*3", [fld(b"a", b"v"), fil(b"f", b"w"), fld(b"a", None)])
    add(f"two-fields:{L}+{L}", [fld(b"a", b"x" * L), fld(b"b", b"z" * L)])
    add(f"preamble*{2 * L}", [fld(b"a", b"v")], pre=b"p" * (2 * L))
    # a header block larger than L: extra header on a field
    hb = c01.build_body([fld(b"a", b"v")], B).replace(
        b'name="a"\r\n', b'name="a"\r\nX-Pad: ' + b"h" * L + b"\r\n")
    out.append((f"bigheader*{L}", (("field", b"a", None, None, b"v", (("X-Pad", "h" * L),)),), hb))
    # no delimiter at all
    out.append((f"nodelim:x*{2 * L}", None, b"x" * (2 * L)))
    out.append((f"nodelim:crlf*{L}", None, b"\r\n" * L))
    out.append((f"nodelim:cr*{2 * L}", None, b"\r" * (2 * L)))
    out.append((f"nodelim:lf*{2 * L}", None, b"\n" * (2 * L)))
    out.append((f"nodelim:headers-never-end*{2 * L}", None, b"\r\n--bnd\r\nX: " + b"h" * (2 * L)))
    out.extend(state_bodies())
    if L == 16:
        out.extend(misc_bodies())
        out.extend(order_bodies(T))
    return out


ORDER_M = 64        # max_form_memory_size for the part-order layouts (the 61-byte file header block fits)


def order_bodies(thorough=False):
    """Part-ORDER layouts: every sequence of <= 3 parts over {small field, field of M+1, field of 3M, small file,
    large file}.  A field larger than max_form_memory_size must be refused wherever it stands (before / after /
    between files), and max_form_parts must count parts of every kind in every order."""
    import itertools
    M = ORDER_M
    kinds = {
        "f": lambda i: fld(b"a%d" % i, b"v"),
        "x": lambda i: fld(b"a%d" % i, b"x" * (M + 1)),
        "X": lambda i: fld(b"a%d" % i, b"x" * (3 * M)),
        "F": lambda i: fil(b"u%d" % i, b"w", None),
        "G": lambda i: fil(b"u%d" % i, b"y" * (3 * M), None),
    }
    out = []
    for k in (1, 2, 3):
        for seq in itertools.product("fxXFG", repeat=k):
            parts = [kinds[c](i) for i, c in enumerate(seq)]
            out.append(("order:" + "".join(seq), tuple(parts), c01.build_body(parts, B)))
    # four small parts of either kind in every order (part counting exactly at the limit, N = 4)
    for seq in itertools.product("fF", repeat=4):
        parts = [kinds[c](i) for i, c in enumerate(seq)]
        out.append(("order:" + "".join(seq), tuple(parts), c01.build_body(parts, B)))
    return out


def misc_bodies():
    """Shapes the anchored code distinguishes that the limit-sized families do not produce."""
    out = []
    # an empty form: the first delimiter is already the closing one (PREAMBLE -> EPILOGUE)
    out.append(("tiny*0:first-nl", (), c01.build_body((), B)))
    out.append(("tiny*0:no-first-nl", (), c01.build_body((), B, first_nl=False)))
    # a field that declares its charset (get_part_charset)
    out.append(("tiny:charset", (("field", b"a", None, None, b"v\xe9", (("Content-Type", "text/plain; charset=iso-8859-1"),)),),
                c01.build_body([fld(b"a", b"v\xe9")], B).replace(
                    b'name="a"\r\n', b'name="a"\r\nContent-Type: text/plain; charset=iso-8859-1\r\n')))
    # a part without Content-Disposition: not form data at all
    out.append(("nodelim:part-without-disposition", None, b"\r\n--bnd\r\nX-Other: 1\r\n\r\nv\r\n--bnd--\r\n"))
    return out


STATE_M = (64, 96)      # max_form_memory_size values for the "state:" families (large enough for the header block)


def state_bodies():
    """Bodies (independent of L) that make the decoder buffer grow in every decoder state *after* the header
    block, judged under max_form_memory_size in STATE_M:
    a FALSE delimiter in part data ('\\r\\n--bndx': boundary text followed by a non-blank) followed by a long run
    without a line break - while '--bnd' is in the buffer and no real delimiter matches, _parse_data can only
    release data up to the last line break, so the run accumulates (state DATA; file parts have no field_size
    check); a long run right after the headers (DATA_START -> DATA); a long epilogue (EPILOGUE)."""
    out = []

    def add(descr, parts, **kw):
        for _k, _n, _f, _c, p in parts:
            if not c01.well_formed_payload(p, B, kw.get("nl", b"\r\n")):
                raise core.Broken(f"C10 body generator made an ill-formed payload: {descr}")
        out.append(("state:" + descr, tuple(parts), c01.build_body(parts, B, **kw)))

    fd = b"head\r\n--bndx"
    for run in (20, 60, 100, 150):
        add(f"falsedelim-file*{run}", [fil(b"f", fd + b"A" * run, None)])
    for run in (20, 100):
        add(f"falsedelim-field*{run}", [fld(b"a", fd + b"A" * run)])
    add("falsedelim-lf-file*100", [fil(b"f", b"head\n--bndx" + b"A" * 100, None)])
    add("falsedelim-twice-file*100", [fil(b"f", fd + b"A" * 50 + b"\r\n--bnd-" + b"A" * 100, None)])
    add("falsedelim-file-then-field", [fil(b"f", fd + b"A" * 100, None), fld(b"a", b"v")])
    add("longrun-file*150", [fil(b"f", b"A" * 150, None)])
    add("epilogue*100", [fld(b"a", b"v")], epi=b"e" * 100)
    return out


def exp_parts(parts):
    """ground truth in c01.normalise form, allowing an extra header tuple as 6th element."""
    plain = [p[:5] for p in parts]
    exp = list(c01.expected_parts(plain))
    for i, p in enumerate(parts):
        if len(p) > 5:
            kind, name, filename, hdrs, payload, term = exp[i]
            exp[i] = (kind, name, filename, hdrs + tuple(p[5]), payload, term)
    return tuple(exp)


def exp_form(parts):
    f, fl = c01.expected_form([p[:5] for p in parts])
    f = list(f)
    i = 0
    for p in parts:
        if p[0] == "field":
            if len(p) > 5 and any("iso-8859-1" in v for _k, v in p[5]):
                f[i] = (f[i][0], (p[4] or b"").decode("iso-8859-1"))
            i += 1
    return tuple(f), fl


def nparts(parts):
    return len(parts)


def biggest_field(parts):
    return max([len(p[4] or b"") for p in parts if p[0] == "field"] or [0])


# ------------------------------------------------------------------ D: decoder graph with limits

def explore_limited(body, mfms, max_parts, R):
    """BFS over the arrival-schedule graph of a limited decoder.
    Returns (states, transitions, finals{terminal output: schedule}, monitor violations[(sig, schedule)])."""
    n = len(body)
    d0 = mp.MultipartDecoder(B, mfms, max_parts=max_parts)
    if not hasattr(d0, "buffer"):
        raise core.Broken("MultipartDecoder no longer has a .buffer: the memory monitor cannot observe it")
    seen = {c01.state_key(d0, 0, ())}
    queue = collections.deque([(0, d0, (), ())])
    trans = 0
    finals: dict = {}
    mon: dict = {}
    while queue:
        off, d, out, sched = queue.popleft()
        steps = [None] if off == n else range(n - off, 0, -1)
        for k in steps:
            d2 = c01.clone(d)
            s2 = sched + ((k,) if k else ())
            trans += 1
            E4.arm(CPU_GUARD)
            try:
                d2.receive_data(None if k is None else body[off : off + k])
            except RequestEntityTooLarge:
                R.use("D:receive-RETL")
                finals.setdefault(out + (("EXC", "RequestEntityTooLarge"),), s2)
                continue
            except E4.Hang:
                finals.setdefault(out + (("EXC", "Hang"),), s2)
                continue
            except Exception as e:  # noqa: BLE001
                finals.setdefault(out + (("EXC", type(e).__name__),), s2)
                continue
            finally:
                E4.disarm()
            if mfms is not None and len(d2.buffer) > mfms:
                mon.setdefault("buffer-exceeds-max_form_memory_size", (s2, len(d2.buffer)))
            E4.arm(CPU_GUARD)
            try:
                o, done = c01.pump(d2, out)
            except E4.Hang:
                finals.setdefault(out + (("EXC", "Hang"),), s2)
                continue
            finally:
                E4.disarm()
            if mfms is not None and len(d2.buffer) > mfms:
                mon.setdefault("buffer-exceeds-max_form_memory_size", (s2, len(d2.buffer)))
            if max_parts is not None and sum(1 for e in o if e[0] in ("F", "L")) > max_parts:
                mon.setdefault("more-parts-returned-than-max_parts", (s2, None))
            if done or k is None:
                finals.setdefault(o, s2)
                continue
            kk = c01.state_key(d2, off + k, o)
            if kk not in seen:
                seen.add(kk)
                queue.append((off + k, d2, o, s2))
    return len(seen), trans, finals, mon


def run_limited_schedule(body, mfms, max_parts, sched):
    d = mp.MultipartDecoder(B, mfms, max_parts=max_parts)
    out = ()
    off = 0
    maxbuf = 0
    for k in list(sched) + [None]:
        try:
            d.receive_data(None if k is None else body[off : off + k])
        except Exception as e:  # noqa: BLE001
            return out + (("EXC", type(e).__name__),), maxbuf
        maxbuf = max(maxbuf, len(d.buffer))
        if k:
            off += k
        out, done = c01.pump(d, out)
        if done:
            return out, maxbuf
    return out, maxbuf


def classify_terminal(o):
    parts, tail = c01.normalise(o)
    exc = [t[1] for t in tail if t[0] == "EXC"]
    if exc:
        return "RETL" if exc[0] == "RequestEntityTooLarge" else "EXC:" + exc[0], parts, tail
    if tail == (("END",),):
        return "ok", parts, tail
    return "odd", parts, tail


def judge_decoder(descr, parts, mfms, max_parts, term):
    """-> signature or None for one terminal output."""
    kind, gparts, tail = term
    if parts is None:                      # no ground truth: must not succeed
        if kind == "ok":
            return "undelimited-input-parsed-successfully"
        if kind == "RETL" and mfms is None and max_parts is None:
            return "RETL-without-any-limit"
        return None if kind in ("RETL", "EXC:ValueError") else "unexpected-outcome:" + kind
    if kind == "RETL":
        if mfms is None and max_parts is None:
            return "RETL-without-any-limit"
        if mfms is None and nparts(parts) <= max_parts:
            # the only limit set is the part count and the body has no more parts than allowed
            return "RETL-although-part-count-within-max_form_parts"
        return None
    if max_parts is not None and nparts(parts) > max_parts:
        return "too-many-parts-not-refused:" + kind
    if kind == "ok":
        return None if gparts == exp_parts(parts) else "limited-success-differs-from-unlimited"
    return "limits-turned-success-into:" + kind


# ------------------------------------------------------------------ P: MultiPartParser

class SpyDecoder(mp.MultipartDecoder):
    """The real decoder, observed: largest len(buffer) seen right after a receive_data that returned
    (property anchor 'observe_at: len(decoder.buffer) after each receive_data').  MultiPartParser is made to
    instantiate it, so the parser and form levels see what the decoder level's monitor sees."""

    peak = 0

    def receive_data(self, data):
        super().receive_data(data)
        n = len(self.buffer)
        if n > SpyDecoder.peak:
            SpyDecoder.peak = n


import werkzeug.formparser as _fp  # noqa: E402

if _fp.MultipartDecoder is not mp.MultipartDecoder and not issubclass(_fp.MultipartDecoder, mp.MultipartDecoder):
    raise core.Broken("werkzeug.formparser no longer uses sansio.multipart.MultipartDecoder")
_fp.MultipartDecoder = SpyDecoder


def parse_with(body, bs, mfms, mparts, dev):
    src = c01.Src(body, dev)
    p = MultiPartParser(max_form_memory_size=mfms, max_form_parts=mparts, buffer_size=bs)
    SpyDecoder.peak = 0
    src.peak = lambda: SpyDecoder.peak
    E4.arm(CPU_GUARD)
    try:
        form, files = p.parse(src, B, len(body))
    except RequestEntityTooLarge:
        return "RETL", src
    except E4.Hang:
        return "EXC:Hang", src
    except Exception as e:  # noqa: BLE001
        return "EXC:" + type(e).__name__, src
    finally:
        E4.disarm()
    f = tuple(form.items(multi=True))
    fl = tuple((k, v.filename, v.content_type, v.stream.read()) for k, v in files.items(multi=True))
    return (f, fl), src


def judge_parser(parts, mfms, mparts, got, peak=0):
    if mfms is not None and peak > mfms:
        return "decoder-buffer-exceeds-max_form_memory_size"
    if parts is None:
        if isinstance(got, tuple):
            return "undelimited-input-parsed-successfully"
        if got == "RETL" and mfms is None and mparts is None:
            return "RETL-without-any-limit"
        return None if got in ("RETL", "EXC:ValueError") else "unexpected-outcome:" + got
    if got == "RETL":
        if mfms is None and mparts is None:
            return "RETL-without-any-limit"
        if mfms is None and nparts(parts) <= mparts:
            return "RETL-although-part-count-within-max_form_parts"
        return None
    tag = "success" if isinstance(got, tuple) else got
    if mfms is not None and biggest_field(parts) > mfms:
        return "field-larger-than-max_form_memory_size-not-refused:" + tag
    if mparts is not None and nparts(parts) > mparts:
        return "too-many-parts-not-refused:" + tag
    if isinstance(got, tuple):
        return None if got == exp_form(parts) else "limited-success-differs-from-unlimited"
    return "limits-turned-success-into:" + got


# ------------------------------------------------------------------ F: Request.form / parse_form_data

class In:
    """Instrumented wsgi.input: counts what is taken, answers chosen through an E4 chooser."""

    all_lengths = False      # short answers: every length (thorough) or {full-1, full//2, 1} (quick)

    def __init__(self, data, ch):
        self.data = data
        self.pos = 0
        self.ch = ch
        self.calls = []

    def _answer(self, asked):
        if len(self.calls) > 400:
            raise c09_hang()
        left = len(self.data) - self.pos
        unbounded = asked is None or asked < 0
        full = left if unbounded else min(asked, left)
        if full <= 1 or unbounded:
            # read() without a size means "until EOF" on a blocking stream: no short answer
            a = full
        else:
            if self.all_lengths:
                opts = [full, *range(full - 1, 0, -1)]
            else:
                opts = list(dict.fromkeys([full, full - 1, full // 2, 1]))
            a = opts[self.ch.choose(len(opts), (asked if asked is not None and asked >= 0 else -1, left))]
        self.calls.append((asked, a))
        out = self.data[self.pos : self.pos + a]
        self.pos += a
        return out

    def read(self, n=-1):
        return self._answer(n)


class InRI(In):
    def readinto(self, b):
        out = self._answer(len(b))
        b[: len(out)] = out
        return len(out)


c09_hang = E4.Hang
CPU_GUARD = 2.0         # CPU-seconds one decoder transition / one parse may take (normal: < 1 ms)


def url_bodies(L):
    """(descr, body, expected items, biggest field value)"""
    out = []
    for d in (-1, 0, 1):
        v = "x" * (L + d)
        out.append((f"url:a=x*{L + d}", ("a=" + v).encode(), (("a", v),), L + d))
    v = "x" * (L - 4)
    out.append((f"url:total>{L}", ("a=" + v + "&b=" + v).encode(), (("a", v), ("b", v)), L - 4))
    out.append(("url:tiny*3", b"a=1&b=2345&c=9", (("a", "1"), ("b", "2345"), ("c", "9")), 4))
    v = "%41" * (L // 2)
    out.append((f"url:pct*{L // 2}", ("a=" + v).encode(), (("a", "A" * (L // 2)),), L // 2))
    return out


def declared_length(with_cl, n):
    """with_cl: True (truthful) | False (absent) | ('lie', k): the header says k although the body has n bytes."""
    if with_cl is True:
        return n
    if with_cl is False or with_cl is None:
        return None
    return int(with_cl[1])


def run_form(cfg, ch):
    """cfg = (ctype, body, mfms, mparts, mcl, with_cl, terminated, ri, via)"""
    ctype, body, mfms, mparts, mcl, with_cl, terminated, ri, via = cfg
    inp = (InRI if ri else In)(body, ch)
    environ = {"REQUEST_METHOD": "POST", "wsgi.input": inp, "CONTENT_TYPE": ctype}
    d = declared_length(with_cl, len(body))
    if d is not None:
        environ["CONTENT_LENGTH"] = str(d)
    if terminated:
        environ["wsgi.input_terminated"] = True
    SpyDecoder.peak = 0
    E4.arm(CPU_GUARD)
    try:
        if via in ("request", "request-cached"):
            class Rq(Request):
                max_content_length = mcl
                max_form_memory_size = mfms
                max_form_parts = mparts
            rq = Rq(environ)
            if via == "request-cached":
                rq.get_data()                # the form is then parsed from the cached bytes
            form, files = rq.form, rq.files
        elif via == "request-instance":
            rq = Request(environ)            # limits set on the instance, not on a subclass
            rq.max_content_length = mcl
            rq.max_form_memory_size = mfms
            rq.max_form_parts = mparts
            form, files = rq.form, rq.files
        elif via == "request-get-data-parse":
            class Rq2(Request):
                max_content_length = mcl
                max_form_memory_size = mfms
                max_form_parts = mparts
            rq = Rq2(environ)
            rq.get_data(parse_form_data=True)     # parses the form first (and must apply the same limits)
            form, files = rq.form, rq.files
        elif via == "parser-parse-direct":
            # FormDataParser.parse on the bare stream, options omitted where the mimetype needs none
            from werkzeug.http import parse_options_header as _poh
            mt, opts = _poh(ctype)
            _s, form, files = FormDataParser(max_form_memory_size=mfms, max_form_parts=mparts).parse(
                inp, mt, len(body), opts or None)
        elif via == "parser-not-silent":
            _s, form, files = FormDataParser(max_form_memory_size=mfms, max_content_length=mcl,
                                             max_form_parts=mparts, silent=False).parse_from_environ(environ)
        else:
            _s, form, files = parse_form_data(environ, max_form_memory_size=mfms, max_content_length=mcl,
                                              max_form_parts=mparts)
    except RequestEntityTooLarge:
        return "RETL", inp
    except c09_hang:
        return "HANG", inp
    except Exception as e:  # noqa: BLE001
        return "EXC:" + type(e).__name__, inp
    finally:
        E4.disarm()
    f = tuple(form.items(multi=True))
    fl = tuple((k, v.filename, v.content_type, v.stream.read()) for k, v in files.items(multi=True))
    return (f, fl), inp


def judge_form(cfg, truth, got, inp):
    """truth = (expected (fields, files), number of parts or None for urlencoded, biggest field)."""
    ctype, body, mfms, mparts, mcl, with_cl, terminated, ri, via = cfg
    exp, np_, big = truth[:3]
    n = len(body)
    tag = "success" if isinstance(got, tuple) else got
    special = exp if isinstance(exp, str) else None
    if got == "EXC:ValueError" and special == "ill-formed" and via == "parser-not-silent":
        got = ((), ())               # not silent: the parse error is raised instead of an empty result
    if got == "EXC:ValueError" and via == "parser-not-silent" and not (terminated or declared_length(with_cl, n) is not None) \
            and ctype.startswith("multipart/"):
        got = ((), ())               # nothing usable to read: the empty stream is not a multipart body
    if got == "HANG" or (isinstance(got, str) and got.startswith("EXC")):
        return "form-parsing-raised:" + got
    declared = declared_length(with_cl, n)
    lie = declared is not None and declared != n
    if mfms is not None and SpyDecoder.peak > mfms and ctype.startswith("multipart/"):
        return "decoder-buffer-exceeds-max_form_memory_size"
    if declared is not None and mcl is not None and declared > mcl:
        if got != "RETL":
            return "declared-length-over-max_content_length-not-refused:" + tag
        if inp.pos or inp.calls:
            return "input-read-although-declared-length-over-max_content_length"
        return None
    if terminated and mcl is not None and inp.pos > mcl:
        return "more-than-max_content_length-taken-from-terminated-stream"
    if lie and special is None:
        # only generated for: terminated stream that delivers more than max_content_length although the
        # declared length is within it -> must be refused while reading
        return None if got == "RETL" else "terminated-stream-longer-than-max_content_length-not-refused:declared-length-lies"
    visible = terminated or declared is not None
    if not visible:
        # no usable length on a server that does not terminate its input: nothing may be read
        if inp.pos or inp.calls:
            return "input-read-without-usable-length"
        if got == "RETL" and mfms is None and mparts is None and mcl is None:
            return "RETL-without-any-limit"
        return None if got in ((), ((), ()), "RETL") else "form-from-unreadable-input"
    if got == "RETL":
        if mfms is None and mparts is None and mcl is None:
            return "RETL-without-any-limit"
        if mfms is None and mcl is None and special is None and np_ is not None and np_ <= mparts:
            return "RETL-although-part-count-within-max_form_parts"
        return None
    # parsing "succeeded"
    if special == "none-parsed":
        if got != ((), ()):
            return "form-data-from-content-that-is-not-a-form"
        if (inp.pos or inp.calls) and via not in ("request-cached", "request-get-data-parse"):
            return "input-read-for-content-that-is-not-a-form"
        return None
    if special == "ill-formed":
        return None if got == ((), ()) else "ill-formed-multipart-produced-form-data"
    if terminated and declared is None and mcl is not None and n > mcl:
        return "terminated-stream-longer-than-max_content_length-not-refused"
    if mfms is not None and big > mfms:
        return "field-larger-than-max_form_memory_size-not-refused"
    if np_ is not None and mparts is not None and np_ > mparts:
        return "too-many-parts-not-refused"
    if got != exp:
        return "limited-success-differs-from-unlimited"
    return None


# ------------------------------------------------------------------ H: access histories on one Request

H_ACCESSES = ["get_data", "get_data-nocache", "get_data-parse", "data", "form", "files", "values"]


def h_bodies():
    mixed = [fld(b"a", b"v"), fil(b"f", b"w"), fld(b"b", b"2345")]
    return [
        ("url", "application/x-www-form-urlencoded", b"a=1&b=2345&c=9",
         (("a", "1"), ("b", "2345"), ("c", "9")), ()),
        ("multipart", "multipart/form-data; boundary=bnd", c01.build_body(mixed, B),
         (("a", "v"), ("b", "2345")), (("f", "f.txt"),)),
    ]


def h_expectation(n, with_cl, terminated, mcl):
    """-> (set of allowed whole-body outcomes: 'RETL' | 'body' | 'empty')"""
    if with_cl and mcl is not None and n > mcl:
        return {"RETL"}
    if not (with_cl or terminated):
        return {"empty"}
    if terminated and mcl is not None:
        if n > mcl:
            return {"RETL"}
        if n == mcl:
            return {"RETL", "body"}
    return {"body"}


def run_h(cfgh):
    """cfgh = (bi, with_cl, terminated, mcl, accesses) -> outcomes [(kind, value) | 'RETL' | 'EXC:..']"""
    bi, with_cl, terminated, mcl, accesses = cfgh
    _d, ctype, body, _form, _files = h_bodies()[bi]
    inp = In(body, E4.Chooser(()))
    environ = {"REQUEST_METHOD": "POST", "wsgi.input": inp, "CONTENT_TYPE": ctype, "QUERY_STRING": ""}
    if with_cl:
        environ["CONTENT_LENGTH"] = str(len(body))
    if terminated:
        environ["wsgi.input_terminated"] = True

    class Rq(Request):
        max_content_length = mcl

    rq = Rq(environ)
    out = []
    for a in accesses:
        E4.arm(CPU_GUARD)
        try:
            if a == "get_data":
                r = ("bytes", bytes(rq.get_data()))
            elif a == "get_data-nocache":
                r = ("bytes", bytes(rq.get_data(cache=False)))
            elif a == "get_data-parse":
                r = ("bytes", bytes(rq.get_data(parse_form_data=True)))
            elif a == "data":
                r = ("bytes", bytes(rq.data))
            elif a == "form":
                r = ("form", tuple(rq.form.items(multi=True)))
            elif a == "values":
                r = ("form", tuple(rq.values.items(multi=True)))
            else:
                r = ("files", tuple((k, v.filename) for k, v in rq.files.items(multi=True)))
            out.append(r)
        except RequestEntityTooLarge:
            out.append("RETL")
        except E4.Hang:
            out.append("EXC:Hang")
        except Exception as e:  # noqa: BLE001
            out.append("EXC:" + type(e).__name__)
        finally:
            E4.disarm()
    return out


def judge_h(cfgh, outs):
    bi, with_cl, terminated, mcl, accesses = cfgh
    _d, _ctype, body, form, files = h_bodies()[bi]
    exp = h_expectation(len(body), with_cl, terminated, mcl)
    want = {"bytes": body, "form": form, "files": files}
    refused = False
    for i, (a, o) in enumerate(zip(accesses, outs)):
        if isinstance(o, str):
            if o != "RETL":
                return "history:unrelated-exception:" + o
            if "RETL" not in exp:
                return "history:RequestEntityTooLarge-not-justified"
            refused = True
            continue
        kind, val = o
        if not val:
            if i == 0 and exp == {"RETL"}:
                return "history:body-over-max_content_length-not-refused"
            if i == 0 and exp == {"body"} and a in ("get_data", "get_data-nocache", "form", "values"):
                return "history:first-access-empty"
            continue                      # empty because consumed / nothing of that kind / nothing readable
        if refused or exp == {"RETL"}:
            return "history:body-derived-data-for-body-over-max_content_length"
        if exp == {"empty"}:
            return "history:data-from-unreadable-input"
        if val != want[kind]:
            return "history:access-result-differs-from-single-access"
    return None


# ------------------------------------------------------------------ units

def tier_params(tier):
    """Ls_D / Ls_P / Ls_F: the L values used at decoder / parser / form level.  L >= 48 is needed at the parser
    level so that the ~45-byte header block fits under max_form_memory_size = L and the field-size checks are
    reached at all."""
    if tier == "thorough":
        Ls = (16, 32, 48, 64, 96)
        return dict(Ls=Ls, Ls_D=Ls, Ls_P=Ls, Ls_F=Ls,
                    # every single short read at EVERY buffer size for bodies up to 160 bytes, a stated set above
                    short_bs=lambda L, n: (range(1, n + 2) if n <= 160 else
                                           sorted({1, 2, 7, L - 1, L, L + 1, n, n + 1})),
                    form_dev=1, all_lengths=True)
    return dict(Ls=(16, 32, 48, 64), Ls_D=(16, 32), Ls_P=(16, 32, 48, 64), Ls_F=(16, 48, 64),
                # every single short read at every buffer size for bodies up to 90 bytes (thorough: up to 160)
                short_bs=lambda L, n: (range(1, n + 2) if n <= 90 else sorted({1, 2, 7, L - 1, L, L + 1, n, n + 1})),
                form_dev=1, all_lengths=False)


def mfms_values(L, n, tier, tiny):
    if tier == "thorough":
        return list(dict.fromkeys([None, 16, L, n - 1, n, 10 * n]))
    # quick: the unlimited decoder is C01's job; keep it only where max_parts alone is under test
    return list(dict.fromkeys(([None] if tiny else []) + [L, n - 1, n]))


def max_parts_values(np_, tier, tiny):
    if tier == "thorough" or tiny:
        return list(dict.fromkeys([None, max(np_ - 1, 0), np_, np_ + 1]))
    return list(dict.fromkeys([None, max(np_ - 1, 0), np_]))


def units(tier):
    P = tier_params(tier)
    us = []
    for L in P["Ls"]:
        bodies = multipart_bodies(L, tier)
        for bi in range(len(bodies)):
            descr, parts, body = bodies[bi]
            n = len(body)
            np_ = nparts(parts) if parts is not None else 1
            tiny = descr.startswith("tiny")
            if (tiny or descr.startswith(("state:", "order:", "nodelim:part-without"))) and L != P["Ls"][0]:
                continue                      # these bodies do not depend on L
            if descr.startswith("order:"):
                us.append(("P", L, bi, ORDER_M))
                if set(descr[6:]) <= set("fF"):
                    # small parts only, no memory limit: max_form_parts alone decides (N parts with max N must
                    # parse, N+1 must be refused, whatever the kinds and their order)
                    us.append(("P", L, bi, None))
                continue
            if descr.startswith("state:"):
                for mfms in STATE_M:
                    us.append(("D", L, bi, mfms, None))
                    us.append(("P", L, bi, mfms))
                if tier == "thorough":
                    us.append(("D", L, bi, n - 1, None))
                continue
            if L in P["Ls_D"]:
                for mfms in mfms_values(L, n, tier, tiny):
                    for max_parts in max_parts_values(np_, tier, tiny):
                        if mfms is None and max_parts is None and tier != "thorough":
                            continue
                        us.append(("D", L, bi, mfms, max_parts))
            if L in P["Ls_P"]:
                for mfms in dict.fromkeys([None, 16, L, 10 * n]):
                    us.append(("P", L, bi, mfms))
        if L in P["Ls_F"]:
            nmb = len(form_bodies(L))
            for fi in range(nmb):
                for mcl_kind in ("none", "zero", "small", "exact", "large"):
                    us.append(("F", L, fi, mcl_kind))
    for bi in range(len(h_bodies())):
        for mcl_kind in ("none", "zero", "small", "exact", "large"):
            for with_cl in (True, False):
                us.append(("H", bi, mcl_kind, with_cl))
    return us


def form_bodies(L):
    """(descr, ctype, body, truth)"""
    out = []
    for descr, parts, body in multipart_bodies(L, "quick"):
        if parts is None:
            continue
        if descr.startswith(("field:x*", "tiny*3", "tiny*5", "file:y", "two-fields", "field:crlf")):
            out.append((descr, "multipart/form-data; boundary=bnd", body, (exp_form(parts), nparts(parts), biggest_field(parts))))
        if L == 16 and descr in ("state:falsedelim-file*100", "state:falsedelim-field*100", "state:longrun-file*150"):
            # truth[3]: extra max_form_memory_size values (large enough for the header block)
            out.append((descr, "multipart/form-data; boundary=bnd", body,
                        (exp_form(parts), nparts(parts), biggest_field(parts), STATE_M)))
    for descr, body, items, big in url_bodies(L):
        out.append((descr, "application/x-www-form-urlencoded", body, ((tuple(items), ()), None, big)))
    if L == 16:
        mb = {d: (p_, b_) for d, p_, b_ in multipart_bodies(L, "quick")}
        p3, b3 = mb["tiny*3"]
        t3 = (exp_form(p3), nparts(p3), biggest_field(p3))
        # spellings of the content type parameters
        out.append(("ctype:spaced-extra-param", "multipart/form-data;boundary=bnd ; x=1", b3, t3))
        out.append(("ctype:quoted-Boundary", 'multipart/form-data; Boundary="bnd"', b3, t3))
        out.append(("ctype:url-charset", "application/x-www-form-urlencoded; charset=utf-8", b"a=1&b=2345&c=9",
                    (((("a", "1"), ("b", "2345"), ("c", "9")), ()), None, 4)))
        p0, b0 = mb["tiny*0:first-nl"]
        out.append(("tiny*0", "multipart/form-data; boundary=bnd", b0, (exp_form(p0), 0, 0)))
        pc, bc = mb["tiny:charset"]
        out.append(("tiny:charset", "multipart/form-data; boundary=bnd", bc, (exp_form(pc), 1, 2)))
        for lay in ("order:Fx", "order:FFx", "order:fFx", "order:FxF", "order:xF"):
            pl, bl = mb[lay]
            out.append((lay, "multipart/form-data; boundary=bnd", bl,
                        (exp_form(pl), nparts(pl), biggest_field(pl), (ORDER_M,))))
        # content that is not form data: nothing is parsed and (apart from get_data) nothing is read
        out.append(("notform:text/plain", "text/plain", b3, ("none-parsed", None, 0)))
        out.append(("notform:empty-ctype", "", b3, ("none-parsed", None, 0)))
        out.append(("notform:json", "application/json", b'{"a": "' + b"x" * 40 + b'"}', ("none-parsed", None, 0)))
        # multipart without a usable boundary / with a part that is not form data: must not produce data
        out.append(("ill:missing-boundary", "multipart/form-data", b3, ("ill-formed", None, 0)))
        out.append(("ill:empty-boundary", "multipart/form-data; boundary=", b3, ("ill-formed", None, 0)))
        out.append(("ill:wrong-boundary", "multipart/form-data; boundary=other", b3, ("ill-formed", None, 0)))
        out.append(("ill:no-disposition", "multipart/form-data; boundary=bnd", mb["nodelim:part-without-disposition"][1],
                    ("ill-formed", None, 0)))
    return out


def run_unit(unit, R, tier):
    P = tier_params(tier)
    kind = unit[0]
    if kind in ("D", "P"):
        _k, L, bi, mfms = unit[:4]
        descr, parts, body = multipart_bodies(L, tier)[bi]
        n = len(body)
        np_ = nparts(parts) if parts is not None else 1
        family = descr.split(":")[0].split("*")[0]
        R.use("family:" + family)
        mp_values = [unit[4]] if kind == "D" else list(dict.fromkeys([None, max(np_ - 1, 0), np_, np_ + 1]))
        for max_parts in mp_values:
            R.ev()
            cfgkey = (descr, mfms, max_parts)
            if (mfms is not None and mfms <= 3 * n) or max_parts is not None:
                R.nontrivial((kind,) + cfgkey)
            if kind == "D":
                states, trans, finals, mon = explore_limited(body, mfms, max_parts, R)
                R.count("states", states)
                R.count("transitions", trans)
                R.count("executions", trans)
                R.count("graphs")
                if descr.startswith("tiny*2") and mfms == n - 1:
                    R.sample({"level": "decoder", "body": body, "max_form_memory_size": mfms, "max_parts": max_parts,
                              "states": states, "transitions": trans,
                              "terminal_outcomes": sorted({classify_terminal(o)[0] for o in finals})})
                for sig, (sched, val) in mon.items():
                    R.violation("D:monitor:" + sig, {"kind": "D", "L": L, "descr": descr, "body": body, "mfms": mfms,
                                                     "max_parts": max_parts, "schedule": list(sched), "sig": sig,
                                                     "wellformed": parts is not None})
                for o, sched in finals.items():
                    term = classify_terminal(o)
                    R.use("D:" + term[0].split(":")[0])
                    R.outcome(("D", term[0]))
                    sig = judge_decoder(descr, parts, mfms, max_parts, term)
                    if sig:
                        R.violation("D:" + sig, {"kind": "D", "L": L, "descr": descr, "body": body, "mfms": mfms,
                                                 "max_parts": max_parts, "schedule": list(sched), "sig": sig,
                                                 "wellformed": parts is not None})
            else:
                shorts = set(P["short_bs"](L, n))
                bs_list = range(1, n + 2)
                if descr.startswith("order:"):
                    # chunks that fit the decoder's buffer check (and a few that do not); short reads at 7 and M
                    bs_list = list(range(1, ORDER_M + 9)) + [n, n + 1]
                    shorts = {7, ORDER_M} if n <= 400 else set()
                for bs in bs_list:
                    got, src = parse_with(body, bs, mfms, max_parts, {})
                    R.count("executions")
                    R.count("parser_runs")
                    tag = "ok" if isinstance(got, tuple) else got
                    R.use("P:" + tag.split(":")[0])
                    R.outcome(("P", tag))
                    sig = judge_parser(parts, mfms, max_parts, got, SpyDecoder.peak)
                    if sig:
                        R.violation("P:" + sig, {"kind": "P", "L": L, "descr": descr, "body": body, "mfms": mfms,
                                                 "max_parts": max_parts, "buffer_size": bs, "dev": {}, "sig": sig})
                        continue
                    if bs in shorts:
                        for ci in range(src.calls):
                            _asked, given = src.log[ci]
                            for k in range(1, given):
                                got2, _ = parse_with(body, bs, mfms, max_parts, {ci: k})
                                R.count("executions")
                                R.count("parser_runs")
                                R.count("short_read_runs")
                                sig = judge_parser(parts, mfms, max_parts, got2, SpyDecoder.peak)
                                if sig:
                                    R.violation("P:short-read:" + sig,
                                                {"kind": "P", "L": L, "descr": descr, "body": body, "mfms": mfms,
                                                 "max_parts": max_parts, "buffer_size": bs, "dev": {ci: k}, "sig": sig})
    elif kind == "H":
        import itertools
        _k, bi, mcl_kind, with_cl = unit
        n = len(h_bodies()[bi][2])
        mcl = {"none": None, "zero": 0, "small": n // 2, "exact": n, "large": 10 * n}[mcl_kind]
        for terminated in (False, True):
            for accesses in itertools.chain.from_iterable(itertools.product(H_ACCESSES, repeat=k) for k in (1, 2, 3)):
                cfgh = (bi, with_cl, terminated, mcl, accesses)
                R.ev()
                R.count("executions")
                R.count("histories")
                outs = run_h(cfgh)
                for o in outs:
                    R.use("H:" + (o if isinstance(o, str) else ("data" if o[1] else "empty")))
                if len(accesses) > 1:
                    R.nontrivial(("H", cfgh))
                sig = judge_h(cfgh, outs)
                if sig:
                    R.violation("H:" + sig, {"kind": "H", "cfg": cfgh, "sig": sig, "outcomes": outs})
    else:
        _k, L, fi, mcl_kind = unit
        descr, ctype, body, truth = form_bodies(L)[fi]
        n = len(body)
        mcl = {"none": None, "zero": 0, "small": n // 2, "exact": n, "large": 10 * n}[mcl_kind]
        np_ = truth[1]
        big = truth[2]
        st = E4.Stats()
        In.all_lengths = P["all_lengths"]
        mfms_vals = list(dict.fromkeys([None, max(big - 1, 0), big, 10 * n] + list(truth[3] if len(truth) > 3 else ())))
        cl_modes = [True, False]
        lies = []
        if mcl is not None and n > mcl:
            # the declared length lies: within the maximum, but the (terminated) stream delivers more
            lies = [("lie", k) for k in dict.fromkeys([0, 1, max(mcl - 1, 0), mcl])]
        mparts_vals = [None] if np_ is None else list(dict.fromkeys([None, max(np_ - 1, 0), np_, np_ + 1]))
        R.use("F:" + ("url" if np_ is None else "multipart"), "F:mcl-" + mcl_kind)
        if descr.startswith(("notform", "ill:")):
            R.use("F:" + descr.split(":")[0])
        for mfms in mfms_vals:
            for mparts in mparts_vals:
                for with_cl in cl_modes + lies:
                    for terminated in (False, True):
                        if with_cl not in (True, False) and not terminated:
                            continue          # a lying length on a non-terminated stream is C09's space
                        if with_cl not in (True, False):
                            R.use("F:declared-length-lies")
                        for ri in (False, True):
                            for via in ("request", "parse_form_data", "request-cached", "request-instance",
                                        "parser-not-silent", "request-get-data-parse", "parser-parse-direct"):
                                if via == "parser-parse-direct" and not (mcl is None and with_cl is True
                                                                         and not terminated):
                                    continue      # parse() itself knows no max_content_length / stream wrapping
                                R.use("F:via-" + via)
                                cfg = (ctype, body, mfms, mparts, mcl, with_cl, terminated, ri, via)
                                R.ev()
                                if mfms is not None or mparts is not None or mcl is not None:
                                    R.nontrivial(("F", descr, cfg[2:]))
                                for ch, (got, inp) in E4.explore(lambda c: run_form(cfg, c), P["form_dev"], st,
                                                                 max_runs=100000):
                                    tag = "ok" if isinstance(got, tuple) else got
                                    R.use("F:" + tag.split(":")[0])
                                    R.outcome(("F", tag))
                                    R.count("form_runs")
                                    sig = judge_form(cfg, truth, got, inp)
                                    if sig:
                                        R.violation("F:" + ("url" if np_ is None else "multipart") + ":" + sig,
                                                    {"kind": "F", "L": L, "descr": descr, "cfg": cfg, "truth": truth,
                                                     "choices": list(ch.choices), "sig": sig,
                                                     "all_lengths": In.all_lengths,
                                                     "got": got if isinstance(got, str) else list(got),
                                                     "taken": inp.pos, "calls": list(inp.calls)})
        if mcl_kind == "exact" and fi == 0:
            R.sample({"level": "Request.form", "body": body, "content_type": ctype, "max_content_length": mcl,
                      "configs": len(mfms_vals) * len(mparts_vals) * 16})
        R.count("states", st.states)
        R.count("transitions", st.transitions)
        R.count("executions", st.executions)


def finalize(R, tier):
    need = {"family:field", "family:file", "family:tiny", "family:preamble", "family:bigheader", "family:nodelim",
            "family:two-fields", "D:ok", "D:RETL", "D:EXC", "D:receive-RETL", "P:ok", "P:RETL", "P:EXC",
            "F:ok", "F:RETL", "F:url", "F:multipart", "F:declared-length-lies", "family:state", "family:order", "H:data", "H:empty", "H:RETL", "F:via-request-cached", "F:via-request-instance",
            "F:via-parser-not-silent", "F:via-request-get-data-parse", "F:via-parser-parse-direct", "F:notform", "F:ill", "F:mcl-none", "F:mcl-zero", "F:mcl-small", "F:mcl-exact", "F:mcl-large"}
    missing = need - R.used
    if missing:
        raise core.Broken(f"vacuity: never exercised {sorted(missing)}")
    if R.counts["parser_runs"] < 5000 or R.counts["form_runs"] < 5000 or R.counts["graphs"] < 100:
        raise core.Broken("vacuity: a level barely ran")
    P = tier_params(tier)
    return {"bound": f"L in {list(P['Ls_D'])} (decoder) / {list(P['Ls_P'])} (parser, form); bodies <= ~{max(P['Ls']) * 3 + 120} bytes; <= 5 parts; form level: "
                     f"deviation bound {P['form_dev']} (every single short read)",
            "deviation_bound": P["form_dev"],
            "exhaustive": True, "closed": True,
            "explanation": "decoder level: complete arrival-schedule graph per (body, limits); parser level: every "
                           "buffer size; form level: full configuration product"}


# ------------------------------------------------------------------ replay / findings

def replay(rec):
    k = rec.get("kind")
    if k == "D":
        o, maxbuf = run_limited_schedule(rec["body"], rec["mfms"], rec["max_parts"], rec["schedule"])
        term = classify_terminal(o)
        parts = None
        if rec["wellformed"]:
            for L in (16, 32, 48, 64, 96):
                for d, p, b in multipart_bodies(L, "thorough"):
                    if b == rec["body"]:
                        parts = p
        sigs = []
        if rec["mfms"] is not None and maxbuf > rec["mfms"]:
            sigs.append("buffer-exceeds-max_form_memory_size")
        if rec["max_parts"] is not None and sum(1 for e in o if e[0] in ("F", "L")) > rec["max_parts"]:
            sigs.append("more-parts-returned-than-max_parts")
        if parts is not None or not rec["wellformed"]:
            s = judge_decoder(rec["descr"], parts, rec["mfms"], rec["max_parts"], term)
            if s:
                sigs.append(s)
        text = (f"MultipartDecoder(b'bnd', max_form_memory_size={rec['mfms']}, max_parts={rec['max_parts']})\n"
                f"body ({rec['descr']}) = {rec['body']!r}\nreceive_data schedule = {rec['schedule']}\n"
                f"largest buffer after a receive_data = {maxbuf}\noutcome = {term[0]} parts={len(term[1])}\n"
                f"violations = {sigs}")
        return rec["sig"] in sigs, text
    if k == "P":
        dev = {int(a): b for a, b in rec["dev"].items()}
        got, _src = parse_with(rec["body"], rec["buffer_size"], rec["mfms"], rec["max_parts"], dev)
        parts = "?"
        for L in (16, 32, 48, 64, 96):
            for d, p, b in multipart_bodies(L, "thorough"):
                if b == rec["body"]:
                    parts = p
        sig = judge_parser(parts, rec["mfms"], rec["max_parts"], got, SpyDecoder.peak) if parts != "?" else None
        text = (f"MultiPartParser(max_form_memory_size={rec['mfms']}, max_form_parts={rec['max_parts']}, "
                f"buffer_size={rec['buffer_size']}).parse(body) short_reads={dev}\nbody ({rec['descr']}) = "
                f"{rec['body']!r}\nlargest decoder buffer after a receive_data = {SpyDecoder.peak}\n"
                f"result = {core.show(got)}\nviolation = {sig}")
        return sig == rec["sig"], text
    if k == "H":
        bi, with_cl, terminated, mcl, accesses = rec["cfg"]
        cfgh = (bi, with_cl, terminated, mcl, tuple(accesses))
        outs = run_h(cfgh)
        sig = judge_h(cfgh, outs)
        d, ctype, body, _f, _fl = h_bodies()[bi]
        text = (f"one Request: CONTENT_TYPE={ctype!r} CONTENT_LENGTH={'present' if with_cl else 'absent'} "
                f"input_terminated={terminated} max_content_length={mcl} body ({len(body)} bytes) = {body!r}\n"
                f"accesses (exceptions swallowed) = {list(accesses)}\noutcomes = {outs}\n"
                f"a single access must give {sorted(h_expectation(len(body), with_cl, terminated, mcl))}\nviolation = {sig}")
        return sig == rec["sig"], text
    if k == "F":
        cfg = tuple(rec["cfg"])
        truth = rec["truth"]
        truth = (_tup(truth[0]), truth[1], truth[2])
        cfg = cfg[:5] + (cfg[5] if cfg[5] in (True, False) else tuple(cfg[5]),) + cfg[6:]
        ch = E4.Chooser(tuple(rec["choices"]))
        In.all_lengths = bool(rec.get("all_lengths"))
        got, inp = run_form(cfg, ch)
        sig = judge_form(cfg, truth, got, inp)
        ctype, body, mfms, mparts, mcl, with_cl, terminated, ri, via = cfg
        text = (f"{via}: CONTENT_TYPE={ctype!r} CONTENT_LENGTH={declared_length(with_cl, len(body))!r} (body has {len(body)} bytes) "
                f"wsgi.input_terminated={terminated} max_form_memory_size={mfms} max_form_parts={mparts} "
                f"max_content_length={mcl} input.readinto={ri}\nbody = {body!r}\n"
                f"input calls (asked, answered) = {inp.calls}\nbytes taken from input = {inp.pos}\n"
                f"largest decoder buffer after a receive_data = {SpyDecoder.peak}\n"
                f"result = {core.show(got)}\nunlimited result = {core.show(truth[0])}\nviolation = {sig}")
        return sig == rec["sig"], text
    return True, rec.get("traceback", "unit exception")


def _tup(o):
    if isinstance(o, (list, tuple)):
        return tuple(_tup(x) for x in o)
    return o


def _f_cfg(rec):
    ctype, body, mfms, mparts, mcl, with_cl, terminated, ri, via = rec["cfg"]
    return dict(ctype=ctype, body=body, mfms=mfms, mparts=mparts, mcl=mcl, with_cl=with_cl, terminated=terminated)


def _urlencoded_no_cl_memory_limit(rec):
    """urlencoded, no CONTENT_LENGTH, server-terminated stream: max_form_memory_size not applied."""
    if rec.get("kind") != "F" or rec["sig"] != "field-larger-than-max_form_memory_size-not-refused":
        return False
    c = _f_cfg(rec)
    return (c["ctype"].startswith("application/x-www-form-urlencoded") and not c["with_cl"] and c["terminated"]
            and c["mfms"] is not None and len(c["body"]) > c["mfms"])


def _urlencoded_truncated_at_max(rec):
    """urlencoded on a server-terminated stream longer than max_content_length: one read() returns the first
    max_content_length bytes and they are parsed as if they were the whole body."""
    if rec.get("kind") != "F":
        return False
    c = _f_cfg(rec)
    if not (c["ctype"].startswith("application/x-www-form-urlencoded") and c["terminated"] and not c["with_cl"]
            and c["mcl"] is not None and len(c["body"]) > c["mcl"]):
        return False
    return rec["sig"] == "terminated-stream-longer-than-max_content_length-not-refused" and rec["taken"] == c["mcl"]


FINDINGS = {
    "C10-urlencoded-no-content-length-memory-limit-not-applied": _urlencoded_no_cl_memory_limit,
    "C10-urlencoded-terminated-stream-truncated-at-max-content-length": _urlencoded_truncated_at_max,
}

LEVEL_TEXT = (
    "Explicit-state exploration of the real MultipartDecoder under limits (complete arrival-schedule graph for every "
    "limit-sized body and limit configuration, with a buffer / part-count monitor on every transition), the real "
    "MultiPartParser for every buffer size and single short read, and Request.form / parse_form_data over the full "
    "limit x CONTENT_LENGTH x input_terminated product on an instrumented input. The oracle demands refusal "
    "(RequestEntityTooLarge) whenever a limit is exceeded and equality with the ground truth whenever parsing succeeds."
)
LEVEL_NOTE = (
    "Trusted: C01's body builder / decoder clone / ground truth, the instrumented input. Not demanded: that bodies "
    "inside all limits are accepted. Bodies <= ~320 bytes, <= 5 parts, L <= 64."
)
TECHNIQUE = "explicit-state model checking of the limited decoder (arrival-schedule graph + monitor) and exhaustive configuration product"
DESIGN_REF = "DESIGN.md §4 C10"
