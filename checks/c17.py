"""C17 - content negotiation picks a best-quality, most-specific offer.

E1: every header of <= 2 items (<= 3 with a reduced q set) over a per-family range set x 9 q forms, in
every order, x every non-empty ordered offer list <= 3, for Accept, MIMEAccept, LanguageAccept and
CharsetAccept.  A ten-line reference evaluates the statement: quality(offer) = q of the most specific
valid matching range; best = highest quality > 0, then more specific, then offer order; items with a
malformed / out-of-range q are dropped; LanguageAccept's documented primary-tag fallbacks are mirrored.
best_match / quality / membership / iteration order of the real objects must agree with it.
"""
from __future__ import annotations

import codecs
import itertools
import re

from mc import core

ID = "C17"
LEVEL = "exploration"
TECHNIQUE = "small-scope exhaustive enumeration of Accept headers x offer lists against a reference negotiation"
DESIGN_REF = "DESIGN.md §4 C17"
RULE = (
    "headers = every ordered list of 1..2 items (range x q) with range from the family's set and q in {absent, 0, 0.001, "
    "0.5, 1, 1.000, x, -1, 1.5}, every ordered list of 3 items with q in {absent, 0, 0.5, 1.5} (thorough: all), plus 12 "
    "spacing / case renderings and 21 further q spellings (exponents, signs, underscores, hex, leading zeros, 1.001, "
    "2, 10, 1.0 ...); offers = every non-empty ordered list of <= 3 distinct offers from the family's 5-6; 11 families: "
    "media types (exact, level parameter, type/*, */*, case), media types with several / quoted / differently ordered "
    "parameters and the invalid */subtype, the media types behind accept_html / accept_xhtml / accept_json, languages "
    "(region, '_' separator, case, '*', prefix look-alikes fi / fil), languages with 3-letter primary tags, script "
    "subtags and three subtags, charsets with codec aliases, codings, and per family names its normalisation does not know (windows-874, x-user-defined, x-klingon, i-default, "
    "zstd, vendor +suffix media types) in several letter cases on both sides. One evaluation = one (header, offer list) "
    "negotiation compared with the reference, plus quality / membership per offer, and per header: parsed items, client "
    "order among equals, documented total order, best, values(), item access by index / slice / key, index / find, "
    "to_header round trip, copy constructor, MIME shortcuts. non-trivial = distinct (family, header, offers) where at "
    "least two offers are matched with positive quality or an item was dropped for its q."
)
ASSUMPTIONS = [
    "range matching per family is the implementation's documented one (exact parameters for media types, "
    "split on - and _ for languages, codec aliases for charsets); the reference re-implements it independently",
    "when two equally specific ranges match one offer with different q the statement does not say which q counts: "
    "every choice is accepted",
    "membership (`in`) is only required to be False when no valid range matches and True when a range with q > 0 matches",
    "offers are well-formed and distinct; wildcard offers are not generated",
    "q spellings are RFC tokens; '-0' / '-0.0' (in range but spelled negative) are not generated",
    "the MIME shortcuts must be True when a range with q > 0 matches one of their media types and False when no "
    "range matches; with only q=0 matches either answer is accepted (like membership)",
]
LEVEL_TEXT = (
    "Exhaustive enumeration of short Accept-style headers in every order against every short offer list; optimality "
    "and tie-breaking are checked by an independent reference on every pair, not on pinned examples."
)
LEVEL_NOTE = (
    "Headers of > 3 items, offer lists > 3 and ranges outside the per-family sets are not covered; q forms limited "
    "to the listed ones."
)

from werkzeug.datastructures import Accept, CharsetAccept, LanguageAccept, MIMEAccept  # noqa: E402
from werkzeug.http import parse_accept_header  # noqa: E402

QS = [None, "0", "0.001", "0.5", "1", "1.000", "x", "-1", "1.5"]
QS_SMALL = [None, "0", "0.5"]
QS_P = [None, "0", "0.5", "1.5"]          # the parameter / subtag families; 3-item headers in quick
Q3 = {"small": QS_SMALL, "p": QS_P, "full": QS}
# RFC tokens only: a q value that is not even a token (empty, non-ASCII digits, a lone quote) makes
# parse_options_header drop the *parameter* ("invalid parts are skipped"), so the item is kept with q=1 - whether
# that counts as "malformed q -> item ignored" is not clear from the statement, so such forms are not generated.
# ("-0" / "-0.0" are not generated either: numerically in range, spelled negative - the statement does not decide)
QS_ODD = ["0.5x", "1e0", "inf", "+1", "1.5e0", "1_0", "0x1", "-0.5", "-1.0", "-0.001", "1.0001", "1.001", "2", "10", "1.50",
          '""', '" "', '"x"', '"1.5"',
          "00.5", "0.9999", "01", "001.000", "0.0000", "1.0", '"0.5"', '"0"']   # the first 19 malformed / out of range, the rest valid

_QRE = re.compile(r"[0-9]+(\.[0-9]+)?\Z")


def qval(q):
    """Reference: absent -> 1; decimal number in [0, 1] -> its value; anything else -> item ignored (None)."""
    if q is None:
        return 1.0
    q = _unq(q).strip()          # a quoted q value counts by its content ("0.5" is 0.5; "" and " " are malformed)
    if not _QRE.match(q):
        return None
    v = float(q)
    return v if 0.0 <= v <= 1.0 else None


_MSPLIT = re.compile(r"/|\s*;\s*")
_LSPLIT = re.compile(r"[-_]")


def _unq(v):
    v = v.strip()
    if len(v) >= 2 and v[0] == v[-1] == '"':
        v = v[1:-1].replace("\\\\", "\\").replace('\\"', '"')
    return v


def _mime_parts(x):
    """[type, subtype, 'k=v', ...] lower-cased, parameter values unquoted (level="1" is level=1)."""
    head, *params = x.split(";")
    out = head.strip().lower().split("/", 1)
    for p_ in params:
        k, _, v = p_.partition("=")
        out.append(k.strip().lower() + "=" + _unq(v).lower())
    return out


def match_mime(offer, r):
    if "/" not in r:
        return False
    o = _mime_parts(offer)
    i = _mime_parts(r)
    if i[0] == "*":
        return i[1] == "*"
    if i[0] != o[0]:
        return False
    if i[1] == "*":
        return True
    return i[1] == o[1] and sorted(i[2:]) == sorted(o[2:])


def spec_mime(r):
    return tuple(p != "*" for p in _mime_parts(r))


def norm_cs(n):
    try:
        return codecs.lookup(n).name
    except LookupError:
        return n.lower()


def _plain_match(o, r):
    return r == "*" or o.lower() == r.lower()


def _star_spec(r):
    return (r != "*",)


FAM = {
    "mime": dict(
        cls=MIMEAccept,
        ranges=["text/html", "text/html;level=1", "text/*", "*/*", "application/json", "TEXT/HTML"],
        offers=["text/html", "text/plain", "application/json", "text/html;level=1", "image/png"],
        match=match_mime, spec=spec_mime),
    "lang": dict(
        cls=LanguageAccept,
        ranges=["en", "en-US", "en_us", "de", "*", "EN", "fi"],
        offers=["en", "en-US", "de", "en_GB", "fi-FI", "fil-PH"],
        match=lambda o, r: r == "*" or _LSPLIT.split(o.lower()) == _LSPLIT.split(r.lower()), spec=_star_spec),
    "charset": dict(
        cls=CharsetAccept,
        ranges=["utf-8", "UTF8", "latin1", "iso-8859-1", "*", "ascii"],
        offers=["utf-8", "iso-8859-1", "ascii", "UTF-8", "latin1"],
        match=lambda o, r: r == "*" or norm_cs(o) == norm_cs(r), spec=_star_spec),
    # round 2: parameters beyond `level` (several, quoted, case), an invalid */subtype range
    "mimep": dict(
        cls=MIMEAccept, small=True,
        ranges=["text/html", "text/html;level=1", 'text/html;level="1"', "text/html;charset=utf-8",
                "text/html;level=1;charset=UTF-8", 'text/html;title="a b"', "text/*", "*/html", "*/*"],
        offers=["text/html", "text/html;level=1", "text/html;charset=utf-8", "text/html;charset=UTF-8;level=1",
                'text/html;title="a b"', "text/plain"],
        match=match_mime, spec=spec_mime),
    # the media types behind accept_html / accept_xhtml / accept_json
    "mimes": dict(
        cls=MIMEAccept, small=True,
        ranges=["text/html", "application/xhtml+xml", "application/xml", "application/json", "application/*", "*/*", "text/*"],
        offers=["text/html", "application/xhtml+xml", "application/xml", "application/json", "text/plain"],
        match=match_mime, spec=spec_mime),
    # 3-letter primary tags, script subtags, three subtags
    "lang2": dict(
        cls=LanguageAccept, small=True,
        ranges=["zh", "zh-Hant", "zh-Hant-TW", "zh_hant_tw", "fil", "fi", "sr-Latn", "*"],
        offers=["zh-Hant-TW", "zh-Hans-CN", "zh", "fil-PH", "fi", "sr-Latn-RS"],
        match=lambda o, r: r == "*" or _LSPLIT.split(o.lower()) == _LSPLIT.split(r.lower()), spec=_star_spec),
    # names the normalisation tables do not know, in several letter cases on both sides
    "charset2": dict(
        cls=CharsetAccept, small=True,
        ranges=["windows-874", "WINDOWS-874", "x-user-defined", "X-User-Defined", "utf-8", "*"],
        offers=["windows-874", "Windows-874", "x-user-defined", "utf-8", "ISO-8859-8-I"],
        match=lambda o, r: r == "*" or norm_cs(o) == norm_cs(r), spec=_star_spec),
    "lang3": dict(
        cls=LanguageAccept, small=True,
        ranges=["x-klingon", "X-Klingon", "i-default", "I-DEFAULT", "en", "*"],
        offers=["x-klingon", "X-KLINGON", "i-default", "en-US", "de"],
        match=lambda o, r: r == "*" or _LSPLIT.split(o.lower()) == _LSPLIT.split(r.lower()), spec=_star_spec),
    "coding2": dict(
        cls=Accept, small=True,
        ranges=["x-gzip", "X-GZIP", "zstd", "ZSTD", "identity", "*"],
        offers=["x-gzip", "X-Gzip", "zstd", "br", "identity"],
        match=_plain_match, spec=_star_spec),
    "mimev": dict(
        cls=MIMEAccept, small=True,
        ranges=["application/vnd.api+json", "APPLICATION/VND.API+JSON", "application/vnd.api+json;version=1",
                "application/*", "Application/Json", "*/*"],
        offers=["application/vnd.api+json", "application/VND.API+JSON", "application/json",
                "application/vnd.api+json;version=1", "text/html"],
        match=match_mime, spec=spec_mime),
    "coding": dict(
        cls=Accept,
        ranges=["gzip", "identity", "*", "GZIP", "br"],
        offers=["gzip", "br", "identity", "deflate", "GZIP"],
        match=_plain_match, spec=_star_spec),
}


# ------------------------------------------------------------------ reference

def choose(cands):
    """cands: list of (offer, q, spec) in offer order, unmatched offers absent. Highest q > 0, then spec, then order."""
    best = None
    bk = None
    for o, q, s in cands:
        if q <= 0:
            continue
        k = (q, s)
        if bk is None or k > bk:
            best, bk = o, k
    return best


def offer_options(items, offer, match, spec):
    """All (q, spec) the statement allows as 'the q of the most specific range matching the offer'."""
    ms = [(spec(r), q) for r, q in items if match(offer, r)]
    if not ms:
        return None
    s = max(m[0] for m in ms)
    return sorted({(q, s) for sp, q in ms if sp == s})


def acceptable(items, offers, match, spec, memo=None):
    """Set of offer *indices* (or None) the statement allows as the choice for these valid items and offers."""
    opts = []
    for idx, o in enumerate(offers):
        if memo is not None:
            key = (id(items), o)
            if key not in memo:
                memo[key] = offer_options(items, o, match, spec)
            oo = memo[key]
        else:
            oo = offer_options(items, o, match, spec)
        if oo is not None:
            opts.append([(idx, q, s) for q, s in oo])
    if all(len(x) == 1 for x in opts):
        return {choose([x[0] for x in opts])}
    return {choose(combo) for combo in itertools.product(*opts)}


def primary(tag):
    return _LSPLIT.split(tag, 1)[0]


def valid_items(items):
    return [(r, qv) for r, q in items for qv in [qval(q)] if qv is not None]


def ref_best(fam, items, offers, ctx=None):
    """items: [(range, qtext)] in client order. Returns the set of acceptable best_match results (None = default).
    ctx: per-header cache {"valid":..., "prim":..., "memo":...} (only an optimisation)."""
    f = FAM[fam]
    if ctx is None:
        ctx = {}
    if "valid" not in ctx:
        ctx["valid"] = valid_items(items)
        ctx["prim"] = [(primary(r), q) for r, q in ctx["valid"]]
        ctx["memo"] = {}
        ctx["memo_p"] = {}
    valid, memo = ctx["valid"], ctx["memo"]
    res = {None if i is None else offers[i] for i in acceptable(valid, offers, f["match"], f["spec"], memo)}
    if f["cls"] is not LanguageAccept or None not in res:
        return res
    res.discard(None)
    # documented fallback 1: the client's tags cut to their primary subtag, matched as plain strings
    r2 = {None if i is None else offers[i] for i in acceptable(ctx["prim"], offers, _plain_match, _star_spec, ctx["memo_p"])}
    res |= r2 - {None}
    if None not in r2:
        return res
    # documented fallback 2: the offers cut to their primary subtag, matched against the client's tags;
    # the answer is the first offer carrying the winning primary tag
    prim_offers = [primary(o) for o in offers]
    for i in acceptable(valid, prim_offers, f["match"], f["spec"], memo):
        res.add(None if i is None else offers[prim_offers.index(prim_offers[i])])
    return res


def ref_quality(fam, items, offer):
    f = FAM[fam]
    valid = valid_items(items)
    oo = offer_options(valid, offer, f["match"], f["spec"])
    if oo is None:
        return {0}, False, False
    qs = {q for q, _s in oo}
    anypos = any(q > 0 for r, q in valid if f["match"](offer, r))
    return qs, True, anypos


# ------------------------------------------------------------------ rendering

def render(items, style=0):
    sep = [",", ", ", " , "][style % 3]
    qk = [";q=", "; q=", ";Q=", " ;q="][style // 3 % 4]
    return sep.join(r if q is None else f"{r}{qk}{q}" for r, q in items)


def _norm_value(v):
    """Item text up to spacing around ';' and the quoting of token-valued parameters."""
    if ";" not in v:
        return v
    head, *params = v.split(";")
    out = [head.strip()]
    for p_ in params:
        k, _, val = p_.partition("=")
        out.append(k.strip() + "=" + _unq(val))
    return ";".join(out)


# ------------------------------------------------------------------ units

def offer_lists(offers):
    return [list(p) for n in (1, 2, 3) for p in itertools.permutations(offers, n)]


def units(tier):
    T = tier == "thorough"
    us = []
    for fam, f in FAM.items():
        small = f.get("small")
        n1 = len(f["ranges"]) * len(QS_P if small else QS)
        us.append(("h1", fam))
        for i in range(n1):
            us.append(("h2", fam, i))
        # 3-item headers: thorough = every q form (QS_P for the small families); quick = QS_P for the main families
        qname = ("p" if small else "full") if T else ("small" if small else "p")
        n3 = len(f["ranges"]) * len(Q3[qname])
        for i in range(n3):
            if small and not T and fam == "mimep":
                continue          # 9 ranges x 6 offers: its 3-item headers stay in thorough
            if T:
                for j in range(0, n3, 9):
                    us.append(("h3", fam, i, (j, min(n3, j + 9)), qname))
            else:
                us.append(("h3", fam, i, (0, n3), qname))
        us.append(("forms", fam))
    return us


SHORTCUTS = {"accept_html": ["text/html", "application/xhtml+xml", "application/xml"],
             "accept_xhtml": ["application/xhtml+xml", "application/xml"], "accept_json": ["application/json"]}


def api_failures(fam, items, hs, acc):
    """The rest of the Accept surface, judged from the valid client items alone: documented order (specificity, then
    quality, client order among equals), best, values(), item access, index/find, to_header round trip, copy, and
    the MIME shortcuts. Returns [(name, want, got)]."""
    f = FAM[fam]
    cls = f["cls"]
    valid = [(_norm_value(r), q) for r, q in valid_items(items)]
    exp = sorted(valid, key=lambda x: (f["spec"](x[0]), x[1]), reverse=True)     # stable: client order among equals
    got = [(_norm_value(v), q) for v, q in acc]
    bad = []
    if got != exp:
        bad.append(("order", exp, got))
        return bad
    b = acc.best
    if (None if b is None else _norm_value(b)) != (exp[0][0] if exp else None):
        bad.append(("best", exp[0][0] if exp else None, b))
    vals = [_norm_value(x) for x in acc.values()]
    if vals != [v for v, _q in exp]:
        bad.append(("values", [v for v, _q in exp], vals))
    if exp:
        first, last = acc[0], acc[-1]
        if (_norm_value(first[0]), first[1]) != exp[0] or (_norm_value(last[0]), last[1]) != exp[-1]:
            bad.append(("getitem-index", (exp[0], exp[-1]), (first, last)))
        if [(_norm_value(v), q) for v, q in acc[0:1]] != exp[0:1] or len(acc) != len(exp):
            bad.append(("getitem-slice", exp[0:1], acc[0:1]))
        if acc.index(acc[0]) != 0:
            bad.append(("index-tuple", 0, acc.index(acc[0])))
    for o in f["offers"]:
        want_idx = next((i for i, (r, _q) in enumerate(exp) if f["match"](o, r)), -1)
        g = acc.find(o)
        if g != want_idx:
            bad.append(("find", (o, want_idx), g))
        try:
            gi = acc.index(o)
        except ValueError:
            gi = -1
        if gi != want_idx:
            bad.append(("index", (o, want_idx), gi))
        if acc[o] != acc.quality(o):
            bad.append(("getitem-key", acc.quality(o), acc[o]))
    hdr = acc.to_header()
    if str(acc) != hdr:
        bad.append(("str", hdr, str(acc)))
    back = [(_norm_value(v), q) for v, q in parse_accept_header(hdr, cls)]
    if back != got:
        bad.append(("to_header-roundtrip", got, (hdr, back)))
    cp = cls(acc)
    if list(cp) != list(acc) or cp.provided is not True or acc.provided is not True:
        bad.append(("copy", list(acc), (list(cp), cp.provided, acc.provided)))
    if cls is MIMEAccept:
        for name, targets in SHORTCUTS.items():
            must = any(q > 0 and match_mime(t_, r) for t_ in targets for r, q in valid)
            may = any(match_mime(t_, r) for t_ in targets for r, q in valid)
            g = getattr(acc, name)
            if (must and g is not True) or (not may and g is not False):
                bad.append((name, must, g))
    return bad


def evaluate(R, fam, items, offs, header=None, style=0, track=True):
    """One header against every offer list."""
    f = FAM[fam]
    hs = render(items, style) if header is None else header
    try:
        acc = parse_accept_header(hs, f["cls"])
    except Exception as e:  # noqa: BLE001
        R.ev()
        R.violation(f"{fam}:parse:exception:{type(e).__name__}", {"kind": "neg", "family": fam, "items": items,
                                                                   "header": hs, "offers": None, "what": "parse"})
        return
    valid = [(r, qv) for r, q in items for qv in [qval(q)] if qv is not None]
    dropped = len(valid) != len(items)
    R.use("dropped-item" if dropped else "all-items-valid")

    # parsed content and order law
    R.ev()
    got_items = [(_norm_value(v), q) for v, q in acc]
    want_multi = sorted((_norm_value(r), q) for r, q in valid)
    if sorted(got_items) != want_multi:
        R.violation(f"{fam}:parsed-items", {"kind": "neg", "family": fam, "items": items, "header": hs, "offers": None,
                                            "what": "items", "want": want_multi, "got": sorted(got_items)})
    else:
        groups = {}
        for r, q in valid:
            groups.setdefault((f["spec"](r), q), []).append(_norm_value(r))
        ggroups = {}
        for v, q in got_items:
            ggroups.setdefault((f["spec"](v), q), []).append(v)
        if groups != ggroups:
            R.violation(f"{fam}:client-order", {"kind": "neg", "family": fam, "items": items, "header": hs, "offers": None,
                                                "what": "order", "want": sorted(groups.items()), "got": sorted(ggroups.items())})
        if any(len(g) > 1 for g in groups.values()):
            R.use("order-group>1")

    # the rest of the public surface (round 2)
    R.ev()
    try:
        fails = api_failures(fam, items, hs, acc)
    except Exception as e:  # noqa: BLE001
        fails = [("exception:" + type(e).__name__, None, repr(e))]
    for name, want_, got_ in fails:
        R.violation(f"{fam}:api:{name}", {"kind": "neg", "family": fam, "items": items, "header": hs, "offers": None,
                                          "what": "api", "name": name, "want": want_, "got": got_})
    R.use("api")

    # quality / membership per single offer
    for o in f["offers"]:
        R.ev()
        qs, matched, anypos = ref_quality(fam, items, o)
        try:
            gq = acc.quality(o)
            gin = o in acc
            gidx = acc.find(o)
        except Exception as e:  # noqa: BLE001
            R.violation(f"{fam}:quality:exception:{type(e).__name__}", {"kind": "neg", "family": fam, "items": items, "header": hs,
                                                                         "offers": [o], "what": "quality"})
            continue
        bad = None
        if gq not in qs:
            bad = ("quality", sorted(qs), gq)
        elif not matched and gin:
            bad = ("membership", False, gin)
        elif anypos and not gin:
            bad = ("membership", True, gin)
        elif (gidx >= 0) != gin:
            bad = ("find-vs-in", gin, gidx)
        if bad:
            R.violation(f"{fam}:{bad[0]}", {"kind": "neg", "family": fam, "items": items, "header": hs, "offers": [o],
                                            "what": bad[0], "want": bad[1], "got": bad[2]})

    # negotiation
    nontriv_base = dropped
    ctx = {}
    for of in offs:
        R.ev()
        exp = ref_best(fam, items, of, ctx)
        try:
            got = acc.best_match(of)
        except Exception as e:  # noqa: BLE001
            got = ("EXC", type(e).__name__)
        R.outcome((fam, got is None, len(exp)))
        if len(exp) > 1:
            R.use("ambiguous-duplicate-ranges")
        if got not in exp:
            if isinstance(got, tuple):
                sig = "exception"
            elif got is None:
                sig = "chose-none"
            elif exp == {None}:
                sig = "chose-when-nothing-acceptable"
            else:
                sig = "chose-unacceptable"
            R.violation(f"{fam}:best_match:{sig}", {"kind": "neg", "family": fam, "items": items, "header": hs, "offers": of,
                                                    "what": "best_match", "want": sorted(exp, key=repr), "got": got})
        if nontriv_base or (got is not None and len(of) > 1):
            if track:
                R.nontrivial((fam, hs, tuple(of)))
            else:
                R.count("nontrivial_untracked")
    # default handling
    R.ev()
    of = f["offers"][:2]
    exp = ref_best(fam, items, of, ctx)
    try:
        got = acc.best_match(of, default="DEFAULT")
    except Exception as e:  # noqa: BLE001
        got = ("EXC", type(e).__name__)
    exp_d = {("DEFAULT" if x is None else x) for x in exp}
    if got not in exp_d:
        R.violation(f"{fam}:best_match:default", {"kind": "neg", "family": fam, "items": items, "header": hs, "offers": of,
                                                  "what": "default", "want": sorted(exp_d), "got": got})


def run_unit(unit, R, tier):
    kind, fam = unit[0], unit[1]
    f = FAM[fam]
    offs = offer_lists(f["offers"])
    small = f.get("small")
    items1 = [(r, q) for r in f["ranges"] for q in (QS_P if small else QS)]
    R.use("family:" + fam)
    if kind == "h1":
        for it in items1:
            evaluate(R, fam, [it], offs)
        # absent / empty header
        for hs in ("", None, " ", ","):
            acc = parse_accept_header(hs, f["cls"])
            for of in offs[:10]:
                R.ev()
                got = acc.best_match(of)
                if got is not None:
                    R.violation(f"{fam}:best_match:empty-header", {"kind": "neg", "family": fam, "items": [], "header": hs,
                                                                   "offers": of, "what": "best_match", "want": [None], "got": got})
        R.sample({"family": fam, "header": render([items1[3], items1[-1]]), "offers": offs[7]})
        return
    if kind == "h2":
        a = items1[unit[2]]
        for b in items1:
            evaluate(R, fam, [a, b], offs)
        return
    if kind == "h3":
        _k, _f, i, (j0, j1), qname = unit
        items3 = [(r, q) for r in f["ranges"] for q in Q3[qname]]
        a = items3[i]
        for b in items3[j0:j1]:
            for c in items3:
                evaluate(R, fam, [a, b, c], offs, track=False)     # counted, not kept as a set (memory)
        return
    if kind == "forms":
        # renderings: separators, spaces before/after ';', upper-case Q
        base = [(f["ranges"][0], "0.5"), (f["ranges"][2], None), (f["ranges"][1], "0.001")]
        for style in range(12):
            for k in (1, 2, 3):
                for perm in itertools.permutations(base, k):
                    evaluate(R, fam, list(perm), offs, style=style)
            R.use("style")
        # odd q forms: malformed ones must make the item disappear
        for q in QS_ODD:
            for r in f["ranges"][:3]:
                evaluate(R, fam, [(r, q)], offs)
                evaluate(R, fam, [(f["ranges"][3], "0.5"), (r, q)], offs)
                evaluate(R, fam, [(r, q), (f["ranges"][3], "0.5")], offs)
            R.use("odd-q")
        # q sent in the RFC 2231 extended form (q*=charset'lang'value): the decoded text is what counts
        for qtext, wire in (("0.5", "UTF-8''0.5"), ("\u0660.\u0665", "UTF-8''%D9%A0.%D9%A5"), ("1.5", "''1.5"),
                            ("0", "iso-8859-1'en'0"), ("x", "UTF-8''x")):
            for r in f["ranges"][:2]:
                evaluate(R, fam, [(r, qtext)], offs, header=f"{r};q*={wire}")
                other = (f["ranges"][3], "0.5")
                evaluate(R, fam, [other, (r, qtext)], offs, header=f"{render([other])}, {r};q*={wire}")
            R.use("ext-q")
        # a whole item sent as a quoted string
        r0 = f["ranges"][0]
        if ";" not in r0:
            evaluate(R, fam, [(r0, None)], offs, header=f'"{r0}"')
            evaluate(R, fam, [(r0, None), (f["ranges"][2], "0.5")], offs, header=f'"{r0}", {f["ranges"][2]};q=0.5')
        return
    raise core.Broken(f"unknown unit {unit!r}")


def finalize(R, tier):
    need = {"family:" + f for f in FAM} | {"dropped-item", "all-items-valid", "order-group>1", "style", "odd-q",
                                           "ambiguous-duplicate-ranges", "api", "ext-q"}
    missing = need - R.used
    if missing:
        raise core.Broken(f"vacuity: never exercised {sorted(missing)}")
    if len(R.sets.get("outcomes", ())) < 8:
        raise core.Broken("vacuity: too few distinct negotiation outcomes")
    # the reference's q parser must classify the property's q forms as stated
    want = {None: 1.0, "0": 0.0, "0.001": 0.001, "0.5": 0.5, "1": 1.0, "1.000": 1.0, "x": None, "-1": None, "1.5": None}
    for q, v in want.items():
        if qval(q) != v:
            raise core.Broken(f"reference qval({q!r}) = {qval(q)!r}")
    return {"bound": "headers <= 2 items full q, 3 items " + ("full q" if tier == "thorough" else "q in {absent,0,0.5}")
                     + ", offer lists <= 3", "exhaustive": True, "families": len(FAM)}


# ------------------------------------------------------------------ replay / findings

def replay(rec):
    if rec.get("kind") != "neg":
        return True, rec.get("traceback", "unit exception")
    fam = rec["family"]
    f = FAM[fam]
    items = [tuple(x) for x in rec["items"]]
    hs = rec["header"]
    what = rec["what"]
    try:
        acc = parse_accept_header(hs, f["cls"])
    except Exception as e:  # noqa: BLE001
        return True, f"parse_accept_header({hs!r}, {f['cls'].__name__}) raised {e!r}"
    if what in ("best_match", "default"):
        of = list(rec["offers"])
        exp = ref_best(fam, items, of)
        if what == "default":
            exp = {("DEFAULT" if x is None else x) for x in exp}
        try:
            got = acc.best_match(of, default="DEFAULT") if what == "default" else acc.best_match(of)
        except Exception as e:  # noqa: BLE001
            got = ("EXC", type(e).__name__)
        text = (f"{f['cls'].__name__}: header={hs!r} offers={of!r}\nparsed={list(acc)!r}\n"
                f"best_match -> {got!r}\nacceptable per the statement: {sorted(exp, key=repr)!r}")
        return got not in exp, text
    if what in ("quality", "membership", "find-vs-in"):
        o = rec["offers"][0]
        qs, matched, anypos = ref_quality(fam, items, o)
        gq, gin, gidx = acc.quality(o), o in acc, acc.find(o)
        bad = gq not in qs or (not matched and gin) or (anypos and not gin) or ((gidx >= 0) != gin)
        return bad, (f"{f['cls'].__name__}: header={hs!r} offer={o!r}\nquality={gq!r} (allowed {sorted(qs)}) in={gin} "
                     f"find={gidx} matched={matched}")
    if what == "api":
        try:
            fails = api_failures(fam, items, hs, acc)
        except Exception as e:  # noqa: BLE001
            fails = [("exception:" + type(e).__name__, None, repr(e))]
        hit = [x for x in fails if x[0] == rec["name"]]
        return bool(hit), (f"{f['cls'].__name__}: header={hs!r}\nparsed={list(acc)!r}\n" +
                           "\n".join(f"{n}: want {w!r} got {g!r}" for n, w, g in (hit or fails)))
    if what in ("items", "order"):
        valid = [(r, qv) for r, q in items for qv in [qval(q)] if qv is not None]
        got_items = [(_norm_value(v), q) for v, q in acc]
        if sorted(got_items) != sorted((_norm_value(r), q) for r, q in valid):
            return True, f"header={hs!r}\nparsed items={got_items!r}\nvalid items={valid!r}"
        groups, ggroups = {}, {}
        for r, q in valid:
            groups.setdefault((f["spec"](r), q), []).append(_norm_value(r))
        for v, q in got_items:
            ggroups.setdefault((f["spec"](v), q), []).append(v)
        return groups != ggroups, f"header={hs!r}\nparsed order={got_items!r}\nclient order={valid!r}"
    return True, "parse exception"


def _f_prefix(rec):
    """LanguageAccept second fallback: winning primary tag mapped back to an offer with str.startswith."""
    if rec.get("family") != "lang" or rec.get("what") not in ("best_match", "default"):
        return False
    got = rec.get("got")
    if not isinstance(got, str) or got == "DEFAULT":
        return False
    want = [w for w in rec["want"] if isinstance(w, str) and w != "DEFAULT"]
    # the chosen offer's primary tag merely has an acceptable offer's primary tag as a proper prefix and precedes it
    offers = list(rec["offers"])
    return any(primary(got) != primary(w) and primary(got).startswith(primary(w)) and offers.index(got) < offers.index(w)
               for w in want)


FINDINGS = {"C17-language-fallback-prefix": _f_prefix}
