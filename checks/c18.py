"""C18 - context-local data never leaks between concurrent contexts.

E5 (mc/ilv.py).  Op level: every merge order of the operation lists of 2-3 contexts (siblings, and a parent
with a child spawned at every position), every program over the op alphabet up to the tier's length bound, in
three realisations (contextvars.Context.run per step / real threads stepped by a semaphore baton / asyncio
tasks on a hand-driven BaseEventLoop); after EVERY step the acting context's result and the observable state of
EVERY context (and of the untouched root) are compared with a reference model holding one immutable mapping,
one tuple and one variable per context.  Line level: sys.settrace line events inside werkzeug/local.py are
scheduling points for real threads; iterative preemption bounding 0,1,2.
Programs start from the empty root AND from a root that has already set values / pushed - a copy-on-write
mistake is only observable when the payload object is shared, i.e. from a non-initial state.
"""
from __future__ import annotations

import contextvars
import itertools

from mc import core, gen, ilv

ID = "C18"
LEVEL = "model_checking"
RULE = (
    "programs = every tuple of operation lists over the op alphabet (set/get/del attribute, iterate, push/pop/top, "
    "release, LocalManager.cleanup, proxy read of Local attr / stack top / ContextVar, proxy created late, in-place "
    "mutation of a by-value shared list through a proxy, ContextVar.set, spawn child) for 2 siblings, parent+child "
    "(spawn at every position) and 3 siblings, x 2 start states (empty root / root that has set, pushed, stored a "
    "list, set the var) x EVERY merge order x realisations ctx/thr/aio; line level: 2 sibling threads, every "
    "schedule with <=2 preemptions at line granularity inside werkzeug/local.py. state = (step, model of all "
    "contexts); transition = one operation executed on the real objects followed by a probe of every context. "
    "non-trivial = distinct (start, programs, order) in which at least two contexts write."
)
ASSUMPTIONS = [
    "scheduling points are operations (op level) and Python line events inside werkzeug/local.py (line level); "
    "preemption inside a single bytecode / free-threaded builds are out of scope",
    "other contexts are probed through reads only (ctx.run(read) / the context's own thread executing the read)",
    "a list stored in a Local before a spawn and mutated through a proxy is shared BY VALUE and modelled as shared; "
    "only the container payload held in the ContextVar must not be shared",
    "LocalStack contents are read through LocalStack._storage (slot asserted at start-up) to see the whole stack",
]

import werkzeug.local as wl  # noqa: E402
from werkzeug.local import Local, LocalManager, LocalProxy, LocalStack, release_local  # noqa: E402

TARGET = wl.__file__
UNSET = "<unset>"
UNBOUND = ("RE", False, "<LocalProxy unbound>")

if tuple(LocalStack.__slots__) != ("_storage",) or tuple(Local.__slots__) != ("__storage",):
    raise core.Broken(f"Local / LocalStack slots changed: {Local.__slots__} {LocalStack.__slots__}")


# ------------------------------------------------------------------ the world (real objects)

class World:
    __slots__ = ("loc", "st", "mgr", "cv", "px", "pl", "pt", "pcv", "dyn")

    def __init__(self):
        self.loc = Local()
        self.st = LocalStack()
        self.mgr = LocalManager([self.loc, self.st])
        self.cv = contextvars.ContextVar("c18.cv")
        self.px = self.loc("x")
        self.pl = self.loc("l")
        self.pt = self.st()
        self.pcv = LocalProxy(self.cv)
        self.dyn = None


def render(v):
    return ("L",) + tuple(v) if isinstance(v, list) else v


def rd(p):
    """Everything the statement says about a proxy: resolves in the accessing context, or reports itself unbound
    (RuntimeError, falsy, fallback repr)."""
    try:
        obj = p._get_current_object()
    except RuntimeError:
        return ("RE", bool(p), repr(p))
    return (render(obj), bool(p), repr(p))


def res(p):
    """Late-bound resolution only (the full unbound report - falsy, fallback repr - is what the proxy ops read)."""
    try:
        return render(p._get_current_object())
    except RuntimeError:
        return "RE"


def observe(w):
    """The probe run in every context after every step: all attributes, the whole stack, the var, and what each
    long-lived proxy resolves to in THIS context."""
    return (
        tuple(sorted([(k, render(v)) for k, v in w.loc])),
        tuple(w.st._storage.get(())),
        w.cv.get(UNSET),
        res(w.px), res(w.pt), res(w.pcv), res(w.pl),
    )


def do(w, op, cid):
    loc, st = w.loc, w.st
    if op[:4] == "set ":
        k, v = op[4:].split("=")
        setattr(loc, k, int(v))
        return None
    if op == "get x":
        try:
            return loc.x
        except AttributeError:
            return "AE"
    if op == "del x":
        try:
            del loc.x
            return None
        except AttributeError:
            return "AE"
    if op == "iter":
        return tuple(sorted((k, render(v)) for k, v in loc))
    if op[:5] == "push ":
        return tuple(st.push(int(op[5:])))
    if op == "pop":
        return st.pop()
    if op == "top":
        return st.top
    if op == "release":
        release_local(loc)
        release_local(st)
        return None
    if op == "cleanup":
        w.mgr.cleanup()
        return None
    if op == "proxy x":
        return rd(w.px)
    if op == "proxy top":
        return rd(w.pt)
    if op == "proxy cv":
        return rd(w.pcv)
    if op == "newlist":
        loc.l = []
        return None
    if op == "append":
        try:
            w.pl.append(cid)
            return None
        except RuntimeError:
            return "RE"
    if op[:3] == "cv=":
        w.cv.set(int(op[3:]))
        return None
    if op == "mkproxy":
        w.dyn = w.loc("x")
        return None
    if op == "proxy dyn":
        return rd(w.dyn) if w.dyn is not None else "NOPROXY"
    raise core.Broken(f"unknown op {op!r}")


# ------------------------------------------------------------------ the reference model

class G:
    """Model globals: the heap of by-value shared lists and whether the late proxy exists."""
    __slots__ = ("heap", "dyn")

    def __init__(self):
        self.heap = []
        self.dyn = False


M0 = ((), (), UNSET)   # (sorted attr items, stack, var); attr values: int or ("ref", k)


def _val(g, v):
    return g.heap[v[1]] if isinstance(v, tuple) else v


def m_rd(g, bound, v=None):
    if not bound:
        return UNBOUND
    v = _val(g, v)
    return (render(v), bool(v), repr(v))


_MO_CACHE: dict = {}


def m_observe(g, m):
    key = (m, tuple(map(tuple, g.heap))) if g.heap else m
    hit = _MO_CACHE.get(key)
    if hit is not None:
        return hit
    d, s, c = m
    dd = dict(d)
    out = (
        tuple((k, render(_val(g, v))) for k, v in d),
        s,
        c,
        render(_val(g, dd["x"])) if "x" in dd else "RE",
        s[-1] if s else "RE",
        c if c != UNSET else "RE",
        render(_val(g, dd["l"])) if "l" in dd else "RE",
    )
    if len(_MO_CACHE) < 200_000:
        _MO_CACHE[key] = out
    return out


def _with(d, k, v):
    dd = dict(d)
    dd[k] = v
    return tuple(sorted(dd.items()))


def m_do(g, m, op, cid):
    """-> (new model state of the acting context, expected result)"""
    d, s, c = m
    dd = dict(d)
    if op[:4] == "set ":
        k, v = op[4:].split("=")
        return (_with(d, k, int(v)), s, c), None
    if op == "get x":
        return m, (_val(g, dd["x"]) if "x" in dd else "AE")
    if op == "del x":
        if "x" in dd:
            del dd["x"]
            return (tuple(sorted(dd.items())), s, c), None
        return m, "AE"
    if op == "iter":
        return m, tuple((k, render(_val(g, v))) for k, v in d)
    if op[:5] == "push ":
        s2 = s + (int(op[5:]),)
        return (d, s2, c), s2
    if op == "pop":
        return ((d, s[:-1], c), s[-1]) if s else (m, None)
    if op == "top":
        return m, (s[-1] if s else None)
    if op in ("release", "cleanup"):
        return ((), (), c), None
    if op == "proxy x":
        return m, m_rd(g, "x" in dd, dd.get("x"))
    if op == "proxy top":
        return m, m_rd(g, bool(s), s[-1] if s else None)
    if op == "proxy cv":
        return m, m_rd(g, c != UNSET, c)
    if op == "newlist":
        g.heap.append([])
        return (_with(d, "l", ("ref", len(g.heap) - 1)), s, c), None
    if op == "append":
        if "l" in dd:
            _val(g, dd["l"]).append(cid)
            return m, None
        return m, "RE"
    if op[:3] == "cv=":
        return (d, s, int(op[3:])), None
    if op == "mkproxy":
        g.dyn = True
        return m, None
    if op == "proxy dyn":
        return m, (m_rd(g, "x" in dd, dd.get("x")) if g.dyn else "NOPROXY")
    raise core.Broken(f"unknown op {op!r}")


# ------------------------------------------------------------------ alphabets, starts, program spaces

FULL = ["set x=1", "set x=2", "set y=1", "get x", "del x", "iter", "push 1", "push 2", "pop", "top", "release",
        "cleanup", "proxy x", "proxy top", "proxy cv", "newlist", "append", "cv=2", "mkproxy", "proxy dyn"]
# MID: FULL without the second value of set/push and the two plain reads the per-step probe repeats anyway
MID = ["set x=2", "set y=1", "del x", "iter", "push 2", "pop", "release", "cleanup", "proxy x", "proxy top",
       "proxy cv", "newlist", "append", "cv=2", "mkproxy", "proxy dyn"]
WRITES = ["set x=2", "set y=1", "del x", "push 2", "pop", "release", "cleanup", "newlist", "append", "cv=2"]
CORE6 = ["set x=2", "del x", "push 2", "pop", "release", "append"]
CORE4 = ["set x=2", "push 2", "pop", "release"]
LINE8 = ["set x=2", "del x", "push 2", "pop", "release", "cleanup", "proxy x", "proxy top"]
FULL_LINE = [o for o in FULL if o not in ("mkproxy", "proxy dyn")]   # w.dyn is deliberately process-global
ALPH = {"full": FULL, "mid": MID, "fullline": FULL_LINE, "writes": WRITES, "core6": CORE6, "core4": CORE4,
        "line8": LINE8}
WRITE_OPS = set(WRITES) | {"set x=1", "push 1", "mkproxy"}

STARTS = {
    "empty": (),
    "used": ("set x=1", "push 1", "newlist", "cv=1"),
    "used-nolist": ("set x=1", "push 1", "cv=1"),
}

# families: (arrangement, alphabet, ops per context, starts, realisations)
#   arrangement "S2"/"S3": siblings (unordered: siblings are symmetric);
#   "PC": parent (context 0) + child (context 1) spawned at every position of the parent's list
QUICK = [
    ("S2", "mid", 2, ("used",), ("ctx",)),
    ("S2", "writes", 2, ("empty",), ("ctx",)),
    ("S2", "core4", 3, ("used",), ("ctx",)),
    ("PC", "writes", 2, ("used",), ("ctx",)),
    ("PC", "core6", 2, ("empty",), ("ctx",)),
    ("S3", "core4", 2, ("used",), ("ctx",)),
    ("S2", "core6", 2, ("empty", "used"), ("thr",)),
    ("PC", "core4", 2, ("empty", "used"), ("thr",)),
    ("S3", "core4", 1, ("used",), ("thr", "aio")),
    ("S2", "writes", 2, ("empty", "used"), ("aio",)),
    ("PC", "core6", 2, ("empty", "used"), ("aio",)),
]
THOROUGH = [
    ("S2", "full", 2, ("empty", "used"), ("ctx", "aio")),
    ("S2", "writes", 2, ("empty", "used"), ("thr",)),
    ("S2", "core6", 3, ("empty", "used"), ("ctx", "aio")),
    ("S2", "core4", 3, ("empty", "used"), ("thr",)),
    ("PC", "full", 2, ("used",), ("ctx",)),
    ("PC", "writes", 2, ("empty", "used"), ("ctx", "aio")),
    ("PC", "core6", 2, ("empty", "used"), ("thr",)),
    ("PC", "core4", 3, ("empty", "used"), ("ctx", "aio")),
    ("S3", "core6", 2, ("empty", "used"), ("ctx",)),
    ("S3", "core4", 2, ("empty", "used"), ("aio",)),
    ("S3", "core4", 2, ("used",), ("thr",)),
    ("S3", "writes", 1, ("empty", "used"), ("ctx", "thr", "aio")),
]
# line level: (alphabet, ops per context, starts, preemption bound); two sibling threads
LINE_QUICK = [("fullline", 1, ("used-nolist",), 2), ("fullline", 1, ("empty",), 1), ("core4", 2, ("used-nolist",), 1)]
LINE_THOROUGH = [("fullline", 1, ("empty", "used-nolist"), 2), ("core4", 2, ("empty", "used-nolist"), 2),
                 ("line8", 2, ("used-nolist",), 1)]
# measured CPU seconds per program (all its schedules), only used to size shards
LINE_COST = {("fullline", 1, 2): 0.5, ("fullline", 1, 1): 0.1, ("core4", 2, 2): 0.47, ("core4", 2, 1): 0.07,
             ("line8", 2, 1): 0.27}


def programs(arr, alphabet, k):
    """Yield (progs, spawn_of).  Lists have exactly k operations: shorter programs are prefixes (every step is
    judged, so they are covered).  Sibling arrangements are enumerated up to the order of the siblings."""
    A = ALPH[alphabet]
    P = list(itertools.product(A, repeat=k))
    if arr == "S2":
        for ps in itertools.combinations_with_replacement(P, 2):
            yield ps, {}
    elif arr == "S3":
        for ps in itertools.combinations_with_replacement(P, 3):
            yield ps, {}
    elif arr == "PC":
        for p0 in P:
            for at in range(k + 1):
                parent = p0[:at] + ("spawn",) + p0[at:]
                for p1 in P:
                    yield (parent, p1), {1: (0, at)}
    else:
        raise core.Broken(arr)


def n_programs(arr, alphabet, k):
    n = len(ALPH[alphabet]) ** k
    return {"S2": n * (n + 1) // 2, "S3": n * (n + 1) * (n + 2) // 6, "PC": n * n * (k + 1)}[arr]


def outcome_tokens(start, progs):
    """Vacuity: which result classes each operation produces (each context alone, per the model)."""
    g = G()
    mroot = M0
    for op in start:
        mroot, _ = m_do(g, mroot, op, "R")
    toks = set()
    for c, p in enumerate(progs):
        m = mroot
        for op in p:
            if op == "spawn":
                continue
            m, r = m_do(g, m, op, c)
            cls = ("None" if r is None else r if r in ("AE", "RE", "NOPROXY") else
                   "unbound" if r == UNBOUND else "bound" if op.startswith("proxy") else "val")
            toks.add(f"out:{op}:{cls}")
    return toks


# ------------------------------------------------------------------ op-level execution

def execute(real_name, native, start, progs, spawn_of, order, R=None):
    """Run one schedule; returns None (held) or a failure dict.  Counts transitions on R."""
    w = World()
    g = G()
    root = contextvars.Context()
    mroot = M0
    for op in start:
        r = root.run(ilv.call, do, w, op, "R")
        mroot, mr = m_do(g, mroot, op, "R")
        if r != mr:
            return {"step": -1, "what": "ret", "ctx": "root", "op": op, "got": r, "want": mr}
    initial = [i for i in range(len(progs)) if i not in spawn_of]
    spawn_at = {pk: child for child, pk in spawn_of.items()}
    real = ilv.REALISATIONS[real_name](root, len(initial), native=native)
    try:
        rcid = {p: i for i, p in enumerate(initial)}
        models = {p: mroot for p in initial}
        idx = [0] * len(progs)
        for step, c in enumerate(order):
            k = idx[c]
            op = progs[c][k]
            idx[c] += 1
            if op == "spawn":
                child = spawn_at[(c, k)]
                rcid[child] = real.spawn(rcid[c])
                models[child] = models[c]
                r = mr = None
            else:
                r = real.step(rcid[c], do, w, op, c)
                models[c], mr = m_do(g, models[c], op, c)
            if R is not None:
                R.count("transitions")
            if r != mr:
                return {"step": step, "what": "ret", "ctx": c, "op": op, "got": r, "want": mr}
            for j in models:
                ob = real.probe(rcid[j], observe, w)
                want = m_observe(g, models[j])
                if ob != want:
                    return {"step": step, "what": "leak" if j != c else "own-state", "ctx": j, "op": op,
                            "by": c, "got": ob, "want": want}
            ob = real.probe_root(observe, w)
            want = m_observe(g, mroot)
            if ob != want:
                return {"step": step, "what": "leak-into-parent", "ctx": "root", "op": op, "by": c,
                        "got": ob, "want": want}
        return None
    finally:
        real.close()


def sig_of(real_name, f):
    op = f["op"].split(" ")[0].split("=")[0]
    return f"op:{real_name}:{f['what']}:after-{op}"


def check_program(R, real_name, native, sname, progs, spawn_of):
    start = STARTS[sname]
    lengths = [len(p) for p in progs]
    for order in ilv.schedules(lengths, spawn_of):
        f = execute(real_name, native, start, progs, spawn_of, order, R)
        R.count("executions")
        R.ev()
        R.count("states", len(order) + 1)
        if f is None:
            continue
        first = (f["step"], f["what"], f["ctx"], f["got"])

        def again():
            f2 = execute(real_name, native, start, progs, spawn_of, order)
            return None if f2 is None else (f2["step"], f2["what"], f2["ctx"], f2["got"])

        ilv.confirm(again, first, f"{real_name} schedule {order} of {progs}")
        R.violation(sig_of(real_name, f), {
            "kind": "op", "real": real_name, "native": native, "start": sname, "progs": [list(p) for p in progs],
            "spawn_of": {str(k): list(v) for k, v in spawn_of.items()}, "order": list(order), "failure": f})
        return   # one report per program: later merge orders of the same program mostly repeat it


def run_op_unit(unit, R, tier):
    _k, arr, alphabet, k, sname, real_name, shard, nshards = unit
    native_choices = (False, True) if (real_name == "thr" and sname == "empty") else (False,)
    n = 0
    for progs, spawn_of in gen.shard(programs(arr, alphabet, k), nshards, shard):
        for native in native_choices:
            check_program(R, real_name, native, sname, progs, spawn_of)
        n += 1
        for p in progs:
            R.use(*("op:" + o for o in p))
        toks = outcome_tokens(STARTS[sname], progs)
        R.use(*toks)
        for tk in toks:
            R.outcome(tk)
        writers = sum(1 for p in progs if any(o in WRITE_OPS for o in p))
        if writers >= 2:
            R.nontrivial((arr, sname, progs))
        if shard == 0 and n == 3:     # one sample per family (shard 0 of each), not the trivial first program
            R.sample({"level": "op", "real": real_name, "arrangement": arr, "start": STARTS[sname],
                      "programs": [list(p) for p in progs],
                      "merge_orders": ilv.count_schedules([len(p) for p in progs], spawn_of)})
    R.use("real:" + real_name, "arr:" + arr, "start:" + sname)
    if True in native_choices:
        R.use("thr:native")


# ------------------------------------------------------------------ line-level execution

def line_expected(start, progs):
    """Contexts are isolated, so every context must see exactly what it would see running alone."""
    g = G()
    mroot = M0
    for op in start:
        mroot, _ = m_do(g, mroot, op, "R")
    exp = []
    for c, p in enumerate(progs):
        m = mroot
        res = []
        for op in p:
            m, r = m_do(g, m, op, c)
            res.append(r)
        exp.append((tuple(res), m_observe(g, m)))
    return tuple(exp), m_observe(g, mroot)


def line_make(start, progs):
    def make():
        w = World()
        root = contextvars.Context()
        for op in start:
            root.run(do, w, op, "R")
        ctxs = [root.copy() for _ in progs]
        results = [[] for _ in progs]

        def body(c):
            def run():
                for op in progs[c]:
                    results[c].append(ilv.call(do, w, op, c))
            return run

        def obs():
            return (tuple((tuple(results[c]), ctxs[c].run(observe, w)) for c in range(len(progs))),
                    root.run(observe, w))

        return [body(c) for c in range(len(progs))], [cx.run for cx in ctxs], obs

    return make


def check_lines(R, sname, progs, bound):
    start = STARTS[sname]
    exp = line_expected(start, progs)
    make = line_make(start, progs)
    found = []

    def on_exec(choices, preemptions, obs, trace):
        R.count("executions")
        R.count("line_executions")
        R.ev()
        if preemptions:
            R.use("line:preempted")
        if obs == exp:
            return False
        found.append((choices, preemptions, obs, trace))
        return True

    stats = ilv.explore_lines(make, bound, TARGET, on_exec)
    R.count("transitions", stats["points"])
    R.count("states", stats["points"] + stats["executions"])
    R.count("line_points", stats["points"])
    R.distinct("line_max_points", stats["max_points"])
    if stats["max_points"] >= 6:
        R.use("line:many-points")
    for b, nb in enumerate(stats["per_level"]):
        if nb:
            R.use(f"line:level{b}")
    if found:
        choices, preemptions, obs, trace = found[0]
        ilv.confirm(lambda: ilv.run_lines(make, choices, TARGET)[0], obs, f"line schedule {choices} of {progs}")
        kind = "thread-error" if obs and obs[0] == "THREAD-ERROR" else "isolation"
        R.violation(f"line:{kind}:preemptions={preemptions}", {
            "kind": "line", "start": sname, "progs": [list(p) for p in progs], "choices": choices,
            "preemptions": preemptions, "trace": trace, "got": obs, "want": exp})
    return stats


def run_line_unit(unit, R, tier):
    _k, alphabet, k, sname, bound, shard, nshards = unit
    n = 0
    for progs, _sp in gen.shard(programs("S2", alphabet, k), nshards, shard):
        st = check_lines(R, sname, progs, bound)
        n += 1
        if sum(1 for p in progs if any(o in WRITE_OPS for o in p)) >= 2:
            R.nontrivial(("line", sname, progs))
        if shard == 0 and n == 2:
            R.sample({"level": "line", "start": STARTS[sname], "programs": [list(p) for p in progs],
                      "preemption_bound": bound, "executions": st["executions"],
                      "scheduling_decisions": st["points"], "per_level": st["per_level"]})
    R.use("real:line", "start:" + sname)


# ------------------------------------------------------------------ runner interface

EXEC_US = {"ctx": 45.0, "thr": 520.0, "aio": 70.0}   # measured cost of one step (+probes), only used to size shards


def units(tier):
    fam = THOROUGH if tier == "thorough" else QUICK
    per_unit = (12.0 if tier == "thorough" else 2.5) * 1e6     # target micro-seconds of CPU per work unit
    u = []
    for arr, alphabet, k, starts, reals in fam:
        nprog = n_programs(arr, alphabet, k)
        lengths = {"S2": [k, k], "S3": [k, k, k], "PC": [k + 1, k]}[arr]
        nsched = ilv.count_schedules(lengths, {1: (0, k // 2)} if arr == "PC" else None)
        for sname in starts:
            for real in reals:
                cost = nprog * nsched * sum(lengths) * EXEC_US[real] * (2 if (real == "thr" and sname == "empty") else 1)
                ns = max(1, min(nprog, int(cost / per_unit) + 1))
                u.append((cost / ns, [("op", arr, alphabet, k, sname, real, i, ns) for i in range(ns)]))
    for alphabet, k, starts, bound in (LINE_THOROUGH if tier == "thorough" else LINE_QUICK):
        nprog = n_programs("S2", alphabet, k)
        per_prog = LINE_COST[(alphabet, k, bound)] * 1e6
        for sname in starts:
            cost = nprog * per_prog
            ns = max(1, min(nprog, int(cost / per_unit) + 1))
            u.append((cost / ns, [("line", alphabet, k, sname, bound, i, ns) for i in range(ns)]))
    # heaviest units first so the pool drains evenly; deterministic
    u.sort(key=lambda t: -t[0])
    return [x for _c, xs in u for x in xs]


def run_unit(unit, R, tier):
    if unit[0] == "op":
        run_op_unit(unit, R, tier)
    elif unit[0] == "line":
        run_line_unit(unit, R, tier)
    else:
        raise core.Broken(f"unknown unit {unit!r}")


def finalize(R, tier):
    fam = THOROUGH if tier == "thorough" else QUICK
    ops = set()
    for _a, al, _k, _s, _r in fam:
        ops |= set(ALPH[al])
    need = {"op:" + o for o in ops} | {"op:spawn"}
    need |= {"out:del x:None", "out:del x:AE", "out:pop:val", "out:pop:None", "out:append:None", "out:append:RE",
             "out:proxy x:bound", "out:proxy x:unbound", "out:proxy top:bound", "out:proxy top:unbound",
             "out:proxy cv:bound", "out:proxy dyn:NOPROXY", "out:proxy dyn:bound", "out:proxy dyn:unbound",
             "out:iter:val", "out:release:None", "out:cleanup:None"}
    if tier == "thorough":
        need |= {"out:get x:val", "out:get x:AE", "out:top:val", "out:top:None", "out:proxy cv:unbound"}
    need |= {"real:ctx", "real:thr", "real:aio", "real:line", "thr:native", "arr:S2", "arr:S3", "arr:PC",
             "start:empty", "start:used", "start:used-nolist", "line:preempted", "line:level0", "line:level1",
             "line:level2", "line:many-points"}
    missing = need - R.used
    if missing:
        raise core.Broken(f"vacuity: never exercised {sorted(missing)}")
    if R.counts["line_executions"] < 1000:
        raise core.Broken("vacuity: line level barely ran")
    return {
        "bound": "; ".join(f"{a}/{al}/len{k}/{'+'.join(r)}" for a, al, k, _s, r in fam),
        "preemption_bound": 2,
        "exhaustive": True,
        "closed": False,
        "realisations": ["contextvars.Context.run", "threads (semaphore baton)", "asyncio tasks (hand-driven loop)",
                         "threads, line-level settrace baton"],
        "line_level": {"executions": R.counts["line_executions"], "scheduling_decisions": R.counts["line_points"]},
        "explanation": "every merge order of every program of each family (siblings up to symmetry); line level: "
                       "every schedule with at most the stated number of preemptions",
    }


# ------------------------------------------------------------------ replay

def replay(rec):
    if rec.get("kind") == "op":
        progs = tuple(tuple(p) for p in rec["progs"])
        spawn_of = {int(k): tuple(v) for k, v in rec["spawn_of"].items()}
        f = execute(rec["real"], rec["native"], STARTS[rec["start"]], progs, spawn_of, tuple(rec["order"]))
        text = (f"realisation={rec['real']} native_thread_context={rec['native']}\n"
                f"root prefix : {STARTS[rec['start']]}\nprograms    : {progs} spawn_of={spawn_of}\n"
                f"merge order : {tuple(rec['order'])}\n")
        if f is None:
            return False, text + "no divergence from the model"
        return True, text + (f"after step {f['step']} (context {f.get('by', f['ctx'])} executed {f['op']!r}): "
                             f"{f['what']} in context {f['ctx']}\n  observed: {f['got']}\n  model   : {f['want']}\n"
                             "  (observation = attrs, stack, var, proxy x, proxy top, proxy var, proxy l)")
    if rec.get("kind") == "line":
        progs = tuple(tuple(p) for p in rec["progs"])
        start = STARTS[rec["start"]]
        exp = line_expected(start, progs)
        obs, trace, npts = ilv.run_lines(line_make(start, progs), list(rec["choices"]), TARGET)
        text = (f"line-level schedule, root prefix {start}\nprograms : {progs}\nchoices  : {list(rec['choices'])} "
                f"({rec['preemptions']} preemptions, {npts} decisions)\nthread at each decision: {trace}\n"
                f"observed : {obs}\nisolated : {exp}")
        return _plain(obs) != _plain(exp), text
    return True, rec.get("traceback", "unit exception")


def _plain(o):
    if isinstance(o, (list, tuple)):
        return [_plain(x) for x in o]
    return o


FINDINGS: dict = {}

LEVEL_TEXT = (
    "Explicit enumeration of schedules on the real werkzeug.local objects: every merge order of every short "
    "program for 2-3 contexts in three physical realisations of 'execution context' (Context.run, real threads, "
    "asyncio tasks), with the complete observable state of every context compared with a reference model after "
    "every single step, plus every line-granular thread schedule with <=2 preemptions inside werkzeug/local.py. "
    "The unit tests run one lucky schedule with sleeps."
)
LEVEL_NOTE = (
    "Trusted: the reference model (one immutable mapping/tuple/value per context, a by-value heap for lists), "
    "the baton schedulers in mc/ilv.py (every failing schedule is replayed twice and must reproduce), CPython's "
    "contextvars. Bounds: programs <=3 ops per context, <=3 contexts, preemption bound 2; scheduling points are "
    "operations and Python lines, not bytecodes; no free-threaded build."
)
TECHNIQUE = "exhaustive schedule enumeration (op-level merges x 3 realisations) + preemption-bounded line-level scheduling"
DESIGN_REF = "DESIGN.md §4 C18"
