"""C18 - context-local data never leaks between concurrent contexts.

E5 (mc/ilv.py).  Op level: every merge order of the operation lists of 2-3 contexts (siblings, and a parent
with a child spawned at every position), every program over the op alphabet up to the tier's length bound, in
three realisations (contextvars.Context.run per step / real threads stepped by a semaphore baton / asyncio
tasks on a hand-driven BaseEventLoop); after EVERY step the acting context's result and the observable state of
EVERY context (and of the untouched root) are compared with a reference model holding one immutable mapping,
one tuple and one variable per context.  Line level: sys.settrace line events inside werkzeug/local.py are
scheduling points for real threads; iterative preemption bounding 0,1,2.
Programs start from the empty root AND from a root that has already set values / pushed - a copy-on-write
mistake is only observable when the payload object is shared, i.e. from a non-initial state.
"""
from __future__ import annotations

import contextvars
import copy
import itertools
import operator

from mc import core, gen, ilv

ID = "C18"
LEVEL = "model_checking"
RULE = (
    "programs = every tuple of operation lists over the op alphabet (set/get/del attribute, iterate, push/pop/top, "
    "release (both / Local only / stack only), LocalManager.cleanup for three manager constructions, a WSGI request "
    "through make_middleware / middleware with the ClosingIterator closed now or later, proxy read of Local attr / "
    "stack top / ContextVar / callable / named attribute, operator batteries through every _ProxyLookup class, proxy "
    "created late, in-place mutation of a by-value shared list through a proxy (append, +=, item assignment), two "
    "Local / LocalStack objects over one ContextVar, one-shot hops into a worker thread with (to_thread) and without "
    "(run_in_executor) context propagation, ContextVar.set, spawn child) for 2 siblings, parent+child "
    "(spawn at every position), 3 siblings and two actors inside ONE context plus a sibling, x start states (empty root / root that has set, pushed, stored a "
    "list, set the var) x EVERY merge order x realisations ctx/thr/aio/aiox (tasks with explicit context=); line level: 2 "
    "sibling threads and parent + child spawned mid-program, every "
    "schedule with <=2 preemptions at line granularity inside werkzeug/local.py. state = (step, model of all "
    "contexts); transition = one operation executed on the real objects followed by a probe of every context. "
    "non-trivial = distinct (start, programs, order) in which at least two contexts write."
)
ASSUMPTIONS = [
    "scheduling points are operations (op level) and Python line events inside werkzeug/local.py (line level); "
    "preemption inside a single bytecode / free-threaded builds are out of scope",
    "other contexts are probed through reads only (ctx.run(read) / the context's own thread executing the read)",
    "a list stored in a Local before a spawn and mutated through a proxy is shared BY VALUE and modelled as shared; "
    "only the container payload held in the ContextVar must not be shared",
    "LocalStack contents are read through LocalStack._storage (slot asserted at start-up) to see the whole stack",
]

import werkzeug.local as wl  # noqa: E402
from werkzeug.local import Local, LocalManager, LocalProxy, LocalStack, release_local  # noqa: E402

TARGET = wl.__file__
UNSET = "<unset>"
FALLBACK_REPR = "<LocalProxy unbound>"
MSG_DEFAULT = "object is not bound"
MSG_X = "c18: no x in this context"
MSG_CV = "c18: var unset in this context"

if tuple(LocalStack.__slots__) != ("_storage",) or tuple(Local.__slots__) != ("__storage",):
    raise core.Broken(f"Local / LocalStack slots changed: {Local.__slots__} {LocalStack.__slots__}")


class _Any:
    """Matches everything: marks places where the statement does not decide the outcome."""

    def __eq__(self, other):
        return True

    def __ne__(self, other):
        return False

    def __hash__(self):
        return 0

    def __repr__(self):
        return "*"


ANY = _Any()


class OneOf:
    """Matches any of the listed outcomes."""

    def __init__(self, *opts):
        self.opts = opts

    def __eq__(self, other):
        return any(other == o for o in self.opts)

    def __ne__(self, other):
        return not self.__eq__(other)

    def __hash__(self):
        return 0

    def __repr__(self):
        return "one of " + repr(self.opts)


# ------------------------------------------------------------------ the world (real objects)

class World:
    """ext=False: the round-1 world (one Local, one LocalStack, one var, four long-lived proxies).
    ext=True adds, eagerly, every other proxy constructor form and the twin objects, and the probe reads them too.
    Everything else (custom-message / named proxies, the two other managers, the middlewares) is made on first use."""

    __slots__ = ("ext", "loc", "st", "mgr", "cv", "px", "pl", "pt", "pcv", "dyn", "lazy",
                 "py", "ptn", "pcn", "pf", "la", "lb", "sa", "sb", "pz", "open", "pv", "it")

    def __init__(self, ext=False):
        self.ext = ext
        loc = self.loc = Local()
        st = self.st = LocalStack()
        self.mgr = LocalManager([loc, st])
        self.cv = contextvars.ContextVar("c18.cv")
        self.px = loc("x")
        self.pl = loc("l")
        self.pt = st()
        self.pcv = LocalProxy(self.cv)
        self.pv = st("v")                                 # NAMED stack proxy: attribute "v" of the top object
        self.dyn = None
        self.it = None                                    # an open iterator over the Local: harness-held, shared
        self.lazy = {}
        self.open = {}
        if ext:
            self.py = LocalProxy(loc, "y")                # direct constructor form
            self.ptn = st("real")                         # attribute of the top item
            self.pcn = LocalProxy(self.cv, "real", unbound_message=MSG_CV)
            self.pf = LocalProxy(lambda: getattr(loc, "x", "nox"))   # callable form, always bound
            # two Local / LocalStack objects sharing ONE ContextVar each
            cvd = contextvars.ContextVar("c18.twin.dict")
            cvs = contextvars.ContextVar("c18.twin.list")
            self.la, self.lb = Local(cvd), Local(cvd)
            self.sa, self.sb = LocalStack(cvs), LocalStack(cvs)
            self.pz = self.lb("z")

    def get(self, name):
        v = self.lazy.get(name)
        if v is not None:
            return v
        loc, st = self.loc, self.st
        if name == "pm":
            v = loc("x", unbound_message=MSG_X)
        elif name == "py":
            v = self.py if self.ext else LocalProxy(loc, "y")
        elif name == "ptn":
            v = self.ptn if self.ext else st("real")
        elif name == "pcn":
            v = self.pcn if self.ext else LocalProxy(self.cv, "real", unbound_message=MSG_CV)
        elif name == "mgr1":
            v = LocalManager(loc)                         # a single Local
        elif name == "mgr0":
            v = LocalManager()                            # empty, filled afterwards
            v.locals.append(st)
        elif name in ("mw", "mwd"):
            def app(environ, start_response):
                loc.r = 7
                st.push(7)
                start_response("200 OK", [])
                return [b"x", b"y"]
            v = self.mgr.make_middleware(app) if name == "mw" else self.mgr.middleware(app)
        else:
            raise core.Broken(f"unknown lazy object {name}")
        self.lazy[name] = v
        return v


class Box:
    """A small object with an attribute, pushed on the stack and NEVER referenced by the harness afterwards: once
    every context has popped it, it is garbage and its address may be reused by the next Box."""
    __slots__ = ("v",)

    def __init__(self, v):
        self.v = v

    def __repr__(self):
        return f"Box({self.v})"


class MBox(Box):
    """The model's own twin of a Box (never seen by werkzeug)."""
    __slots__ = ()


def render(v):
    if isinstance(v, list):
        return ("L",) + tuple(v)
    if isinstance(v, Box):
        return ("B", v.v)
    return v


def val(tok):
    """Value tokens of the op alphabet: digits = int; e = "" ; N = None ; F = False - the falsy ones are BOUND values
    (a proxy bound to 0 / "" / False, or a Local attribute holding None, is bound; only an empty stack, a missing
    attribute, an unset var are unbound)."""
    return {"e": "", "N": None, "F": False}.get(tok, None) if tok in ("e", "N", "F") else int(tok)


def rd(p):
    """Everything the statement says about a proxy: resolves in the accessing context, or reports itself unbound
    (RuntimeError with the configured message, falsy, fallback repr)."""
    try:
        obj = p._get_current_object()
    except RuntimeError as e:
        return ("RE", bool(p), repr(p), str(e))
    except AttributeError:
        return ("no-such-attribute-on-the-bound-object",)
    return (render(obj), bool(p), repr(p))


def res(p):
    """Late-bound resolution only (the full unbound report - falsy, fallback repr - is what the proxy ops read)."""
    try:
        return render(p._get_current_object())
    except RuntimeError:
        return "RE"
    except AttributeError:
        return "no-such-attribute-on-the-bound-object"


def observe(w):
    """The probe run in every context after every step: all attributes, the whole stack, the var, what each
    long-lived proxy resolves to in THIS context; in the extended world also every other constructor form and both
    views of the twin objects."""
    if not w.ext:
        return (
            tuple(sorted([(k, render(v)) for k, v in w.loc])),
            tuple([render(x) for x in w.st._storage.get(())]),
            w.cv.get(UNSET),
            res(w.px), res(w.pt), res(w.pcv), res(w.pl), res(w.pv),
        )
    return (
        tuple(sorted([(k, render(v)) for k, v in w.loc])),
        tuple([render(x) for x in w.st._storage.get(())]),
        w.cv.get(UNSET),
        res(w.px), res(w.pt), res(w.pcv), res(w.pl), res(w.pv), res(w.py), res(w.ptn), res(w.pcn), res(w.pf),
        tuple(sorted(w.la)), tuple(sorted(w.lb)), tuple(w.sa._storage.get(())), w.sb.top, res(w.pz),
    )


def cap(f, p):
    try:
        return render(f(p))
    except core.Broken:
        raise
    except Exception as e:  # noqa: BLE001
        return ("X", type(e).__name__)


def _iop_int(p):
    q = p
    q += 1          # _ProxyIOp: forwards to the bound object, hands the proxy back
    return q is p


RE_ = ("X", "RuntimeError")
# CPython's slot wrappers swallow an exception raised while *looking up* __eq__/__lt__/__hash__ on the type (the
# descriptor's RuntimeError) and fall back to identity comparison / "not supported" / "unhashable": an unbound
# proxy then compares unequal to everything and is unorderable / unhashable.  Either way it does not pretend to
# be an object of another context, which is what the statement is about.
RE_OR_FALSE = OneOf(RE_, False)
RE_OR_TYPEERROR = OneOf(RE_, ("X", "TypeError"))
RE_T = RE_OR_TYPEERROR
# (what, real-side function, function on the raw bound value (None = same), outcome when nothing is bound)
#   one entry per forwarding class of _ProxyLookup: C function via partial, r-op wrapper, Python function via
#   __get__, plain getattr, fallback, is_attr fallback, _ProxyIOp, copy, method lookup through __getattr__
INT_BATTERY = [
    ("add", lambda p: p + 1, None, RE_T),
    ("radd", lambda p: 1 + p, None, RE_T),
    ("rpow", lambda p: 2 ** p, None, RE_T),
    ("eq", lambda p: p == 2, None, RE_OR_FALSE),
    ("lt", lambda p: p < 2, None, RE_OR_TYPEERROR),
    ("str", str, None, RE_T),
    ("format", lambda p: format(p, "03d"), None, RE_T),
    ("int", int, None, RE_T),
    ("hash", hash, None, RE_OR_TYPEERROR),
    ("neg", lambda p: -p, None, RE_T),
    ("getattr", lambda p: p.real, None, RE_T),
    ("method", lambda p: p.bit_length(), None, RE_T),
    ("copy", copy.copy, None, RE_T),
    ("deepcopy", copy.deepcopy, None, RE_T),
    ("divmod", lambda p: divmod(p, 2), None, RE_T),
    ("index", operator.index, None, RE_T),
    ("round", round, None, RE_T),
    ("iop", _iop_int, lambda v: (operator.iadd(v, 1), True)[1], RE_T),
    ("bool", bool, None, False),
    ("repr", repr, None, FALLBACK_REPR),
    ("isinstance", lambda p: isinstance(p, int), None, ANY),
    ("class", lambda p: p.__class__ is int, None, ANY),
    ("dir", lambda p: "bit_length" in dir(p), None, ANY),
    ("wrapped", lambda p: type(p.__wrapped__).__name__, None, ANY),
]
LIST_BATTERY = [
    ("len", len, None, RE_T),
    ("iter", lambda p: list(iter(p)), None, RE_T),
    ("contains", lambda p: 0 in p, None, RE_T),
    ("getitem", lambda p: p[0], None, RE_T),
    ("add", lambda p: p + [9], None, RE_T),
    ("radd", lambda p: [9] + p, None, RE_T),
    ("mul", lambda p: p * 2, None, RE_T),
    ("reversed", lambda p: list(reversed(p)), None, RE_T),
    ("eq", lambda p: p == [], None, RE_OR_FALSE),
    ("count", lambda p: p.count(0), None, RE_T),
    ("copy", copy.copy, None, RE_T),
    ("str", str, None, RE_T),
    ("bool", bool, None, False),
    ("repr", repr, None, FALLBACK_REPR),
    ("class", lambda p: p.__class__ is list, None, ANY),
]


def battery(bat, p):
    return tuple(cap(f, p) for _n, f, _m, _u in bat)


def m_battery(bat, bound, v):
    if not bound:
        return tuple(u for _n, _f, _m, u in bat)
    return tuple(cap(m if m is not None else f, v) for _n, f, m, _u in bat)


def _environ(cid):
    return {"REQUEST_METHOD": "GET", "c18.cid": cid}


def _sr(status, headers, exc_info=None):
    return None


def do(w, op, cid):
    loc, st = w.loc, w.st
    if op[:4] == "set ":
        k, v = op[4:].split("=")
        setattr(loc, k, val(v))
        return None
    if op == "get x":
        try:
            return loc.x
        except AttributeError:
            return "AE"
    if op == "del x":
        try:
            del loc.x
            return None
        except AttributeError:
            return "AE"
    if op == "iter":
        return tuple(sorted((k, render(v)) for k, v in loc))
    if op[:5] == "push ":
        return tuple([render(x) for x in st.push(val(op[5:]))])
    if op[:8] == "pushbox ":
        return tuple([render(x) for x in st.push(Box(int(op[8:])))])     # no reference to the Box is kept
    if op[:7] == "rebind ":
        top = st.top
        if not isinstance(top, Box):
            return "NOBOX"
        top.v = int(op[7:])
        return None
    if op == "proxy v":
        return rd(w.pv)
    if op == "pop":
        return render(st.pop())
    if op == "top":
        return render(st.top)
    if op == "release":
        release_local(loc)
        release_local(st)
        return None
    if op == "release loc":
        release_local(loc)
        return None
    if op == "release st":
        release_local(st)
        return None
    if op == "cleanup":
        w.mgr.cleanup()
        return None
    if op == "cleanup0":
        w.get("mgr0").cleanup()
        return None
    if op == "cleanup1":
        w.get("mgr1").cleanup()
        return None
    if op == "proxy x":
        return (rd(w.px), rd(w.get("pm")), rd(w.get("py")))
    if op == "proxy top":
        return (rd(w.pt), rd(w.get("ptn")))
    if op == "proxy cv":
        return (rd(w.pcv), rd(w.get("pcn")))
    if op == "rd x":
        return rd(w.px)
    if op == "rd top":
        return rd(w.pt)
    if op == "rd cv":
        return rd(w.pcv)
    if op == "bat x":
        return battery(INT_BATTERY, w.px)
    if op == "bat top":
        return battery(INT_BATTERY, w.pt)
    if op == "bat cv":
        return battery(INT_BATTERY, w.get("pcn"))
    if op == "bat l":
        return battery(LIST_BATTERY, w.pl)
    if op == "newlist":
        loc.l = []
        return None
    if op == "append":
        try:
            w.pl.append(cid)
            return None
        except RuntimeError:
            return "RE"
    if op == "iadd":
        try:
            r = operator.iadd(w.pl, [cid])
        except RuntimeError:
            return "RE"
        return None if r is w.pl else ("NOT-THE-PROXY", type(r).__name__)
    if op == "setitem0":
        try:
            w.pl[0] = cid
            return None
        except RuntimeError:
            return "RE"
        except IndexError:
            return "IE"
    if op[:3] == "cv=":
        w.cv.set(val(op[3:]))
        return None
    if op == "iter-open":
        w.it = iter(loc)           # opened here and now, in this context; consumed by a later step (maybe elsewhere)
        return None
    if op == "iter-drain":
        it, w.it = w.it, None
        if it is None:
            return "NOTOPEN"
        return tuple(sorted([(k, render(v)) for k, v in it]))
    if op == "mkproxy":
        w.dyn = w.loc("x")
        return None
    if op == "proxy dyn":
        return rd(w.dyn) if w.dyn is not None else "NOPROXY"
    # ---- WSGI request through the manager's middleware
    if op == "mwopen":
        it = w.get("mw")(_environ(cid), _sr)
        body = b"".join(it)
        w.open[cid] = it
        return body
    if op == "mwclose":
        it = w.open.pop(cid, None)
        if it is None:
            return "NOITER"
        it.close()
        return None
    if op == "mw":
        it = w.get("mwd")(_environ(cid), _sr)
        body = b"".join(it)
        it.close()
        return body
    # ---- twin objects over one ContextVar
    if op[:6] == "a.set ":
        k, v = op[6:].split("=")
        setattr(w.la, k, int(v))
        return None
    if op[:6] == "b.set ":
        k, v = op[6:].split("=")
        setattr(w.lb, k, int(v))
        return None
    if op == "b.del z":
        try:
            del w.lb.z
            return None
        except AttributeError:
            return "AE"
    if op == "a.get z":
        return getattr(w.la, "z", "AE")
    if op == "a.release":
        release_local(w.la)
        return None
    if op[:8] == "sa.push ":
        return tuple(w.sa.push(int(op[8:])))
    if op == "sb.pop":
        return w.sb.pop()
    if op == "sb.release":
        release_local(w.sb)
        return None
    raise core.Broken(f"unknown op {op!r}")


# ------------------------------------------------------------------ the reference model

class G:
    """Model globals: the heap of by-value shared lists, whether the late proxy exists, open middleware iterators."""
    __slots__ = ("heap", "dyn", "open", "boxes", "it")

    def __init__(self):
        self.heap = []
        self.dyn = False
        self.open = set()
        self.boxes = []
        self.it = None


# (sorted attr items, stack, var, twin attr items, twin stack); attr values: int or ("ref", k)
M0 = ((), (), UNSET, (), ())


def _val(g, v):
    if isinstance(v, tuple):
        return g.boxes[v[1]] if v[0] == "box" else g.heap[v[1]]
    return v


def _tb(s):
    """is a stack proxy bound: something is on the stack and the top item is not None (top's documented contract)"""
    return bool(s) and s[-1] is not None


def _rs(g, s):
    """rendered stack"""
    return tuple([render(_val(g, x)) for x in s])


def unbound(msg=MSG_DEFAULT):
    return ("RE", False, FALLBACK_REPR, msg)


NOATTR = "no-such-attribute-on-the-bound-object"


def m_rd(g, bound, v=None, msg=MSG_DEFAULT, name=None):
    if not bound:
        return unbound(msg)
    v = _val(g, v)
    if name is not None:
        if not hasattr(v, name):
            return (NOATTR,)
        v = getattr(v, name)
    return (render(v), bool(v), repr(v))


def m_named(bound, v, name="real"):
    if not bound:
        return "RE"
    return getattr(v, name) if hasattr(v, name) else NOATTR


_MO_CACHE: dict = {}


def m_observe(g, m, ext=True):
    key = (m, tuple(map(tuple, g.heap)), tuple([b.v for b in g.boxes])) if (g.heap or g.boxes) else m
    hit = _MO_CACHE.get(key)
    if hit is not None:
        return hit if ext else hit[:8]
    d, s, c, d2, s2 = m
    dd = dict(d)
    dd2 = dict(d2)
    out = (
        tuple((k, render(_val(g, v))) for k, v in d),
        _rs(g, s),
        c,
        render(_val(g, dd["x"])) if "x" in dd else "RE",
        render(_val(g, s[-1])) if _tb(s) else "RE",
        c if c != UNSET else "RE",
        render(_val(g, dd["l"])) if "l" in dd else "RE",
        m_named(_tb(s), _val(g, s[-1]) if s else None, "v"),
        dd["y"] if "y" in dd else "RE",
        m_named(_tb(s), _val(g, s[-1]) if s else None),
        m_named(c != UNSET, c),
        dd["x"] if "x" in dd else "nox",
        d2, d2, s2, (s2[-1] if s2 else None), (dd2["z"] if "z" in dd2 else "RE"),
    )
    if len(_MO_CACHE) < 200_000:
        _MO_CACHE[key] = out
    return out if ext else out[:8]


def _with(d, k, v):
    dd = dict(d)
    dd[k] = v
    return tuple(sorted(dd.items()))


def _without(d, k):
    return tuple((a, b) for a, b in d if a != k)


def m_do(g, m, op, cid):
    """-> (new model state of the acting context, expected result)"""
    d, s, c, d2, s2 = m
    dd = dict(d)
    if op[:3] in ("tt:", "ex:"):
        # one-shot hop: a copy of this context (tt) or an empty context (ex); whatever it writes is gone with it
        _m, r = m_do(g, m if op[0] == "t" else M0, op[3:], cid)
        return m, r
    if op[:4] == "set ":
        k, v = op[4:].split("=")
        return (_with(d, k, val(v)), s, c, d2, s2), None
    if op == "get x":
        return m, (_val(g, dd["x"]) if "x" in dd else "AE")
    if op == "del x":
        if "x" in dd:
            return (_without(d, "x"), s, c, d2, s2), None
        return m, "AE"
    if op == "iter":
        return m, tuple((k, render(_val(g, v))) for k, v in d)
    if op[:5] == "push ":
        sn = s + (val(op[5:]),)
        return (d, sn, c, d2, s2), _rs(g, sn)
    if op[:8] == "pushbox ":
        g.boxes.append(MBox(int(op[8:])))
        sn = s + (("box", len(g.boxes) - 1),)
        return (d, sn, c, d2, s2), _rs(g, sn)
    if op[:7] == "rebind ":
        if not (s and isinstance(s[-1], tuple)):
            return m, "NOBOX"
        g.boxes[s[-1][1]].v = int(op[7:])      # in place: every context holding this very object sees it (by value)
        return m, None
    if op == "proxy v":
        return m, m_rd(g, _tb(s), s[-1] if s else None, name="v")
    if op == "pop":
        return ((d, s[:-1], c, d2, s2), render(_val(g, s[-1]))) if s else (m, None)
    if op == "top":
        return m, (render(_val(g, s[-1])) if s else None)
    if op in ("release", "cleanup"):
        return ((), (), c, d2, s2), None
    if op in ("release loc", "cleanup1"):
        return ((), s, c, d2, s2), None
    if op in ("release st", "cleanup0"):
        return (d, (), c, d2, s2), None
    if op == "proxy x":
        return m, (m_rd(g, "x" in dd, dd.get("x")), m_rd(g, "x" in dd, dd.get("x"), MSG_X),
                   m_rd(g, "y" in dd, dd.get("y")))
    if op == "proxy top":
        return m, (m_rd(g, _tb(s), s[-1] if s else None), m_rd(g, _tb(s), s[-1] if s else None, name="real"))
    if op == "proxy cv":
        return m, (m_rd(g, c != UNSET, c), m_rd(g, c != UNSET, c, MSG_CV, name="real"))
    if op == "rd x":
        return m, m_rd(g, "x" in dd, dd.get("x"))
    if op == "rd top":
        return m, m_rd(g, _tb(s), s[-1] if s else None)
    if op == "rd cv":
        return m, m_rd(g, c != UNSET, c)
    if op == "bat x":
        return m, m_battery(INT_BATTERY, "x" in dd, dd.get("x"))
    if op == "bat top":
        return m, m_battery(INT_BATTERY, _tb(s), s[-1] if s else None)
    if op == "bat cv":
        if c != UNSET and not hasattr(c, "real"):
            return m, tuple(ANY for _ in INT_BATTERY)       # the bound object has no such attribute: not our subject
        return m, m_battery(INT_BATTERY, c != UNSET, c.real if c != UNSET else None)
    if op == "bat l":
        return m, m_battery(LIST_BATTERY, "l" in dd, _val(g, dd["l"]) if "l" in dd else None)
    if op == "newlist":
        g.heap.append([])
        return (_with(d, "l", ("ref", len(g.heap) - 1)), s, c, d2, s2), None
    if op in ("append", "iadd"):
        if "l" in dd:
            _val(g, dd["l"]).append(cid)
            return m, None
        return m, "RE"
    if op == "setitem0":
        if "l" not in dd:
            return m, "RE"
        lst = _val(g, dd["l"])
        if not lst:
            return m, "IE"
        lst[0] = cid
        return m, None
    if op[:3] == "cv=":
        return (d, s, val(op[3:]), d2, s2), None
    if op == "iter-open":
        g.it = d                   # the snapshot of the OPENING context at opening time
        return m, None
    if op == "iter-drain":
        snap, g.it = g.it, None
        if snap is None:
            return m, "NOTOPEN"
        return m, tuple((k, render(_val(g, v))) for k, v in snap)
    if op == "mkproxy":
        g.dyn = True
        return m, None
    if op == "proxy dyn":
        return m, (m_rd(g, "x" in dd, dd.get("x")) if g.dyn else "NOPROXY")
    if op == "mwopen":
        g.open.add(cid)
        return (_with(d, "r", 7), s + (7,), c, d2, s2), b"xy"
    if op == "mwclose":
        if cid not in g.open:
            return m, "NOITER"
        g.open.discard(cid)
        return ((), (), c, d2, s2), None
    if op == "mw":
        return ((), (), c, d2, s2), b"xy"
    if op[:6] in ("a.set ", "b.set "):
        k, v = op[6:].split("=")
        return (d, s, c, _with(d2, k, int(v)), s2), None
    if op == "b.del z":
        if "z" in dict(d2):
            return (d, s, c, _without(d2, "z"), s2), None
        return m, "AE"
    if op == "a.get z":
        return m, dict(d2).get("z", "AE")
    if op == "a.release":
        return (d, s, c, (), s2), None
    if op[:8] == "sa.push ":
        sn = s2 + (int(op[8:]),)
        return (d, s, c, d2, sn), sn
    if op == "sb.pop":
        return ((d, s, c, d2, s2[:-1]), s2[-1]) if s2 else (m, None)
    if op == "sb.release":
        return (d, s, c, d2, ()), None
    raise core.Broken(f"unknown op {op!r}")


# ------------------------------------------------------------------ alphabets, starts, program spaces

FULL = ["set x=1", "set x=2", "set y=1", "get x", "del x", "iter", "push 1", "push 2", "pop", "top", "release",
        "cleanup", "proxy x", "proxy top", "proxy cv", "newlist", "append", "cv=2", "mkproxy", "proxy dyn"]
# MID: FULL without the second value of set/push and the two plain reads the per-step probe repeats anyway
MID = ["set x=2", "set y=1", "del x", "iter", "push 2", "pop", "release", "cleanup", "proxy x", "proxy top",
       "proxy cv", "newlist", "append", "cv=2", "mkproxy", "proxy dyn"]
WRITES = ["set x=2", "set y=1", "del x", "push 2", "pop", "release", "cleanup", "newlist", "append", "cv=2"]
CORE6 = ["set x=2", "del x", "push 2", "pop", "release", "append"]
CORE4 = ["set x=2", "push 2", "pop", "release"]
LINE8 = ["set x=2", "del x", "push 2", "pop", "release", "cleanup", "rd x", "rd top"]
# line level: w.dyn is deliberately process-global; single-proxy reads keep the number of scheduling points small
FULL_LINE = [{"proxy x": "rd x", "proxy top": "rd top", "proxy cv": "rd cv"}.get(o, o)
             for o in FULL if o not in ("mkproxy", "proxy dyn")]
# round 2: one alphabet per mechanism the first round never entered
PROXY = ["set x=2", "del x", "push 2", "pop", "newlist", "release", "cv=2", "bat x", "bat top", "bat cv", "bat l",
         "iadd", "setitem0", "proxy x"]
PROXY10 = ["set x=2", "del x", "pop", "newlist", "release", "bat x", "bat top", "bat l", "iadd", "setitem0"]
PROXY6 = ["set x=2", "del x", "newlist", "bat x", "bat l", "iadd"]
TWIN = ["a.set z=2", "b.set z=3", "b.del z", "a.get z", "a.release", "sa.push 2", "sb.pop", "sb.release", "set x=2",
        "release"]
TWIN6 = ["a.set z=2", "b.del z", "a.release", "sa.push 2", "sb.pop", "sb.release"]
MW = ["mwopen", "mwclose", "mw", "cleanup0", "cleanup1", "release loc", "release st", "set x=2", "push 2", "pop"]
MW6 = ["mwopen", "mwclose", "mw", "cleanup0", "set x=2", "push 2"]
HOP = ["tt:set x=2", "tt:push 2", "tt:pop", "tt:release", "tt:append", "tt:del x", "ex:set x=2", "ex:push 2",
       "ex:get x", "set x=2", "push 2", "pop"]
HOP6 = ["tt:set x=2", "tt:pop", "tt:release", "ex:set x=2", "set x=2", "pop"]
# round 2 (seed C18-2b): every binding door also holds FALSY objects - bound to 0 / "" / False / None is not unbound
FALSY = ["set x=0", "set x=e", "set x=N", "push 0", "push e", "push F", "cv=0", "cv=e", "cv=N", "del x", "pop", "proxy x",
         "proxy top", "proxy cv", "bat x", "bat top", "get x", "top"]
FALSY10 = ["set x=0", "set x=N", "push 0", "push e", "cv=0", "cv=N", "pop", "proxy x", "proxy top", "proxy cv"]
FALSY6 = ["set x=0", "push 0", "push e", "cv=0", "cv=N", "pop", "proxy top"]
FALSY_LINE = ["set x=0", "push 0", "push F", "cv=0", "cv=N", "pop", "rd top", "rd x", "rd cv"]
# wave 4 (seed C18-4b): objects WITH attributes on the stack, a named stack proxy, attribute rebinding on the top
# object, and push / pop / push of fresh same-type objects that nobody keeps alive (address reuse may happen)
BOX = ["pushbox 1", "pushbox 2", "rebind 3", "rebind 4", "pop", "push 2", "release", "proxy v", "proxy top"]
BOX6 = ["pushbox 1", "pushbox 2", "rebind 3", "pop", "release", "proxy v"]
BOX_LINE = ["pushbox 1", "pushbox 2", "rebind 3", "pop", "rd top"]
# wave 5 (seed C18-5a): iteration SPLIT over two steps - the iterator is opened in one context and consumed later,
# by the same or by another context; it must yield the opening context's attributes as they were when it was opened
ITER = ["iter-open", "iter-drain", "set x=2", "set y=1", "del x", "release", "cleanup", "newlist", "append"]
ITER6 = ["iter-open", "iter-drain", "set x=2", "set y=1", "del x", "release"]
# wave 6 (seed C18-6a): None ON the stack (top is None although the stack is not empty) - a release / cleanup /
# middleware close must still drop everything: the whole stack is compared, later pops and children included
NONE = ["push N", "push 0", "push 2", "release", "release st", "cleanup", "cleanup0", "mw", "pop", "proxy top"]
NONE5 = ["push N", "release", "cleanup", "pop", "push 2"]
NONE_LINE = ["push N", "release", "pop", "rd top"]
ALPH = {"none": NONE, "none5": NONE5, "noneline": NONE_LINE, "iter": ITER, "iter6": ITER6, "box": BOX, "box6": BOX6, "boxline": BOX_LINE, "falsy": FALSY, "falsy10": FALSY10, "falsy6": FALSY6, "falsyline": FALSY_LINE, "full": FULL, "mid": MID, "fullline": FULL_LINE, "writes": WRITES, "core6": CORE6, "core4": CORE4,
        "line8": LINE8, "proxy": PROXY, "proxy10": PROXY10, "proxy6": PROXY6, "twin": TWIN, "twin6": TWIN6, "mw": MW, "mw6": MW6,
        "hop": HOP, "hop6": HOP6}
EXT_ALPH = {"proxy", "proxy10", "proxy6", "twin", "twin6", "mw", "mw6", "hop", "hop6"}   # families run in the extended world
READ_OPS = {"rd x", "rd top", "rd cv", "get x", "iter", "top", "proxy x", "proxy top", "proxy cv", "proxy dyn", "bat x", "bat top", "bat cv",
            "bat l", "a.get z", "ex:get x"}

STARTS = {
    "empty": (),
    "used": ("set x=1", "push 1", "newlist", "cv=1"),
    "used-nolist": ("set x=1", "push 1", "cv=1"),
    "used2": ("set x=1", "push 1", "newlist", "cv=1", "a.set z=1", "sa.push 1"),
    "falsy": ("set x=0", "push 1", "push 0", "cv=0"),       # a parent already bound to falsy objects
    "boxed": ("set x=1", "pushbox 1"),                       # a parent whose top object is shared by value
}

# families: (arrangement, alphabet, ops per context, starts, realisations)
#   "S2"/"S3": siblings (unordered: siblings are symmetric);
#   "PC": parent (context 0) + child (context 1) spawned at every position of the parent's list;
#   "SH": actors 0 and 1 live in ONE context (two tasks created with the same context=), actor 2 is a sibling
QUICK = [
    ("S2", "mid", 2, ("used",), ("ctx",)),
    ("S2", "writes", 2, ("empty",), ("ctx",)),
    ("S2", "core4", 3, ("used",), ("ctx",)),
    ("PC", "writes", 2, ("used",), ("ctx",)),
    ("PC", "core6", 2, ("empty",), ("ctx",)),
    ("S3", "core4", 2, ("used",), ("ctx",)),
    ("S2", "core6", 2, ("empty", "used"), ("thr",)),
    ("PC", "core4", 2, ("used",), ("thr",)),
    ("S3", "core4", 1, ("used",), ("thr", "aio")),
    ("S2", "writes", 2, ("used",), ("aio",)),
    ("PC", "core6", 2, ("empty", "used"), ("aio",)),
    ("S2", "none", 2, ("used",), ("ctx",)),
    ("PC", "none5", 2, ("used",), ("ctx",)),
    ("S2", "none5", 2, ("used",), ("thr", "aio")),
    ("S2", "iter6", 2, ("empty", "used"), ("ctx",)),
    ("PC", "iter6", 2, ("used",), ("ctx",)),
    ("S2", "iter6", 2, ("used",), ("aio",)),
    ("S2", "iter6", 1, ("used",), ("thr",)),
    ("S2", "box", 2, ("empty", "boxed"), ("ctx",)),
    ("PC", "box6", 2, ("empty", "boxed"), ("ctx",)),
    ("S2", "box6", 1, ("empty",), ("thr",)),
    ("S2", "box6", 2, ("empty",), ("aio",)),
    # round 2 (wall budget: the larger thread / asyncio / line families of these mechanisms run in thorough only)
    ("S2", "falsy10", 2, ("used", "falsy"), ("ctx",)),
    ("PC", "falsy6", 2, ("empty", "falsy"), ("ctx",)),
    ("S2", "falsy6", 1, ("falsy",), ("thr", "aio")),
    ("S2", "proxy10", 2, ("used2",), ("ctx",)),
    ("S2", "twin", 2, ("used2",), ("ctx",)),
    ("S2", "mw", 2, ("used2",), ("ctx",)),
    ("S2", "hop6", 2, ("used2",), ("ctx",)),
    ("PC", "proxy6", 2, ("used2",), ("ctx",)),
    ("PC", "twin6", 2, ("used2",), ("ctx",)),
    ("PC", "mw6", 2, ("used2",), ("ctx", "aio")),
    ("PC", "hop6", 2, ("used2",), ("ctx",)),
    ("S2", "twin6", 2, ("used2",), ("aio",)),
    ("S2", "mw6", 2, ("used2",), ("aio",)),
    ("S2", "hop6", 1, ("used2",), ("thr", "aio")),
    ("S2", "proxy6", 2, ("used2",), ("aio",)),
    ("S2", "core6", 2, ("empty", "used"), ("aiox",)),
    ("PC", "core4", 2, ("empty", "used"), ("aiox",)),
    ("SH", "writes", 1, ("empty", "used"), ("ctx", "aio")),
    ("SH", "mid", 1, ("used",), ("ctx",)),
]
THOROUGH = [
    ("S2", "full", 2, ("empty", "used"), ("ctx", "aio")),
    ("S2", "writes", 2, ("empty", "used"), ("thr",)),
    ("S2", "core6", 3, ("empty", "used"), ("ctx",)),
    ("S2", "core6", 3, ("used",), ("aio",)),
    ("S2", "core4", 3, ("used",), ("thr",)),
    ("PC", "full", 2, ("used",), ("ctx",)),
    ("PC", "writes", 2, ("empty", "used"), ("ctx", "aio")),
    ("PC", "core6", 2, ("empty", "used"), ("thr",)),
    ("PC", "core4", 2, ("empty",), ("thr",)),
    ("PC", "core4", 3, ("empty", "used"), ("ctx", "aio")),
    ("S3", "core6", 2, ("used",), ("ctx",)),
    ("S3", "core4", 2, ("empty",), ("ctx",)),
    ("S3", "core4", 2, ("empty", "used"), ("aio",)),
    ("S3", "writes", 1, ("empty", "used"), ("ctx", "thr", "aio")),
    ("S2", "none", 2, ("empty", "used", "falsy"), ("ctx", "aio")),
    ("S2", "none", 2, ("used",), ("thr",)),
    ("S2", "none5", 3, ("used",), ("ctx",)),
    ("PC", "none", 2, ("used", "falsy"), ("ctx",)),
    ("PC", "none5", 2, ("used",), ("aio",)),
    ("PC", "none5", 2, ("empty", "used"), ("thr", "aiox")),
    ("S2", "iter", 2, ("empty", "used"), ("ctx", "aio")),
    ("S2", "iter6", 2, ("empty", "used"), ("thr", "aiox")),
    ("S2", "iter6", 3, ("used",), ("ctx",)),
    ("PC", "iter", 2, ("empty", "used"), ("ctx",)),
    ("PC", "iter6", 2, ("used",), ("aio",)),
    ("PC", "iter6", 2, ("used",), ("thr",)),
    ("S2", "box", 2, ("empty", "boxed"), ("ctx", "aio", "thr")),
    ("S2", "box6", 3, ("empty",), ("ctx",)),
    ("PC", "box", 2, ("empty", "boxed"), ("ctx", "aio")),
    ("PC", "box6", 2, ("empty", "boxed"), ("thr", "aiox")),
    # round 2
    ("S2", "falsy", 2, ("empty", "used", "falsy"), ("ctx",)),
    ("S2", "falsy", 2, ("falsy",), ("aio",)),
    ("S2", "falsy10", 2, ("empty", "falsy"), ("aiox",)),
    ("S2", "falsy6", 2, ("empty", "falsy"), ("thr",)),
    ("S2", "falsy6", 3, ("falsy",), ("ctx",)),
    ("PC", "falsy10", 2, ("empty", "used", "falsy"), ("ctx", "aio")),
    ("PC", "falsy6", 2, ("empty", "falsy"), ("thr",)),
    ("S3", "falsy6", 1, ("falsy",), ("ctx", "thr", "aio")),
    ("S2", "proxy", 2, ("empty", "used2"), ("ctx", "aio")),
    ("S2", "twin", 2, ("empty", "used2"), ("ctx", "aio")),
    ("S2", "mw", 2, ("empty", "used2"), ("ctx", "aio")),
    ("S2", "hop", 2, ("empty", "used2"), ("ctx", "aio")),
    ("S2", "mw6", 3, ("used2",), ("ctx",)),
    ("S2", "hop6", 3, ("used2",), ("ctx",)),
    ("PC", "proxy", 2, ("used2",), ("ctx",)),
    ("PC", "twin", 2, ("used2",), ("ctx", "aio")),
    ("PC", "mw", 2, ("used2",), ("ctx", "aio")),
    ("PC", "hop", 2, ("used2",), ("ctx", "aio")),
    ("PC", "twin6", 2, ("empty", "used2"), ("thr",)),
    ("PC", "mw6", 2, ("empty", "used2"), ("thr",)),
    ("PC", "hop6", 2, ("empty", "used2"), ("thr",)),
    ("S2", "twin6", 2, ("empty", "used2"), ("thr",)),
    ("S2", "mw6", 2, ("empty", "used2"), ("thr",)),
    ("S2", "hop6", 2, ("empty", "used2"), ("thr",)),
    ("S2", "proxy6", 2, ("empty", "used2"), ("thr",)),
    ("S2", "writes", 2, ("empty", "used"), ("aiox",)),
    ("PC", "core6", 2, ("empty", "used"), ("aiox",)),
    ("S3", "core4", 1, ("used",), ("aiox",)),
    ("SH", "writes", 1, ("empty", "used"), ("ctx", "aio", "aiox")),
    ("SH", "mid", 1, ("used",), ("ctx",)),
    ("SH", "core4", 2, ("empty", "used"), ("ctx", "aio")),
]
# line level: (arrangement, alphabet, ops per context, starts, preemption bound)
#   NB the line-level oracle is "every context behaves as if alone", which does not hold for a list shared BY VALUE
#   (the order of appends is the schedule): line families never combine a start that stores a list with `append`
#   "S2": two sibling threads;  "PC": the parent thread spawns the child thread (copy_context) at every position
LINE_QUICK = [("S2", "noneline", 1, ("used-nolist",), 1), ("S2", "boxline", 1, ("empty",), 1), ("S2", "falsyline", 1, ("falsy",), 1), ("S2", "fullline", 1, ("used-nolist",), 1),
              ("S2", "fullline", 1, ("empty",), 1), ("S2", "core4", 1, ("used-nolist",), 2),
              ("S2", "core4", 2, ("used-nolist",), 1), ("S2", "mw6", 1, ("used-nolist",), 1),
              ("S2", "twin6", 1, ("used2",), 1), ("PC", "core4", 1, ("used-nolist",), 2),
              ("PC", "core4", 2, ("used-nolist",), 1)]
LINE_THOROUGH = [("S2", "noneline", 1, ("used-nolist",), 2), ("S2", "noneline", 2, ("used-nolist",), 1), ("S2", "boxline", 1, ("empty",), 2), ("S2", "boxline", 2, ("empty",), 1),
                 ("S2", "falsyline", 1, ("empty", "falsy"), 2), ("S2", "falsyline", 2, ("falsy",), 1),
                 ("PC", "falsy6", 2, ("falsy",), 1),
                 ("S2", "fullline", 1, ("empty", "used-nolist"), 2), ("S2", "core4", 2, ("empty", "used-nolist"), 2),
                 ("S2", "line8", 2, ("used-nolist",), 1), ("S2", "mw6", 1, ("empty", "used-nolist"), 2),
                 ("S2", "mw6", 2, ("used-nolist",), 1), ("S2", "twin6", 1, ("empty", "used2"), 2),
                 ("S2", "twin6", 2, ("used2",), 1),
                 ("PC", "core4", 1, ("empty", "used-nolist"), 2), ("PC", "core4", 2, ("empty", "used-nolist"), 2),
                 ("PC", "core6", 2, ("used-nolist",), 1), ("PC", "mw6", 2, ("used-nolist",), 1)]
# measured CPU seconds per program (all its schedules), only used to size shards
LINE_COST = {1: {1: 0.1, 2: 0.5}, 2: {1: 0.3, 2: 0.6}}
LINE_COST_PC = {1: {1: 0.01, 2: 0.05}, 2: {1: 0.05, 2: 0.15}}   # a child only exists after the spawn: far fewer schedules


def programs(arr, alphabet, k):
    """Yield (progs, spawn_of).  Lists have exactly k operations: shorter programs are prefixes (every step is
    judged, so they are covered).  Symmetric actors are enumerated up to their order."""
    A = ALPH[alphabet]
    P = list(itertools.product(A, repeat=k))
    if arr == "S2":
        for ps in itertools.combinations_with_replacement(P, 2):
            yield ps, {}
    elif arr == "S3":
        for ps in itertools.combinations_with_replacement(P, 3):
            yield ps, {}
    elif arr == "SH":
        for p01 in itertools.combinations_with_replacement(P, 2):
            for p2 in P:
                yield p01 + (p2,), {}
    elif arr == "PC":
        for p0 in P:
            for at in range(k + 1):
                parent = p0[:at] + ("spawn",) + p0[at:]
                for p1 in P:
                    yield (parent, p1), {1: (0, at)}
    else:
        raise core.Broken(arr)


def n_programs(arr, alphabet, k):
    n = len(ALPH[alphabet]) ** k
    return {"S2": n * (n + 1) // 2, "S3": n * (n + 1) * (n + 2) // 6, "PC": n * n * (k + 1),
            "SH": n * n * (n + 1) // 2}[arr]


def outcome_tokens(start, progs):
    """Vacuity: which result classes each operation produces (each context alone, per the model)."""
    g = G()
    mroot = M0
    for op in start:
        mroot, _ = m_do(g, mroot, op, "R")
    toks = set()
    for c, p in enumerate(progs):
        m = mroot
        for op in p:
            if op == "spawn":
                continue
            m, r = m_do(g, m, op, c)
            if r is None:
                cls = "None"
            elif isinstance(r, str) and r in ("AE", "RE", "IE", "NOPROXY", "NOITER", "NOBOX", "NOTOPEN"):
                cls = r
            elif op.startswith("bat"):
                cls = "unbound" if isinstance(r[0], OneOf) else "bound"
            elif op.startswith("rd "):
                cls = "unbound" if len(r) == 4 else "bound"
            elif op == "proxy v":
                cls = "unbound" if len(r) == 4 else "bound"
            elif op.startswith("proxy") and op != "proxy dyn":
                cls = ("unbound" if r[0][0] == "RE" and len(r[0]) == 4
                       else "bound-falsy" if len(r[0]) == 3 and r[0][1] is False else "bound")
            elif op == "proxy dyn":
                cls = "unbound" if len(r) == 4 else "bound"
            else:
                cls = "val"
            toks.add(f"out:{op}:{cls}")
    return toks


# ------------------------------------------------------------------ op-level execution

def execute(real_name, native, start, progs, spawn_of, order, R=None, shared=False, ext=False, tolerated=None):
    """Run one schedule; returns None (held) or a failure dict.  Counts transitions on R.
    shared=True: actor 1 lives in actor 0's context (arrangement SH).  tolerated(failure) -> True: a wrong RESULT that
    is an already recorded known finding; the schedule goes on (state comparisons are never tolerated)."""
    w = World(ext)
    g = G()
    root = contextvars.Context()
    mroot = M0
    for op in start:
        r = root.run(ilv.call, do, w, op, "R")
        mroot, mr = m_do(g, mroot, op, "R")
        if r != mr:
            return {"step": -1, "what": "ret", "ctx": "root", "op": op, "got": r, "want": mr}
    initial = [i for i in range(len(progs)) if i not in spawn_of and not (shared and i == 1)]
    spawn_at = {pk: child for child, pk in spawn_of.items()}
    real = ilv.REALISATIONS[real_name](root, len(initial), native=native)
    try:
        rcid = {p: i for i, p in enumerate(initial)}       # actor -> realisation handle
        key = {p: p for p in initial}                        # actor -> context (model) key
        models = {p: mroot for p in initial}                 # context key -> model state
        if shared:
            rcid[1] = real.share(rcid[0])
            key[1] = 0
        idx = [0] * len(progs)
        for step, c in enumerate(order):
            k = idx[c]
            op = progs[c][k]
            idx[c] += 1
            kc = key.get(c)
            if op == "spawn":
                child = spawn_at[(c, k)]
                rcid[child] = real.spawn(rcid[c])
                key[child] = child
                models[child] = models[kc]
                r = mr = None
            else:
                if op[:3] in ("tt:", "ex:"):
                    r = real.hop(rcid[c], op[:2], do, w, op[3:], c)
                else:
                    r = real.step(rcid[c], do, w, op, c)
                models[kc], mr = m_do(g, models[kc], op, c)
            if R is not None:
                R.count("transitions")
            if r != mr:
                f = {"step": step, "what": "ret", "ctx": c, "op": op, "got": r, "want": mr}
                if not (tolerated is not None and tolerated(f)):
                    return f
            for j in models:
                ob = real.probe(rcid[j], observe, w)
                want = m_observe(g, models[j], ext)
                if ob != want:
                    return {"step": step, "what": "leak" if j != kc else "own-state", "ctx": j, "op": op,
                            "by": c, "got": ob, "want": want}
            ob = real.probe_root(observe, w)
            want = m_observe(g, mroot, ext)
            if ob != want:
                return {"step": step, "what": "leak-into-parent", "ctx": "root", "op": op, "by": c,
                        "got": ob, "want": want}
        return None
    finally:
        real.close()


def sig_of(real_name, f):
    op = f["op"].split(" ")[0].split("=")[0]
    return f"op:{real_name}:{f['what']}:after-{op}"


def check_program(R, real_name, native, sname, progs, spawn_of, shared=False, ext=False):
    start = STARTS[sname]
    lengths = [len(p) for p in progs]
    known_seen = []

    def tolerated(f):
        rec = {"kind": "op", "failure": f}
        if not _f_none_python_lookup(rec):
            return False
        if not known_seen:      # one record per program is enough
            known_seen.append(1)
            R.violation(sig_of(real_name, f), {
                "kind": "op", "real": real_name, "native": native, "start": sname,
                "progs": [list(p) for p in progs], "spawn_of": {str(k): list(v) for k, v in spawn_of.items()},
                "order": list(order), "shared": shared, "ext": ext, "failure": f})
        return True

    for order in ilv.schedules(lengths, spawn_of):
        f = execute(real_name, native, start, progs, spawn_of, order, R, shared, ext, tolerated)
        R.count("executions")
        R.ev()
        R.count("states", len(order) + 1)
        if f is None:
            continue
        first = (f["step"], f["what"], f["ctx"], f["got"])

        def again():
            f2 = execute(real_name, native, start, progs, spawn_of, order, None, shared, ext)
            return None if f2 is None else (f2["step"], f2["what"], f2["ctx"], f2["got"])

        ilv.confirm(again, first, f"{real_name} schedule {order} of {progs}")
        R.violation(sig_of(real_name, f), {
            "kind": "op", "real": real_name, "native": native, "start": sname, "progs": [list(p) for p in progs],
            "spawn_of": {str(k): list(v) for k, v in spawn_of.items()}, "order": list(order), "shared": shared,
            "ext": ext, "failure": f})
        return   # one report per program: later merge orders of the same program mostly repeat it


def writers(progs):
    return sum(1 for p in progs if any(o not in READ_OPS and o != "spawn" for o in p))


def run_op_unit(unit, R, tier):
    _k, arr, alphabet, k, sname, real_name, shard, nshards = unit
    native_choices = (False, True) if (real_name == "thr" and sname == "empty") else (False,)
    n = 0
    for progs, spawn_of in gen.shard(programs(arr, alphabet, k), nshards, shard):
        for native in native_choices:
            check_program(R, real_name, native, sname, progs, spawn_of, shared=(arr == "SH"),
                          ext=(alphabet in EXT_ALPH or sname == "used2"))
        n += 1
        for p in progs:
            R.use(*("op:" + o for o in p))
        toks = outcome_tokens(STARTS[sname], progs)
        R.use(*toks)
        for tk in toks:
            R.outcome(tk)
        if writers(progs) >= 2:
            R.nontrivial((arr, sname, progs))
        if shard == 0 and n == 3:     # one sample per family (shard 0 of each), not the trivial first program
            R.sample({"level": "op", "real": real_name, "arrangement": arr, "start": STARTS[sname],
                      "programs": [list(p) for p in progs],
                      "merge_orders": ilv.count_schedules([len(p) for p in progs], spawn_of)})
    R.use("real:" + real_name, "arr:" + arr, "start:" + sname)
    if True in native_choices:
        R.use("thr:native")


# ------------------------------------------------------------------ line-level execution

def line_expected(start, progs, spawn_of, ext=False):
    """Contexts are isolated, so every context must see exactly what it would see running alone (a child: alone
    from its parent's state at the spawn)."""
    g = G()
    mroot = M0
    for op in start:
        mroot, _ = m_do(g, mroot, op, "R")
    snap = {}
    exp = {}
    order = [c for c in range(len(progs)) if c not in spawn_of] + sorted(spawn_of)
    spawn_at = {pk: child for child, pk in spawn_of.items()}
    for c in order:
        m = snap[c] if c in spawn_of else mroot
        res_ = []
        for i, op in enumerate(progs[c]):
            if op == "spawn":
                snap[spawn_at[(c, i)]] = m
                res_.append(None)
                continue
            m, r = m_do(g, m, op, c)
            res_.append(r)
        exp[c] = (tuple(res_), m_observe(g, m, ext))
    return tuple(exp[c] for c in range(len(progs))), m_observe(g, mroot, ext)


def line_make(start, progs, spawn_of, ext=False):
    spawn_at = {pk: child for child, pk in spawn_of.items()}

    def make():
        w = World(ext)
        root = contextvars.Context()
        for op in start:
            root.run(do, w, op, "R")
        ctxs = {c: root.copy() for c in range(len(progs)) if c not in spawn_of}
        results = [[] for _ in progs]

        def ops(c):
            for i, op in enumerate(progs[c]):
                if op == "spawn":
                    # what a parent does to start a worker in a snapshot of itself
                    ctxs[spawn_at[(c, i)]] = contextvars.copy_context()
                    results[c].append(None)
                else:
                    results[c].append(ilv.call(do, w, op, c))

        def body(c):
            if c in spawn_of:
                return lambda: ctxs[c].run(ops, c)      # the context exists once the gate has opened
            return lambda: ops(c)

        def obs():
            return (tuple((tuple(results[c]), ctxs[c].run(observe, w) if c in ctxs else "NEVER-SPAWNED")
                          for c in range(len(progs))), root.run(observe, w))

        bodies = [body(c) for c in range(len(progs))]
        wrap = [None if c in spawn_of else ctxs[c].run for c in range(len(progs))]
        gates = [(lambda c=c: c in ctxs) if c in spawn_of else None for c in range(len(progs))]
        return bodies, wrap, obs, gates

    return make


def check_lines(R, sname, progs, bound, spawn_of, ext=False):
    start = STARTS[sname]
    exp = line_expected(start, progs, spawn_of, ext)
    make = line_make(start, progs, spawn_of, ext)
    found = []

    def on_exec(choices, preemptions, obs, trace):
        R.count("executions")
        R.count("line_executions")
        R.ev()
        if preemptions:
            R.use("line:preempted")
        if obs == exp:
            return False
        found.append((choices, preemptions, obs, trace))
        return True

    stats = ilv.explore_lines(make, bound, TARGET, on_exec)
    R.count("transitions", stats["points"])
    R.count("states", stats["points"] + stats["executions"])
    R.count("line_points", stats["points"])
    R.distinct("line_max_points", stats["max_points"])
    if stats["max_points"] >= 6:
        R.use("line:many-points")
    for b, nb in enumerate(stats["per_level"]):
        if nb:
            R.use(f"line:level{b}")
    if found:
        choices, preemptions, obs, trace = found[0]
        ilv.confirm(lambda: ilv.run_lines(make, choices, TARGET)[0], obs, f"line schedule {choices} of {progs}")
        kind = "thread-error" if obs and obs[0] == "THREAD-ERROR" else "isolation"
        R.violation(f"line:{kind}:preemptions={preemptions}", {
            "kind": "line", "start": sname, "progs": [list(p) for p in progs], "choices": choices,
            "spawn_of": {str(k): list(v) for k, v in spawn_of.items()},
            "ext": ext, "preemptions": preemptions, "trace": trace, "got": obs, "want": exp})
    return stats


def run_line_unit(unit, R, tier):
    _k, arr, alphabet, k, sname, bound, shard, nshards = unit
    if {"iter-open", "iter-drain", "mkproxy", "proxy dyn"} & set(ALPH[alphabet]):
        raise core.Broken(f"line family {unit}: ops on process-global harness state are schedule dependent")
    if ("newlist" in STARTS[sname] and {"append", "iadd", "setitem0"} & set(ALPH[alphabet])) or (
            any(o.startswith("pushbox") for o in STARTS[sname]) and any(o.startswith("rebind") for o in ALPH[alphabet])):
        raise core.Broken(f"line family {unit}: a by-value shared list makes results schedule dependent")
    n = 0
    for progs, spawn_of in gen.shard(programs(arr, alphabet, k), nshards, shard):
        st = check_lines(R, sname, progs, bound, spawn_of, ext=(alphabet in EXT_ALPH or sname == "used2"))
        n += 1
        for p in progs:
            R.use(*("lineop:" + o for o in p))
        if writers(progs) >= 2:
            R.nontrivial(("line", arr, sname, progs))
        if shard == 0 and n == 2:
            R.sample({"level": "line", "arrangement": arr, "start": STARTS[sname],
                      "programs": [list(p) for p in progs],
                      "preemption_bound": bound, "executions": st["executions"],
                      "scheduling_decisions": st["points"], "per_level": st["per_level"]})
    R.use("real:line", "start:" + sname, "linearr:" + arr)


# ------------------------------------------------------------------ static facts about the proxy class

def run_static(R):
    """Constructor forms and class-level behaviour that no schedule changes (checked once)."""
    def expect(what, ok, detail=""):
        R.ev()
        R.count("executions")
        R.use("static:" + what)
        if not ok:
            R.violation("static:" + what, {"kind": "static", "what": what, "detail": detail})

    for bad, name in ((Local(), "local-without-name"), (42, "not-proxyable")):
        try:
            LocalProxy(bad)
            expect(name, False, "no TypeError")
        except TypeError:
            expect(name, True)
        except Exception as e:  # noqa: BLE001
            expect(name, False, repr(e))
    # every constructor form is unbound in a fresh context and says so the documented way
    loc, st, cv = Local(), LocalStack(), contextvars.ContextVar("c18.static")
    forms = {"local": loc("a", unbound_message="m1"), "local-ctor": LocalProxy(loc, "a", unbound_message="m1"),
             "stack": st(unbound_message="m1"), "stack-name": st("real", unbound_message="m1"),
             "var": LocalProxy(cv, unbound_message="m1"), "var-name": LocalProxy(cv, "real", unbound_message="m1")}
    for name, p in forms.items():
        got = contextvars.Context().run(rd, p)
        expect("unbound:" + name, got == ("RE", False, FALLBACK_REPR, "m1"), repr(got))
    # bound in one fresh context, still unbound in another one afterwards
    def bind():
        loc.a = 5
        st.push(5)
        cv.set(5)
        return tuple(rd(p) for p in forms.values())
    got = contextvars.Context().run(bind)
    expect("bound-all-forms", got == tuple((5, True, "5") for _ in forms), repr(got))
    got = contextvars.Context().run(lambda: tuple(rd(p)[0] for p in forms.values()))
    expect("unbound-again-elsewhere", got == tuple("RE" for _ in forms), repr(got))
    # wave 6 (seed C18-6b): a var bound to None / 0 is BOUND; a var with a default resolves to the default where
    # it was never set; a child overriding an inherited binding with None; reset through the token
    vd = contextvars.ContextVar("c18.static.default", default=7)
    pd, pdn = LocalProxy(vd), LocalProxy(vd, "real")
    got = contextvars.Context().run(lambda: (rd(pd), rd(pdn)))
    expect("var-default", got == ((7, True, "7"), (7, True, "7")), repr(got))
    vn = contextvars.ContextVar("c18.static.none")
    pn = LocalProxy(vn, unbound_message="m1")

    def none_story():
        out = [rd(pn)]
        vn.set(3)
        out.append(rd(pn))
        child = contextvars.copy_context()
        out.append(child.run(lambda: (vn.set(None), rd(pn))[1]))     # the child overrides the inherited 3 with None
        out.append(rd(pn))                                           # the parent still sees 3
        tok = vn.set(0)
        out.append(rd(pn))
        vn.reset(tok)
        out.append(rd(pn))
        vd.set(None)
        out.append(rd(pd))
        return out
    got = contextvars.Context().run(none_story)
    expect("var-bound-to-None", got[2] == (None, False, "None") and got[3] == (3, True, "3")
           and got[6] == (None, False, "None"), repr(got))
    expect("var-token-reset", got[0] == ("RE", False, FALLBACK_REPR, "m1") and got[4] == (0, False, "0")
           and got[5] == (3, True, "3"), repr(got))
    # accessed on the class a lookup is the descriptor itself, and the class keeps its docstring
    expect("class-level-descriptor", type(LocalProxy.__repr__).__name__ == "_ProxyLookup")
    expect("class-doc", isinstance(LocalProxy.__doc__, str) and "proxy" in LocalProxy.__doc__.lower())
    expect("manager-forms", [len(LocalManager().locals), len(LocalManager(loc).locals),
                             len(LocalManager([loc, st]).locals)] == [0, 1, 2])


# ------------------------------------------------------------------ runner interface

EXEC_US = {"ctx": 60.0, "thr": 560.0, "aio": 90.0, "aiox": 90.0}   # one step (+probes); only used to size shards


def units(tier):
    fam = THOROUGH if tier == "thorough" else QUICK
    per_unit = (12.0 if tier == "thorough" else 1.5) * 1e6     # target micro-seconds of CPU per work unit
    u = []
    for arr, alphabet, k, starts, reals in fam:
        nprog = n_programs(arr, alphabet, k)
        lengths = {"S2": [k, k], "S3": [k, k, k], "SH": [k, k, k], "PC": [k + 1, k]}[arr]
        nsched = ilv.count_schedules(lengths, {1: (0, k // 2)} if arr == "PC" else None)
        for sname in starts:
            for real in reals:
                hopx = 3.0 if (alphabet.startswith("hop") and real in ("thr", "aio")) else 1.0
                hopx *= 1.6 if alphabet in EXT_ALPH else 1.0
                cost = (nprog * nsched * sum(lengths) * EXEC_US[real] * hopx
                        * (2 if (real == "thr" and sname == "empty") else 1))
                ns = max(1, min(nprog, int(cost / per_unit) + 1))
                u.append((cost / ns, [("op", arr, alphabet, k, sname, real, i, ns) for i in range(ns)]))
    for arr, alphabet, k, starts, bound in (LINE_THOROUGH if tier == "thorough" else LINE_QUICK):
        nprog = n_programs(arr, alphabet, k)
        per_prog = (LINE_COST_PC if arr == "PC" else LINE_COST)[k][bound] * 1e6
        for sname in starts:
            cost = nprog * per_prog
            ns = max(1, min(nprog, int(cost / per_unit) + 1))
            u.append((cost / ns, [("line", arr, alphabet, k, sname, bound, i, ns) for i in range(ns)]))
    # heaviest units first so the pool drains evenly; deterministic
    u.sort(key=lambda t: -t[0])
    return [("static",)] + [x for _c, xs in u for x in xs]


def run_unit(unit, R, tier):
    if unit[0] == "op":
        run_op_unit(unit, R, tier)
    elif unit[0] == "line":
        run_line_unit(unit, R, tier)
    elif unit[0] == "static":
        run_static(R)
    else:
        raise core.Broken(f"unknown unit {unit!r}")


def finalize(R, tier):
    fam = THOROUGH if tier == "thorough" else QUICK
    ops = set()
    for _a, al, _k, _s, _r in fam:
        ops |= set(ALPH[al])
    need = {"op:" + o for o in ops} | {"op:spawn"}
    for _a, al, _k, _s, _b in (LINE_THOROUGH if tier == "thorough" else LINE_QUICK):
        need |= {"lineop:" + o for o in ALPH[al]}
    need |= {"lineop:spawn", "linearr:S2", "linearr:PC"}
    need |= {"out:del x:None", "out:del x:AE", "out:pop:val", "out:pop:None", "out:append:None", "out:append:RE",
             "out:proxy x:bound", "out:proxy x:unbound", "out:proxy top:bound", "out:proxy top:unbound",
             "out:proxy cv:bound", "out:proxy dyn:NOPROXY", "out:proxy dyn:bound", "out:proxy dyn:unbound",
             "out:iter:val", "out:release:None", "out:cleanup:None",
             "out:bat x:bound", "out:bat x:unbound", "out:bat top:bound", "out:bat top:unbound",
             "out:bat l:bound", "out:bat l:unbound", "out:iadd:None", "out:iadd:RE", "out:setitem0:None",
             "out:setitem0:IE", "out:setitem0:RE", "out:mwopen:val", "out:mwclose:None", "out:mwclose:NOITER",
             "out:mw:val", "out:cleanup0:None", "out:cleanup1:None", "out:release loc:None", "out:release st:None",
             "out:b.del z:None", "out:b.del z:AE", "out:sb.pop:val", "out:sb.pop:None", "out:a.get z:val",
             "out:a.get z:AE", "out:tt:pop:val", "out:tt:pop:None", "out:tt:set x=2:None", "out:ex:set x=2:None"}
    if tier == "thorough":
        need |= {"out:get x:val", "out:get x:AE", "out:top:val", "out:top:None", "out:proxy cv:unbound",
                 "out:bat cv:bound", "out:bat cv:unbound", "out:tt:append:RE", "out:tt:del x:AE",
                 "out:ex:get x:AE", "out:tt:del x:None", "out:tt:append:None"}
    need |= {"op:cv=N", "static:var-default", "static:var-bound-to-None", "static:var-token-reset"}
    need |= {"op:push N", "out:proxy top:unbound", "out:pop:None"}
    need |= {"op:iter-open", "op:iter-drain", "out:iter-drain:val", "out:iter-drain:NOTOPEN"}
    need |= {"op:pushbox 1", "op:rebind 3", "out:proxy v:bound", "out:proxy v:unbound", "out:rebind 3:None",
             "out:rebind 3:NOBOX", "start:boxed"}
    need |= {"op:push 0", "op:push e", "op:set x=0", "op:cv=0", "out:proxy top:bound-falsy", "out:proxy x:bound-falsy",
             "out:proxy cv:bound-falsy", "start:falsy"}
    need |= {"real:ctx", "real:thr", "real:aio", "real:aiox", "real:line", "thr:native", "arr:S2", "arr:S3",
             "arr:PC", "arr:SH", "start:empty", "start:used", "start:used2", "start:used-nolist", "line:preempted",
             "line:level0", "line:level1", "line:level2", "line:many-points", "static:class-level-descriptor",
             "static:bound-all-forms", "static:local-without-name"}
    missing = need - R.used
    if missing:
        raise core.Broken(f"vacuity: never exercised {sorted(missing)}")
    if R.counts["line_executions"] < 1000:
        raise core.Broken("vacuity: line level barely ran")
    return {
        "bound": "; ".join(f"{a}/{al}/len{k}/{'+'.join(r)}" for a, al, k, _s, r in fam),
        "preemption_bound": 2,
        "exhaustive": True,
        "closed": False,
        "realisations": ["contextvars.Context.run", "threads (semaphore baton)", "asyncio tasks (hand-driven loop)",
                         "asyncio tasks created with explicit context=", "threads, line-level settrace baton"],
        "line_level": {"executions": R.counts["line_executions"], "scheduling_decisions": R.counts["line_points"]},
        "explanation": "every merge order of every program of each family (symmetric actors up to order); line "
                       "level: every schedule with at most the stated number of preemptions",
    }


# ------------------------------------------------------------------ replay

OBS_LEGEND = ("  (observation = attrs, stack, var, then what each proxy resolves to: loc('x'), st(), LocalProxy(var), "
              "loc('l'), st('v'), LocalProxy(loc,'y'), st('real'), LocalProxy(var,'real'), LocalProxy(callable); then the twin "
              "objects over one ContextVar: Local a, Local b, stack a, stack b top, b('z'))")


def replay(rec):
    if rec.get("kind") == "op":
        progs = tuple(tuple(p) for p in rec["progs"])
        spawn_of = {int(k): tuple(v) for k, v in rec["spawn_of"].items()}
        shared = bool(rec.get("shared"))
        f = execute(rec["real"], rec["native"], STARTS[rec["start"]], progs, spawn_of, tuple(rec["order"]),
                    None, shared, bool(rec.get("ext")))
        text = (f"realisation={rec['real']} native_thread_context={rec['native']} actors_0_1_share_a_context={shared}\n"
                f"root prefix : {STARTS[rec['start']]}\nprograms    : {progs} spawn_of={spawn_of}\n"
                f"merge order : {tuple(rec['order'])}\n")
        if f is None:
            return False, text + "no divergence from the model"
        return True, text + (f"after step {f['step']} (context {f.get('by', f['ctx'])} executed {f['op']!r}): "
                             f"{f['what']} in context {f['ctx']}\n  observed: {f['got']}\n  model   : {f['want']}\n"
                             + OBS_LEGEND)
    if rec.get("kind") == "line":
        progs = tuple(tuple(p) for p in rec["progs"])
        spawn_of = {int(k): tuple(v) for k, v in (rec.get("spawn_of") or {}).items()}
        start = STARTS[rec["start"]]
        ext = bool(rec.get("ext"))
        exp = line_expected(start, progs, spawn_of, ext)
        obs, trace, npts = ilv.run_lines(line_make(start, progs, spawn_of, ext), list(rec["choices"]), TARGET)
        text = (f"line-level schedule, root prefix {start}\nprograms : {progs} spawn_of={spawn_of}\n"
                f"choices  : {list(rec['choices'])} "
                f"({rec['preemptions']} preemptions, {npts} decisions)\nthread at each decision: {trace}\n"
                f"observed : {obs}\nisolated : {exp}")
        return _plain(obs) != _plain(exp), text
    if rec.get("kind") == "static":
        R = core.Recorder()
        run_static(R)
        bad = any(s == "static:" + rec["what"] for (_c, s) in R.viol)
        return bad, f"static fact {rec['what']!r}: {'still violated' if bad else 'holds'} ({rec.get('detail')})"
    return True, rec.get("traceback", "unit exception")


def _plain(o):
    if isinstance(o, (list, tuple)):
        return [_plain(x) for x in o]
    return o


_BAT_NAMES = [n for n, _f, _m, _u in INT_BATTERY]


def _f_none_python_lookup(rec):
    """bat x / bat cv on a proxy bound to None: only the lookups implemented with a Python function differ."""
    f = rec.get("failure") or {}
    if rec.get("kind") != "op" or f.get("what") != "ret" or f.get("op") not in ("bat x", "bat cv", "tt:bat x"):
        return False
    got, want = f["got"], f["want"]
    if len(got) != len(_BAT_NAMES) or len(want) != len(_BAT_NAMES):
        return False
    diff = {_BAT_NAMES[i] for i in range(len(got)) if got[i] != want[i]}
    i = _BAT_NAMES.index("str")
    return bool(diff) and diff <= {"copy", "deepcopy"} and want[i] == "None"


FINDINGS: dict = {"C18-none-bound-python-function-lookup": _f_none_python_lookup}

LEVEL_TEXT = (
    "Explicit enumeration of schedules on the real werkzeug.local objects: every merge order of every short "
    "program for 2-3 contexts in three physical realisations of 'execution context' (Context.run, real threads, "
    "asyncio tasks), with the complete observable state of every context compared with a reference model after "
    "every single step, plus every line-granular thread schedule with <=2 preemptions inside werkzeug/local.py. "
    "The unit tests run one lucky schedule with sleeps."
)
LEVEL_NOTE = (
    "Trusted: the reference model (one immutable mapping/tuple/value per context, a by-value heap for lists), "
    "the baton schedulers in mc/ilv.py (every failing schedule is replayed twice and must reproduce), CPython's "
    "contextvars. Bounds: programs <=3 ops per context, <=3 contexts, preemption bound 2; scheduling points are "
    "operations and Python lines, not bytecodes; no free-threaded build."
)
TECHNIQUE = "exhaustive schedule enumeration (op-level merges x 3 realisations) + preemption-bounded line-level scheduling"
DESIGN_REF = "DESIGN.md §4 C18"
