"""C02 - form data survives encode -> parse unchanged (multipart and urlencoded).

E1 (small-scope exhaustive enumeration).

multipart   part lists of length 0..3 (fields, files, fields with an explicit charset) whose names / filenames come
            from a nasty name alphabet (plus every BMP code point in a fixed context; thorough: every plane), whose
            text values are all strings of <=3 atoms over {a, CR, LF, '-', ' ', e-acute, '"', '%'} and whose file
            contents are all byte strings of <=3 atoms over {a, CR, LF, '-', NUL, 0xFF}, both extended with
            near-copies of the delimiter of the boundary in use (prefixes, look-alikes, delimiter text followed by a
            non-blank, trailing partial delimiters), a 40 000-byte and a 600 000-byte content; boundaries of
            length 1, 3 and 40; layering: single parts at full depth, pairs at depth 2, triples at depth 1.
            Every case goes through three pipelines:
              sansio   MultipartEncoder -> MultipartDecoder (event stream; the payload handed to the encoder in one
                       Data event, in two halves, with an empty first chunk, with an empty final chunk)
              parser   test.encode_multipart -> formparser.MultiPartParser
              request  EnvironBuilder(data=...) -> Request.form / Request.files (boundary chosen by the builder,
                       time()/random() owned by the harness)
            Oracle: identity.  sansio: the ordered list of (kind, name, filename, content type, bytes, terminated).
            parser / request: form and files as ordered multi-item lists the way a MultiDict keeps them (keys by
            first occurrence, values per key in order).  Payloads that *contain* a delimiter of the boundary
            (line break, '--', boundary, then '--' or blanks + line break - judged by an independent regex) cannot
            be carried by multipart at all and are skipped.
urlencoded  pair lists of length 0..3 with keys / values = all strings of <=2 (thorough <=3) atoms over
            {a, &, =, +, %, ' ', ;, #, e-acute, U+1D11E, NUL, '%41'}, repeated keys, empty keys and values, through
              urls._urlencode -> FormDataParser (application/x-www-form-urlencoded)
              EnvironBuilder(query_string=mapping) -> Request.args
              EnvironBuilder(data=mapping) -> Request.form   (MultiDict and dict-of-lists input)
            Oracle: identity on the multi-item list.
"""
from __future__ import annotations

import io
import itertools
import os
import re
import shutil
import tempfile

from mc import core, gen

ID = "C02"
LEVEL = "exploration"
RULE = (
    "multipart: all single parts with text values <=3 atoms / byte contents <=3 atoms (thorough 4) + near-delimiters "
    "of the boundary x 3 boundaries x {field, file, charset field}; all (name, filename) pairs of a 20-name alphabet; "
    "every BMP code point (thorough: every scalar value) as name, filename and text value; all pairs of parts at "
    "depth 2 and all triples at depth 1 over every field/file kind combination and repeated / distinct names; each "
    "through 3 pipelines (sans-io with 4 ways of chunking the payload, encode_multipart -> MultiPartParser, "
    "EnvironBuilder -> Request). urlencoded: all single pairs with keys, values <=2 atoms (thorough <=3 x <=2) over "
    "12 atoms, all lists of 2 pairs at depth 1, all lists of 3 pairs over a reduced alphabet, through 3 pipelines "
    "plus 8 further API forms (encoded text as str / bytes body, as query string, inside the path, parse_form_data, "
    "Request.values, test client). api: 734 part lists (thorough: pairs at depth 2) x 18 ways of handing them over "
    "and reading them back (dict / dict of lists, FileStorage, open file, path string, builder.form / files.add_file, "
    "pre-encoded body as bytes / stream / BytesIO with token and quoted boundary, Client.post with and without explicit "
    "content type and across a 307 redirect, parse_form_data with and without stream_factory, parameter_storage_class "
    "MultiDict / dict, Request.values, EnvironBuilder.from_environ), non-str values. foreign: names x filenames x 8 "
    "Content-Disposition styles other clients use (token, RFC 2231 extended utf-8 / latin-1 / with language, "
    "continuations, folded header). long: a 40 000-character text field of 2-, 3- and 4-byte characters with pads "
    "0..3 (every byte offset of a character meets the 64 KiB read) through all pipelines; buf: short non-ASCII "
    "values x MultiPartParser(buffer_size=1..17, 64); streams: the request body arriving through BytesIO / a "
    "read()-only / a readinto() stream delivering <=1, 7, 64 bytes per call, with CONTENT_LENGTH or "
    "wsgi.input_terminated, for every api part list and a urlencoded sub-space. sizes: forms of exactly 999 and "
    "1000 parts with the default limits, and of 1..4 parts with every part limit (decoder, parser, Request, "
    "parse_form_data) set to exactly that number, fields only and with one file. "
    "non-trivial = a case whose payload/name is not plain letters (contains CR, LF, '-', quote, %, non-ASCII, NUL "
    "or a near-delimiter) or that has more than one part."
)
ASSUMPTIONS = [
    "names / filenames never contain the double quote, backslash, CR, LF or the sequence %22 (property domain)",
    "payloads containing a complete delimiter of the boundary in use (also with bare LF / CR as the line break, "
    "which the decoder deliberately accepts) are outside the domain: no multipart encoding can carry them",
    "form / files are compared the way a MultiDict keeps them (order across different keys is not observable)",
    "text values are valid Unicode (no lone surrogates); fields with an explicit charset use only the charsets the "
    "parser documents (utf-8, iso-8859-1, ascii, us-ascii)",
    "a file without an explicit content type comes back as application/octet-stream when its name has no known "
    "extension (what the encoder documents)",
]

import werkzeug.test as wtest  # noqa: E402
from werkzeug.datastructures import FileStorage, Headers, MultiDict  # noqa: E402
from werkzeug.formparser import FormDataParser, MultiPartParser  # noqa: E402
from werkzeug.sansio import multipart as mp  # noqa: E402
from werkzeug.test import EnvironBuilder, encode_multipart  # noqa: E402
from werkzeug.urls import _urlencode  # noqa: E402
from werkzeug.wrappers import Request  # noqa: E402

# ------------------------------------------------------------------ alphabets

BOUNDARIES = ["b", "bnd", "----WebKitFormBoundary7MA4YWxkTrZu0gW-_x"]   # length 1, 3, 40
assert [len(b) for b in BOUNDARIES] == [1, 3, 40]
# what EnvironBuilder's own boundary looks like once the harness owns time() / random()
REQ_SUFFIX = [("1700000000.123", "0.5488135039273248"), ("", "")]


def req_boundary(i: int) -> str:
    t, r = REQ_SUFFIX[i]
    return f"---------------WerkzeugFormPart_{t}{r}"


NAMES = ["a", "é", "n m", "x;y", "'", "=", "名", "a*", "𝄞", "", "%", "%2", "a=b; c", "&", "<>", ",", "a\tb",
         " a ", "a%41", "filename", "a\x00b", "x\x7f", "a:b", "k[]",
         # text that looks like an escape is literal text (only the sequence %22 is outside the domain)
         "%0A", "%0D", "%0a", "%00", "%2F", "%5C", "%25", "%zz", "%C3%A9", "report%0A2024", "%0D%0A", "%20"]
TA = ["a", "\r", "\n", "-", " ", "é", '"', "%"]
BA = [b"a", b"\r", b"\n", b"-", b"\x00", b"\xff"]
CTYPES = [None, "text/plain", "text/plain; charset=iso-8859-1"]
SPLITS = ["whole", "halves", "empty-first", "empty-last", "bytewise"]
BIG = [40_000, 600_000]


def near(boundary: str) -> list[str]:
    b = boundary
    return [
        "x--" + b, "\r\n--" + b[:-1], b + "--", "\r\n--" + b + "X", "\n--" + b + "x", "--" + b + "-",
        "\r\n--" + b[:-1] + "\r\n", "x\r\n--" + b[:-1], "x\r\n-", "x\r", "\r\n", "--", "--" + b + "x",
        "x\r\n--" + b + "-", "\r--" + b + ".", "x\r\n--", "\r\n--" + b + " x", "--" + b[:-1],
        # the bare boundary / delimiter text, which is ill-formed when it is a whole line (filtered)
        "--" + b, "\r\n--" + b + "\r\n", "\r\n--" + b + "--", "x\n--" + b + " \t\n",
    ]


def carriable(payload: bytes, boundary: bytes) -> bool:
    """Independent statement of the domain: reading header-line-break + payload + the real delimiter left to
    right, the first delimiter is the real one."""
    probe = b"\n" + payload
    full = probe + b"\r\n--" + boundary + b"--\r\n"
    rx = re.compile(rb"(?:\r\n|\n|\r)--" + re.escape(boundary) + rb"(--|[ \t\f\v]*(?:\r\n|\n|\r))")
    m = rx.search(full)
    return m is not None and m.start() == len(probe)


def as_bytes(kind, payload, ctype) -> bytes:
    if kind == "file":
        return payload
    if kind == "cfield":
        return payload.encode(ctype.split("charset=")[1].strip('"'))
    return (payload if isinstance(payload, str) else str(payload)).encode("utf-8")


# ------------------------------------------------------------------ pipelines
# part = (kind, name, filename, ctype, payload)   kind: field (str payload) | file (bytes) | cfield (str, charset)


def run_sansio(parts, boundary: str, split: str):
    """Returns (got, body).  got = list of (kind, name, filename, ctype, bytes, terminated) or ('EXC', text)."""
    b = boundary.encode()
    enc = mp.MultipartEncoder(b)
    out = [enc.send_event(mp.Preamble(data=b""))]
    for kind, name, filename, ctype, payload in parts:
        h = Headers()
        if ctype is not None:
            h.add("Content-Type", ctype)
        if kind == "file":
            out.append(enc.send_event(mp.File(name=name, filename=filename, headers=h)))
        else:
            out.append(enc.send_event(mp.Field(name=name, headers=h)))
        data = as_bytes(kind, payload, ctype)
        if split in ("whole", "bytewise"):
            chunks = [(data, False)]
        elif split == "halves":
            k = len(data) // 2
            chunks = [(data[:k], True), (data[k:], False)] if k else [(data, False)]
        elif split == "empty-first":
            chunks = [(b"", True), (data, False)]
        else:
            chunks = [(data, True), (b"", False)]
        for c, more in chunks:
            out.append(enc.send_event(mp.Data(data=c, more_data=more)))
    out.append(enc.send_event(mp.Epilogue(data=b"")))
    body = b"".join(out)
    dec = mp.MultipartDecoder(b)
    # "bytewise": the encoded body reaches the decoder one byte per receive_data() call (only for
    # bodies of moderate size) - parsing a form incrementally is still parsing it
    if split == "bytewise" and len(body) <= 600:
        feed = [body[i : i + 1] for i in range(len(body))] + [None]
    else:
        feed = [body, None]
    feed.reverse()
    dec.receive_data(feed.pop())
    got: list = []
    cur = None
    try:
        while True:
            ev = dec.next_event()
            if isinstance(ev, mp.NeedData):
                if not feed:
                    got.append(["EXC", "decoder still needs data after the end of input", None, None, b"", False])
                    break
                dec.receive_data(feed.pop())
                continue
            if isinstance(ev, mp.Epilogue):
                break
            if isinstance(ev, mp.Preamble):
                continue
            if isinstance(ev, mp.File):
                cur = ["file", ev.name, ev.filename, ev.headers.get("content-type"), b"", False]
                got.append(cur)
            elif isinstance(ev, mp.Field):
                cur = ["field", ev.name, None, ev.headers.get("content-type"), b"", False]
                got.append(cur)
            elif isinstance(ev, mp.Data):
                if cur is None or cur[5]:
                    got.append(["stray-data", None, None, None, ev.data, not ev.more_data])
                else:
                    cur[4] += ev.data
                    cur[5] = not ev.more_data
            else:
                got.append(["unexpected-event", repr(ev), None, None, b"", False])
                break
    except Exception as e:  # noqa: BLE001
        got.append(["EXC", f"{type(e).__name__}: {e}", None, None, b"", False])
    return [tuple(g) for g in got], body


def expect_sansio(parts):
    out = []
    for kind, name, filename, ctype, payload in parts:
        out.append(("file" if kind == "file" else "field", name, filename if kind == "file" else None, ctype,
                    as_bytes(kind, payload, ctype), True))
    return out


def grouped(items):
    d: dict = {}
    for it in items:
        d.setdefault(it[0], []).append(it)
    return [it for its in d.values() for it in its]


def expect_form(parts, pipeline: str):
    """The harness hands the parts over as a MultiDict (the only mapping that can repeat a key), so the encoders
    see them grouped by name.  EnvironBuilder additionally keeps plain values in .form and everything file-like
    (files and charset fields) in .files and encodes form first."""
    seq = grouped([(p[1], p) for p in parts])
    seq = [p for _n, p in seq]
    if pipeline == "request":
        seq = [p for p in seq if p[0] == "field"] + [p for p in seq if p[0] != "field"]
    fields = [(name, payload if isinstance(payload, str) else str(payload))
              for kind, name, _f, _c, payload in seq if kind != "file"]
    files = [(name, filename, ctype or "application/octet-stream", payload)
             for kind, name, filename, ctype, payload in seq if kind == "file"]
    return grouped(fields), grouped(files)


def as_lists(items):
    d: dict = {}
    for it in items:
        d.setdefault(it[0], []).append(it)
    return d


def same_form(parts, exp, got) -> bool:
    if got == exp:
        return True
    if not (isinstance(got, tuple) and len(got) == 2 and isinstance(got[0], list)):
        return False
    # order across *different* keys is only defined when the input did not mix kinds under one name and has no
    # file-like field; otherwise compare per key
    kinds: dict = {}
    for p in parts:
        kinds.setdefault(p[1], set()).add(p[0])
    if any(p[0] == "cfield" for p in parts) or any(len(k) > 1 for k in kinds.values()):
        return as_lists(got[0]) == as_lists(exp[0]) and as_lists(got[1]) == as_lists(exp[1])
    return False


def to_values(parts, tuples: bool):
    """The (key, value) list a user hands to encode_multipart / EnvironBuilder."""
    vals = []
    for kind, name, filename, ctype, payload in parts:
        if kind == "field":
            vals.append((name, payload))
        elif kind == "cfield":
            vals.append((name, FileStorage(io.BytesIO(as_bytes(kind, payload, ctype)), filename=None, name=name,
                                           content_type=ctype)))
        elif tuples:
            vals.append((name, (io.BytesIO(payload), filename) if ctype is None else (io.BytesIO(payload), filename, ctype)))
        else:
            vals.append((name, FileStorage(io.BytesIO(payload), filename=filename, name=name, content_type=ctype)))
    return vals


def read_files(files):
    out = []
    for k, f in files.items(multi=True):
        try:
            out.append((k, f.filename, f.content_type, f.stream.read()))
        finally:
            f.close()
    return out


def run_parser(parts, boundary: str):
    try:
        _b, body = encode_multipart(MultiDict(to_values(parts, False)), boundary=boundary)
        form, files = MultiPartParser().parse(io.BytesIO(body), boundary.encode(), len(body))
        return (list(form.items(multi=True)), read_files(files)), body
    except Exception as e:  # noqa: BLE001
        return ("EXC", f"{type(e).__name__}: {e}"), b""


def run_request(parts, req_b: int):
    t, r = REQ_SUFFIX[req_b]
    old = wtest.time, wtest.random
    wtest.time, wtest.random = (lambda: t), (lambda: r)
    builder = None
    try:
        kw = {}
        if not any(p[0] != "field" for p in parts):
            kw["content_type"] = "multipart/form-data"
        builder = EnvironBuilder(method="POST", data=MultiDict(to_values(parts, True)), **kw)
        env = builder.get_environ()
        if parts and req_boundary(req_b) not in env.get("CONTENT_TYPE", ""):
            return ("EXC", "harness: builder did not use the owned boundary: " + env.get("CONTENT_TYPE", "")), b""
        req = Request(env)
        try:
            return (list(req.form.items(multi=True)), read_files(req.files)), b""
        finally:
            req.close()
    except Exception as e:  # noqa: BLE001
        return ("EXC", f"{type(e).__name__}: {e}"), b""
    finally:
        wtest.time, wtest.random = old
        if builder is not None:
            builder.close()


def diff_sig(exp, got) -> str:
    if got and isinstance(got, tuple) and got[0] == "EXC":
        return "exception"
    if isinstance(got, list) and any(g[0] == "EXC" for g in got):
        return "exception"
    if isinstance(exp, tuple):      # (fields, files)
        if exp[0] != got[0]:
            return "fields-differ" if len(exp[0]) == len(got[0]) else "field-count"
        return "files-differ" if len(exp[1]) == len(got[1]) else "file-count"
    if len(exp) != len(got):
        return "part-count"
    for e, g in zip(exp, got):
        if e[:3] != g[:3]:
            return "part-head"
        if e[3] != g[3]:
            return "content-type"
        if e[4] != g[4]:
            return "payload"
    return "not-terminated"


def check_multipart(parts, bsel: int, pipelines=("sansio", "parser", "request")):
    """bsel selects BOUNDARIES[bsel] for sansio / parser and REQ_SUFFIX[bsel % 2] for request.
    Returns (fails, applicable) - fails = [(sig, detail_dict)]."""
    fails = []
    ran = 0
    boundary = BOUNDARIES[bsel]
    ok_b = all(carriable(as_bytes(k, p, c), boundary.encode()) for k, _n, _f, c, p in parts)
    rb = bsel % len(REQ_SUFFIX)
    ok_r = all(carriable(as_bytes(k, p, c), req_boundary(rb).encode()) for k, _n, _f, c, p in parts)
    if "sansio" in pipelines and ok_b:
        exp = expect_sansio(parts)
        bad = []
        for split in SPLITS:
            ran += 1
            got, body = run_sansio(parts, boundary, split)
            if got != exp:
                bad.append((split, got, body))
        for split, got, body in bad:
            fails.append(("sansio:" + diff_sig(exp, got),
                          {"pipeline": "sansio", "split": split, "failing_splits": [b[0] for b in bad],
                           "expected": exp, "got": got, "body": body[:400]}))
    if "parser" in pipelines and ok_b:
        ran += 1
        exp = expect_form(parts, "parser")
        got, body = run_parser(parts, boundary)
        if not same_form(parts, exp, got):
            fails.append(("parser:" + diff_sig(exp, got),
                          {"pipeline": "parser", "expected": exp, "got": got, "body": body[:400]}))
    if "request" in pipelines and ok_r:
        ran += 1
        exp = expect_form(parts, "request")
        got, _ = run_request(parts, rb)
        if not same_form(parts, exp, got):
            fails.append(("request:" + diff_sig(exp, got), {"pipeline": "request", "expected": exp, "got": got}))
    return fails, ran


# ------------------------------------------------------------------ multipart space


def fld(name, v):
    return ("field", name, None, None, v)


def fil(name, filename, data, ctype="application/octet-stream"):
    return ("file", name, filename, ctype, data)


def text_values(boundary: str, depth: int):
    seen = set()
    for v in itertools.chain(gen.strings(TA, depth), near(boundary)):
        if v not in seen:
            seen.add(v)
            yield v


def byte_values(boundary: str, depth: int):
    seen = set()
    for v in itertools.chain(gen.bstrings(BA, depth), (n.encode() for n in near(boundary))):
        if v not in seen:
            seen.add(v)
            yield v


def mp_cases(tier):
    """Yield (family, parts, bsel, pipelines|None)."""
    T = tier == "thorough"
    d1 = 4 if T else 3
    # S: single parts at full depth, every boundary
    for bsel, b in enumerate(BOUNDARIES):
        rb = req_boundary(bsel % 2)
        for v in itertools.chain(text_values(b, d1), near(rb)):
            for name in ("a", "é 名"):
                yield ("S-field", (fld(name, v),), bsel, None)
        for v in itertools.chain(byte_values(b, d1), (n.encode() for n in near(rb))):
            yield ("S-file", (fil("f", "f.bin", v),), bsel, None)
        for v in byte_values(b, 2):
            for ct in CTYPES:
                yield ("S-file-ct", (("file", "f", "noext", ct, v),), bsel, None)
        yield ("S-file-ct", (("file", "f", "f.txt", "text/plain", b"x"),), bsel, None)
    # Z: no part at all / empty values
    for bsel in range(3):
        yield ("Z", (), bsel, None)
    # N: names and filenames
    for n1 in NAMES:
        yield ("N", (fld(n1, "v"), fld(n1, "w")), 1, None)
        for n2 in NAMES:
            yield ("N", (fil(n1, n2, b"d"), fld(n2, "v")), 1, None)
    # C: fields that carry their own charset
    for cs in ("utf-8", "iso-8859-1", "ascii", "us-ascii", "UTF-8", "ISO-8859-1"):
        for v in gen.strings(["a", "é", "ÿ", "¤", "\r", "€", "\n", " "], 3 if T else 2):
            try:
                v.encode(cs)
            except UnicodeEncodeError:
                continue
            yield ("C", (("cfield", "t", None, f"text/plain; charset={cs}", v), fld("u", v)), 1, None)
            if cs in ("utf-8", "iso-8859-1"):   # other spellings of the parameter
                yield ("C", (("cfield", "t", None, f"text/plain;charset={cs}", v),), 1, None)
                yield ("C", (("cfield", "t", None, f'text/plain; format=flowed; charset="{cs}"', v),), 1, None)
    # P: pairs at depth 2
    t2 = list(gen.strings(TA, 2))
    b2 = list(gen.bstrings(BA, 2))
    for n1, n2 in (("a", "a"), ("a", "é")):
        for v1 in t2:
            for v2 in t2:
                yield ("P-ff", (fld(n1, v1), fld(n2, v2)), 1, None)
            for d in b2:
                yield ("P-fF", (fld(n1, v1), fil(n2, "x y", d)), 1, None)
                yield ("P-Ff", (fil(n2, "x y", d), fld(n1, v1)), 1, None)
        for da in b2:
            for db in b2:
                yield ("P-FF", (fil(n1, "1", da), fil(n2, "2", db, "text/plain")), 1, None)
    # P3: a depth-3 text value followed by a depth-2 one under the same name
    for v1 in gen.strings(TA, 3, 3):
        for v2 in t2:
            yield ("P3", (fld("a", v1), fld("a", v2)), 1, None)
    # T: triples at depth 1
    t1 = list(gen.strings(TA, 1))
    b1 = list(gen.bstrings(BA, 1))
    for kinds in itertools.product("fF", repeat=3):
        for names in (("a", "a", "a"), ("a", "b", "a"), ("a", "b", "é")):
            spaces = [t1 if k == "f" else b1 for k in kinds]
            for vals in itertools.product(*spaces):
                parts = tuple(fld(n, v) if k == "f" else fil(n, "f" + str(i), v)
                              for i, (k, n, v) in enumerate(zip(kinds, names, vals)))
                yield ("T", parts, (0, 1, 2)[len(vals[0]) % 3], None)
    if T:
        for v1 in t2:
            for v2 in t2:
                for v3 in t2:
                    yield ("T2", (fld("a", v1), fld("a", v2), fld("b", v3)), 1, None)


def big_cases():
    for n in BIG:
        data = (b"0123456789abcdef\r\n--bn" * (n // 22 + 1))[:n]
        for bsel in (1, 2):
            yield ("BIG", (fld("a", "x"), fil("f", "big.bin", data), fld("z", "y")), bsel, None)


def sweep_check(cp: int):
    """One code point in three fixed contexts; returns fails."""
    c = chr(cp)
    fails = []
    ran = 0
    if c not in '"\\\r\n':
        parts = (fil("a" + c + "b", c + ".x", b"d"), fld(c, "v"))
        f, n = check_multipart(parts, 1, ("sansio",))
        fails += f
        ran += n
    parts = (fld("t", "a" + c + "b"), fld("t", c))
    f, n = check_multipart(parts, 1, ("parser",))
    ran += n
    return fails + f, ran



# ------------------------------------------------------------------ fragmenting input streams
# Requests arrive over streams that deliver what they have: at most k bytes per read.


class ShortRead:
    """wsgi.input that only has read(); read(n) returns at most k bytes, read() everything that is left."""

    def __init__(self, data: bytes, k: int):
        self.data, self.k, self.pos = data, k, 0

    def read(self, size=-1):
        left = len(self.data) - self.pos
        n = left if size is None or size < 0 else min(size, self.k, left)
        out = self.data[self.pos : self.pos + n]
        self.pos += n
        return out


class ShortReadInto(io.RawIOBase):
    """Raw stream with readinto(); every readinto delivers at most k bytes."""

    def __init__(self, data: bytes, k: int):
        self.data, self.k, self.pos = data, k, 0

    def readable(self):
        return True

    def readinto(self, b):
        n = min(len(b), self.k, len(self.data) - self.pos)
        b[:n] = self.data[self.pos : self.pos + n]
        self.pos += n
        return n


STREAM_CONFIGS = [("bytesio", 0, "terminated")] + [
    (cls, k, mode) for cls in ("read", "readinto") for k in (1, 7, 64) for mode in ("length", "terminated")
]


def stream_label(cfg) -> str:
    return "stream:%s:%d:%s" % cfg


def fragment_input(env, cfg):
    """Replace wsgi.input of a built environ by a fragmenting stream over the same body."""
    cls, k, mode = cfg
    body = env["wsgi.input"].read()
    env["wsgi.input"] = io.BytesIO(body) if cls == "bytesio" else (ShortRead if cls == "read" else ShortReadInto)(body, k)
    if mode == "terminated":
        env.pop("CONTENT_LENGTH", None)
        env["wsgi.input_terminated"] = True
    return env


# ------------------------------------------------------------------ API forms
# The same part list handed over / read back through every documented way of doing it.

API_VARIANTS = [
    "dict", "ct-with-boundary", "filestorage", "openfile", "pathstr", "attrs", "body-bytes-token", "body-bytes-quoted", "body-stream",
    "body-bytesio-data", "client", "client-ct", "client-307", "parse_form_data", "cls-multidict", "cls-dict",
    "values", "from_environ", "stream_factory",
] + [stream_label(c) for c in STREAM_CONFIGS]


class _owned_boundary:
    def __init__(self, i=0):
        self.i = i

    def __enter__(self):
        t, r = REQ_SUFFIX[self.i]
        self.old = wtest.time, wtest.random
        wtest.time, wtest.random = (lambda: t), (lambda: r)

    def __exit__(self, *a):
        wtest.time, wtest.random = self.old
        return False


def _read_request(req):
    try:
        return list(req.form.items(multi=True)), read_files(req.files)
    finally:
        req.close()


def _dict_of_lists(vals):
    d: dict = {}
    for k, v in vals:
        d.setdefault(k, []).append(v)
    return {k: (v[0] if len(v) == 1 else v) for k, v in d.items()}


def run_api(variant: str, parts, tmpdir: str):
    """Returns got = (fields, files) | ('EXC', text) | ('SKIP', why); plus the parts as the variant is expected to
    return them (file names may be replaced by the on-disk path)."""
    from werkzeug.formparser import parse_form_data
    from werkzeug.test import Client

    exp_parts = parts
    has_file = any(p[0] == "file" for p in parts)
    builders = []
    opened = []
    try:
        with _owned_boundary(0):
            force = {} if has_file else {"content_type": "multipart/form-data"}
            if variant == "dict":
                b = EnvironBuilder(method="POST", data=_dict_of_lists(to_values(parts, True)), **force)
            elif variant == "ct-with-boundary":
                # an explicit multipart content type that already names a boundary: the builder picks its own
                b = EnvironBuilder(method="POST", data=MultiDict(to_values(parts, True)),
                                   content_type="multipart/form-data; boundary=chosen-by-the-caller")
            elif variant == "filestorage":
                b = EnvironBuilder(method="POST", data=MultiDict(to_values(parts, False)), **force)
            elif variant in ("openfile", "pathstr"):
                if not has_file:
                    return ("SKIP", "no file"), parts
                vals, exp_parts = [], []
                for i, (kind, name, filename, ctype, payload) in enumerate(parts):
                    if kind != "file":
                        vals.append((name, payload))
                        exp_parts.append((kind, name, filename, ctype, payload))
                        continue
                    path = os.path.join(tmpdir, "u%d" % i)
                    with open(path, "wb") as f:
                        f.write(payload)
                    exp_parts.append((kind, name, path, None, payload))
                    vals.append((name, path))
                b = EnvironBuilder(method="POST")
                for name, v in vals:
                    if isinstance(v, str) and v.startswith(tmpdir) and variant == "pathstr":
                        b.files.add_file(name, v)
                    elif isinstance(v, str) and v.startswith(tmpdir):
                        fh = open(v, "rb")
                        opened.append(fh)
                        b.files.add_file(name, fh)
                    else:
                        b.form.add(name, v)
                exp_parts = tuple(exp_parts)
            elif variant == "attrs":
                b = EnvironBuilder(method="POST", **force)
                for kind, name, filename, ctype, payload in parts:
                    if kind == "field":
                        b.form.add(name, payload)
                    elif kind == "cfield":
                        b.files.add_file(name, FileStorage(io.BytesIO(as_bytes(kind, payload, ctype)), filename=None,
                                                           name=name, content_type=ctype))
                    else:
                        b.files.add_file(name, io.BytesIO(payload), filename=filename, content_type=ctype)
            elif variant.startswith("body-"):
                boundary = BOUNDARIES[1] if "quoted" not in variant else BOUNDARIES[2]
                if not all(carriable(as_bytes(k, pl, c), boundary.encode()) for k, _n, _f, c, pl in parts):
                    return ("SKIP", "uncarriable"), parts
                _b, body = encode_multipart(MultiDict(to_values(parts, False)), boundary=boundary)
                ct = (f'multipart/form-data; boundary="{boundary}"' if "quoted" in variant
                      else f"multipart/form-data; boundary={boundary}")
                if variant == "body-stream":
                    b = EnvironBuilder(method="POST", input_stream=io.BytesIO(body), content_type=ct)
                elif variant == "body-bytesio-data":
                    b = EnvironBuilder(method="POST", data=io.BytesIO(body) if body else b"", content_type=ct)
                else:
                    b = EnvironBuilder(method="POST", data=body, content_type=ct)
            elif variant in ("client", "client-ct", "client-307"):
                seen = []

                def app(environ, start_response):
                    if variant == "client-307" and environ["PATH_INFO"] == "/first":
                        start_response("307 TEMPORARY REDIRECT", [("Location", "/second"), ("Content-Length", "0")])
                        return [b""]
                    seen.append(_read_request(Request(environ)))
                    start_response("200 OK", [("Content-Type", "text/plain")])
                    return [b"ok"]

                kw = dict(force)
                if variant == "client-ct":
                    kw["content_type"] = "multipart/form-data"
                c = Client(app)
                resp = c.post("/first", data=MultiDict(to_values(parts, True)),
                              follow_redirects=variant == "client-307", **kw)
                resp.close()
                if len(seen) != 1:
                    return ("EXC", f"app was reached {len(seen)} times"), parts
                return seen[0], parts
            else:
                b = EnvironBuilder(method="POST", data=MultiDict(to_values(parts, True)), **force)
            builders.append(b)
            env = b.get_environ()
        if variant.startswith("stream:"):
            cfg = STREAM_CONFIGS[[stream_label(c) for c in STREAM_CONFIGS].index(variant)]
            return _read_request(Request(fragment_input(env, cfg))), exp_parts
        if variant == "parse_form_data":
            stream, form, files = parse_form_data(env)
            return (list(form.items(multi=True)), read_files(files)), exp_parts
        if variant == "stream_factory":
            made = []

            def factory(total_content_length, content_type, filename, content_length=None):
                made.append((filename, content_type))
                return io.BytesIO()

            stream, form, files = parse_form_data(env, stream_factory=factory)
            got = (list(form.items(multi=True)), read_files(files))
            if len(made) != len(got[1]):
                return ("EXC", f"stream factory called {len(made)} times for {len(got[1])} files"), exp_parts
            return got, exp_parts
        if variant in ("cls-multidict", "cls-dict"):
            cls = MultiDict if variant == "cls-multidict" else dict

            class R2(Request):
                parameter_storage_class = cls

            req = R2(env)
            try:
                if cls is dict:
                    return (sorted(req.form.items()), sorted((k, f.filename) for k, f in req.files.items())), exp_parts
                return (list(req.form.items(multi=True)), read_files(req.files)), exp_parts
            finally:
                req.close()
        if variant == "values":
            env["QUERY_STRING"] = "q=1&a=from-args"
            req = Request(env)
            try:
                vals = req.values
                keys = list(dict.fromkeys(["q", "a"] + [k for k in req.form]))
                return ([(k, v) for k in keys for v in vals.getlist(k)], read_files(req.files)), exp_parts
            finally:
                req.close()
        if variant == "from_environ":
            b2 = EnvironBuilder.from_environ(env)
            builders.append(b2)
            return _read_request(b2.get_request(Request)), exp_parts
        return _read_request(Request(env)), exp_parts
    except Exception as e:  # noqa: BLE001
        return ("EXC", f"{type(e).__name__}: {e}"), exp_parts
    finally:
        for b in builders:
            b.close()
        for fh in opened:
            try:
                fh.close()
            except Exception:  # noqa: BLE001
                pass


def expect_api(variant: str, parts):
    model = "parser" if variant.startswith("body-") else "request"
    fields, files = expect_form(parts, model)
    if variant == "cls-dict":
        return sorted(dict(fields).items()), sorted(dict((k, fn) for k, fn, _c, _d in files).items())
    if variant == "values":
        keys = list(dict.fromkeys(["q", "a"] + [k for k, _ in fields]))
        args = {"q": ["1"], "a": ["from-args"]}
        fl = as_lists(fields)
        return [(k, v) for k in keys for v in args.get(k, []) + [x[1] for x in fl.get(k, [])]], files
    return fields, files


def check_api(parts, tmpdir: str, variants=API_VARIANTS):
    fails = []
    ran = 0
    if not all(carriable(as_bytes(k, p, c), req_boundary(0).encode()) for k, _n, _f, c, p in parts):
        return fails, ran
    for variant in variants:
        got, eparts = run_api(variant, parts, tmpdir)
        if got and got[0] == "SKIP":
            continue
        ran += 1
        exp = expect_api(variant, eparts)
        ok = got == exp or (variant not in ("cls-dict", "values") and same_form(eparts, exp, got))
        if not ok and variant in ("openfile", "pathstr"):
            # a file handed over by path only: its full path (today) or its base name are both "the same file name"
            alt = tuple((k, n, os.path.basename(f) if k == "file" else f, c, pl) for k, n, f, c, pl in eparts)
            exp2 = expect_api(variant, alt)
            ok = got == exp2 or same_form(alt, exp2, got)
        if not ok and variant == "values" and isinstance(got, tuple) and len(got) == 2 and isinstance(got[0], list):
            # the order in which args and form contribute to .values is not part of the property
            ok = sorted(got[0]) == sorted(exp[0]) and got[1] == exp[1]
        if not ok:
            fails.append((f"api:{variant}:" + diff_sig(exp, got) if variant not in ("cls-dict", "values")
                          else f"api:{variant}:" + ("exception" if got and got[0] == "EXC" else "differs"),
                          {"pipeline": "api", "variant": variant, "expected": exp, "got": got}))
    return fails, ran


def api_cases(tier):
    T = tier == "thorough"
    t1 = list(gen.strings(TA, 1)) + near("bnd")[:8] + near(req_boundary(0))[:6]
    b1 = list(gen.bstrings(BA, 1)) + [n.encode() for n in near("bnd")[:6]]
    for v in t1:
        yield (fld("a", v),)
    for d in b1:
        for ct in CTYPES:
            yield (("file", "f", "noext", ct, d),)
    yield ()
    for n in NAMES:
        yield (fld(n, "v"), fil(n, n or "x", b"d"))
    # non-string values are sent as str(value)
    for v in (0, 5, -1, 1.5, True):
        yield (("field", "n", None, None, v), fld("a", "x"))
    tt = list(gen.strings(TA, 2 if T else 1))
    bb = list(gen.bstrings(BA, 2 if T else 1))
    for n1, n2 in (("a", "a"), ("a", "é")):
        for v1 in tt:
            for v2 in tt:
                yield (fld(n1, v1), fld(n2, v2))
            for d in bb:
                yield (fld(n1, v1), fil(n2, "x y", d))
                yield (fil(n2, "x y", d, "text/plain"), fld(n1, v1))
        for da in bb:
            for db in bb:
                yield (fil(n1, "1", da), fil(n2, "2", db, "text/plain"))
    small_t, small_b = ["", "a", "\r\n", "é"], [b"", b"a", b"\r", b"\xff"]
    for v1 in small_t:
        for d in small_b:
            for v3 in small_t:
                yield (fld("a", v1), fil("b", "f1", d), fld("a", v3))
                yield (fil("a", "f0", d), fld("b", v1), fil("a", "f2", d + b"-"))
    for cs in ("utf-8", "iso-8859-1"):
        yield (("cfield", "t", None, f"text/plain; charset={cs}", "é\r\nÿ"), fld("u", "é"))


API_QUICK_EXTRA = ["dict", "client", "client-307", "parse_form_data", "from_environ", "values", "cls-dict",
                   "body-stream"] + [stream_label(c) for c in STREAM_CONFIGS]


def api_extra_cases():
    t2 = list(gen.strings(TA, 2))
    for v1 in t2:
        for v2 in t2:
            if len(v1) + len(v2) > 2:          # the shorter ones are in api_cases already
                yield (fld("a", v1), fld("a", v2))


# ------------------------------------------------------------------ foreign encoders (RFC 2231 parameters)
# Bodies written the way other clients write them; the suite pins these forms in test_http / test_formparser.

F_NAMES = ["a", "é", "n m", "名", "a;b", "x'y", "%", "a*", "𝄞", "a=b", "é.txt", "a%41", "ab cd", "x%0Ay"]
F_STYLES = ["plain", "token", "ext-utf8", "ext-UTF-8-lang", "ext-latin1", "cont", "cont-ext", "folded"]


def _pct(s: str, enc: str) -> str:
    from urllib.parse import quote

    return quote(s.encode(enc), safe="")


def foreign_param(key: str, value: str, style: str):
    """One Content-Disposition parameter in the given style, or None if the style cannot carry the value."""
    if style == "plain" or style == "folded":
        return f'{key}="{value}"'
    if style == "token":
        return f"{key}={value}" if re.fullmatch(r"[A-Za-z0-9!#$&+\-.^_`|~]+", value) else None
    if style == "ext-utf8":
        return f"{key}*=utf-8''{_pct(value, 'utf-8')}" if value else None
    if style == "ext-UTF-8-lang":
        return f"{key}*=UTF-8'en'{_pct(value, 'utf-8')}" if value else None
    if style == "ext-latin1":
        try:
            return f"{key}*=iso-8859-1''{_pct(value, 'iso-8859-1')}" if value else None
        except UnicodeEncodeError:
            return None
    if len(value) < 2:
        return None
    k = len(value) // 2
    if style == "cont":
        return f'{key}*0="{value[:k]}"; {key}*1="{value[k:]}"'
    return f"{key}*0*=UTF-8''{_pct(value[:k], 'utf-8')}; {key}*1*={_pct(value[k:], 'utf-8')}"


def foreign_cases():
    for style in F_STYLES:
        for n in F_NAMES:
            for fn in F_NAMES[:8]:
                yield (style, n, fn)


def check_foreign(style: str, name: str, filename: str):
    pn, pf = foreign_param("name", name, style), foreign_param("filename", filename, style)
    if pn is None or pf is None:
        return [], 0
    sep = ";\r\n\t" if style == "folded" else "; "
    body = (
        f"--bnd\r\nContent-Disposition: form-data{sep}{pn}{sep}{pf}\r\nContent-Type: text/plain\r\n\r\nDATA\r\n"
        f"--bnd\r\nContent-Disposition: form-data{sep}{pn}\r\n\r\nvalue\r\n--bnd--\r\n"
    ).encode("utf-8")
    exp = ([(name, "value")], [(name, filename, "text/plain", b"DATA")])
    try:
        form, files = MultiPartParser().parse(io.BytesIO(body), b"bnd", len(body))
        got = (list(form.items(multi=True)), read_files(files))
    except Exception as e:  # noqa: BLE001
        got = ("EXC", f"{type(e).__name__}: {e}")
    if got != exp:
        return [("foreign:" + style + ":" + diff_sig(exp, got),
                 {"pipeline": "foreign", "expected": exp, "got": got, "body": body[:300]})], 1
    return [], 1


# ------------------------------------------------------------------ urlencoded

UA = ["a", "&", "=", "+", "%", " ", ";", "#", "é", "𝄞", "\0", "%41"]


def ue_cases(tier):
    T = tier == "thorough"
    s1 = list(gen.strings(UA, 1))
    s2 = list(gen.strings(UA, 2))
    yield ()
    for k in s2:
        for v in s2:
            yield ((k, v),)
    if T:
        s3 = list(gen.strings(UA, 3, 3))
        for k in s3:
            for v in s2:
                yield ((k, v),)
                yield ((v, k),)
    p1 = list(itertools.product(s1, repeat=2))
    for a in p1:
        for b in p1:
            yield (a, b)
    small = list(itertools.product(["a", "", "&", "é"], ["", "1", "=", "+ ", "é"] if not T else s1))
    for a in small:
        for b in small:
            for c in small:
                yield (a, b, c)


def check_ue(pairs, forms=True):
    fails = []
    pairs = list(pairs)
    exp = grouped(pairs)
    # 1 _urlencode -> FormDataParser
    try:
        s = _urlencode(pairs)
        raw = s.encode("ascii")
        _st, form, _files = FormDataParser(silent=False).parse(
            io.BytesIO(raw), "application/x-www-form-urlencoded", len(raw), {})
        got = list(form.items(multi=True))
    except Exception as e:  # noqa: BLE001
        got, s = ("EXC", f"{type(e).__name__}: {e}"), None
    if got != exp:
        fails.append(("urlencoded:formparser:" + ("exception" if got and got[0] == "EXC" else "differs"),
                      {"pipeline": "formparser", "expected": exp, "got": got, "encoded": s}))
    # 2/3 EnvironBuilder -> Request.args / Request.form
    for variant in ("multidict", "dict-of-lists"):
        builder = None
        try:
            if variant == "multidict":
                data = MultiDict(pairs)
                qs = MultiDict(pairs)
            else:
                data = {}
                for k, v in pairs:
                    data.setdefault(k, []).append(v)
                qs = MultiDict(pairs)
            builder = EnvironBuilder(method="POST", data=data, query_string=qs)
            req = Request(builder.get_environ())
            got_form = list(req.form.items(multi=True))
            got_args = list(req.args.items(multi=True))
        except Exception as e:  # noqa: BLE001
            got_form = got_args = ("EXC", f"{type(e).__name__}: {e}")
        finally:
            if builder is not None:
                builder.close()
        if got_form != exp:
            fails.append(("urlencoded:request.form:" + ("exception" if got_form and got_form[0] == "EXC" else "differs"),
                          {"pipeline": "request.form", "variant": variant, "expected": exp, "got": got_form}))
        if variant == "multidict" and got_args != exp:
            fails.append(("urlencoded:request.args:" + ("exception" if got_args and got_args[0] == "EXC" else "differs"),
                          {"pipeline": "request.args", "expected": exp, "got": got_args}))
    if forms:
        fails += check_ue_forms(pairs, exp)
    return fails


def check_ue_forms(pairs, exp):
    """The same pair list through the other documented ways in and out."""
    from werkzeug.formparser import parse_form_data
    from werkzeug.test import Client

    fails = []
    enc = _urlencode(pairs)

    def judge(form, got):
        if got != exp:
            fails.append((f"urlencoded:{form}:" + ("exception" if got and got[0] == "EXC" else "differs"),
                          {"pipeline": form, "expected": exp, "got": got, "encoded": enc}))

    def attempt(form, fn):
        try:
            got = fn()
        except Exception as e:  # noqa: BLE001
            got = ("EXC", f"{type(e).__name__}: {e}")
        judge(form, got)

    def with_builder(kw, read):
        b = EnvironBuilder(**kw)
        try:
            return read(b.get_environ())
        finally:
            b.close()

    ct = "application/x-www-form-urlencoded"
    # the encoded text as the whole body (str and bytes), as the query string, and inside the path
    if enc:
        attempt("body-str", lambda: with_builder(
            dict(method="POST", data=enc, content_type=ct), lambda env: list(Request(env).form.items(multi=True))))
        attempt("body-bytes", lambda: with_builder(
            dict(method="PUT", data=enc.encode("ascii"), content_type=ct + "; charset=utf-8"),
            lambda env: list(Request(env).form.items(multi=True))))
    attempt("query-str", lambda: with_builder(
        dict(query_string=enc), lambda env: list(Request(env).args.items(multi=True))))
    if enc:
        attempt("path-query", lambda: with_builder(
            dict(path="/p?" + enc), lambda env: list(Request(env).args.items(multi=True))))
    # parse_form_data and Request.values on a mapping-built environ
    attempt("parse_form_data", lambda: with_builder(
        dict(method="POST", data=MultiDict(pairs)), lambda env: list(parse_form_data(env)[1].items(multi=True))))

    def values(env):
        v = Request(env).values
        keys = list(dict.fromkeys(k for k, _ in pairs))
        return [(k, x) for k in keys for x in v.getlist(k)]

    def exp_values():
        d = as_lists(exp)
        return [(k, x[1]) for k in d for x in d[k] + d[k]]

    try:
        got = with_builder(dict(method="POST", data=MultiDict(pairs), query_string=MultiDict(pairs)), values)
    except Exception as e:  # noqa: BLE001
        got = ("EXC", f"{type(e).__name__}: {e}")
    if got != exp_values():
        fails.append(("urlencoded:values:" + ("exception" if got and got[0] == "EXC" else "differs"),
                      {"pipeline": "values", "expected": exp_values(), "got": got, "encoded": enc}))
    # the test client
    seen = []

    def app(environ, start_response):
        r = Request(environ)
        seen.append((list(r.form.items(multi=True)), list(r.args.items(multi=True))))
        start_response("200 OK", [("Content-Type", "text/plain")])
        return [b"ok"]

    try:
        Client(app).post("/", data=MultiDict(pairs), query_string=MultiDict(pairs)).close()
        got = seen[0] if len(seen) == 1 else ("EXC", f"app reached {len(seen)} times")
    except Exception as e:  # noqa: BLE001
        got = ("EXC", f"{type(e).__name__}: {e}")
    if got != (exp, exp):
        fails.append(("urlencoded:client:" + ("exception" if got and got[0] == "EXC" else "differs"),
                      {"pipeline": "client", "expected": (exp, exp), "got": got, "encoded": enc}))
    return fails


def check_ue_streams(pairs):
    """EnvironBuilder(data=mapping) -> Request.form with the body arriving in fragments."""
    fails = []
    pairs = list(pairs)
    exp = grouped(pairs)
    for cfg in STREAM_CONFIGS:
        b = EnvironBuilder(method="POST", data=MultiDict(pairs))
        try:
            try:
                env = fragment_input(b.get_environ(), cfg)
                got = list(Request(env).form.items(multi=True))
            except Exception as e:  # noqa: BLE001
                got = ("EXC", f"{type(e).__name__}: {e}")
        finally:
            b.close()
        if got != exp:
            fails.append(("urlencoded:" + stream_label(cfg) + ":" + ("exception" if got and got[0] == "EXC" else "differs"),
                          {"pipeline": stream_label(cfg), "expected": exp, "got": got}))
    return fails


def ue_stream_cases():
    s1 = list(gen.strings(UA, 1))
    for k in s1:
        for v in s1:
            yield ((k, v),)
    small = list(itertools.product(["a", "", "&", "é"], ["", "1", "=", "+ ", "é"]))
    for a in small:
        for b in small:
            yield (a, b)
    yield (("a", "1"), ("a", "2"), ("b", ""), ("", "x"))
    yield (("k" * 40, "v" * 100), ("é" * 30, "𝄞" * 30), ("z", ""))


# ------------------------------------------------------------------ long / split text values

LONG_CHARS = ["é", "€", "𝄞"]


def long_cases():
    """A non-ASCII text field long enough to be delivered in several Data events: every byte offset of a
    multi-byte character meets the parser's 64 KiB read boundary for one of the pads."""
    for ch in LONG_CHARS:
        for pad in range(4):
            v = "a" * pad + ch * 40_000
            yield (fld("t", v), fld("u", "x" + ch))


def buf_values():
    seen = set()
    for v in itertools.chain(gen.strings(["é", "€", "𝄞", "a", "\r\n"], 2, 1), ["é€𝄞" * 4, "a" * 5 + "𝄞" * 6, "€" * 9]):
        if v not in seen:
            seen.add(v)
            yield v


BUF_SIZES = list(range(1, 17)) + [17, 64]


def check_buffered(value: str, kind: str, size: int):
    """encode_multipart -> MultiPartParser(buffer_size=size): the public knob that decides how the body is cut."""
    parts = (fld("t", value), fld("e", "é")) if kind == "field" else (fil("f", "n", value.encode()), fld("e", "é"))
    exp = expect_form(parts, "parser")
    try:
        _b, body = encode_multipart(MultiDict(to_values(parts, False)), boundary="bnd")
        form, files = MultiPartParser(buffer_size=size).parse(io.BytesIO(body), b"bnd", len(body))
        got = (list(form.items(multi=True)), read_files(files))
    except Exception as e:  # noqa: BLE001
        got = ("EXC", f"{type(e).__name__}: {e}")
    if got != exp:
        return [("parser:buffer_size:" + diff_sig(exp, got),
                 {"pipeline": "buffered", "expected": exp, "got": got})]
    return []


# ------------------------------------------------------------------ sizes: forms at a part limit

SIZE_CASES = [("default", n, mixed) for n in (999, 1000) for mixed in (False, True)] + [
    (how, n, mixed) for how in ("decoder", "parser", "request", "parse_form_data") for n in (1, 2, 3, 4)
    for mixed in (False, True)
]


def size_parts(n: int, mixed: bool):
    parts = [fld("f%d" % i, "v%d" % i) for i in range(n)]
    if mixed:
        parts[n // 2] = fil("up", "u.bin", b"data\r\n")
    return tuple(parts)


def check_size(how: str, n: int, mixed: bool):
    """A form of exactly n parts: with the default limits (n = 999, 1000) and with every part limit set to
    exactly n.  A form that is within the limit must come back identical."""
    from werkzeug.formparser import parse_form_data

    parts = size_parts(n, mixed)
    try:
        if how == "decoder":
            exp = expect_sansio(parts)
            b = b"bnd"
            enc = mp.MultipartEncoder(b)
            body = enc.send_event(mp.Preamble(data=b""))
            for kind, name, filename, ctype, payload in parts:
                h = Headers([("Content-Type", ctype)] if ctype else [])
                ev = mp.File(name=name, filename=filename, headers=h) if kind == "file" else mp.Field(name=name, headers=h)
                body += enc.send_event(ev) + enc.send_event(mp.Data(data=as_bytes(kind, payload, ctype), more_data=False))
            body += enc.send_event(mp.Epilogue(data=b""))
            dec = mp.MultipartDecoder(b, max_parts=n)
            dec.receive_data(body)
            dec.receive_data(None)
            got, cur = [], None
            while True:
                ev = dec.next_event()
                if isinstance(ev, mp.Epilogue):
                    break
                if isinstance(ev, mp.File):
                    cur = ["file", ev.name, ev.filename, ev.headers.get("content-type"), b"", False]
                    got.append(cur)
                elif isinstance(ev, mp.Field):
                    cur = ["field", ev.name, None, ev.headers.get("content-type"), b"", False]
                    got.append(cur)
                elif isinstance(ev, mp.Data):
                    cur[4] += ev.data
                    cur[5] = not ev.more_data
            got = [tuple(g) for g in got]
        else:
            exp = expect_form(parts, "request")
            with _owned_boundary(0):
                kw = {} if mixed else {"content_type": "multipart/form-data"}
                builder = EnvironBuilder(method="POST", data=MultiDict(to_values(parts, True)), **kw)
                try:
                    env = builder.get_environ()
                finally:
                    builder.close()
            if how == "default":
                got = _read_request(Request(env))
            elif how == "request":
                class Limited(Request):
                    max_form_parts = n

                got = _read_request(Limited(env))
            elif how == "parse_form_data":
                _st, form, files = parse_form_data(env, max_form_parts=n, silent=False)
                got = (list(form.items(multi=True)), read_files(files))
            else:
                body = env["wsgi.input"].read()
                form, files = MultiPartParser(max_form_parts=n).parse(
                    io.BytesIO(body), req_boundary(0).encode(), len(body))
                got = (list(form.items(multi=True)), read_files(files))
    except Exception as e:  # noqa: BLE001
        got = ("EXC", f"{type(e).__name__}: {e}")
    if got != exp:
        return [(f"sizes:{how}:" + diff_sig(exp, got),
                 {"pipeline": "sizes", "expected": core.show(exp, 300), "got": core.show(got, 300)})]
    return []


# ------------------------------------------------------------------ units

N_MP = 96
N_API = 64
N_UE = 48
SWEEP_CHUNK = 0x800


def units(tier):
    out = [("mp", i, N_MP) for i in range(N_MP)]
    out += [("ue", i, N_UE) for i in range(N_UE)]
    top = 0x110000 if tier == "thorough" else 0x10000
    out += [("sweep", lo, min(lo + SWEEP_CHUNK, top)) for lo in range(0, top, SWEEP_CHUNK)]
    out += [("big", i, 0) for i in range(len(BIG) * 2)]
    out += [("api", i, N_API) for i in range(N_API)]
    out += [("foreign", 0, 1)]
    out += [("long", i, 0) for i in range(len(LONG_CHARS) * 4)]
    out += [("buf", 0, 1), ("uestream", 0, 2), ("uestream", 1, 2)]
    out += [("sizes", i, 4) for i in range(4)]
    return out


def plain(parts) -> bool:
    for k, n, f, c, p in parts:
        for s in (n, f or "", p if isinstance(p, str) else p.decode("latin-1")):
            if not (s.isascii() and s.replace(".", "").isalnum() or s == ""):
                return False
    return len(parts) <= 1


def record(R, family, parts, bsel, fails):
    for sig, d in fails:
        R.violation(sig, {"kind": "multipart", "sig": sig, "family": family, "parts": [list(p) for p in parts],
                          "bsel": bsel, **d})


def run_unit(unit, R, tier):
    kind = unit[0]
    if kind == "mp":
        _, idx, n = unit
        for j, (family, parts, bsel, _p) in enumerate(gen.shard(mp_cases(tier), n, idx)):
            fails, ran = check_multipart(parts, bsel)
            R.ev(ran)
            R.count("multipart_cases")
            R.use("mp:" + family)
            if ran < 6:
                R.use("mp:uncarriable-for-some-boundary")
            if ran == 0:
                continue
            if not plain(parts):
                R.nontrivial((parts, bsel))
            for k, _n, _f, _c, p in parts:
                if len(p) == 0:
                    R.use("mp:empty-value")
                if ("\r" in p or "\n" in p) if isinstance(p, str) else (b"\r" in p or b"\n" in p):
                    R.use("mp:linebreak-in-value")
            R.outcome(("mp", family, len(parts), bool(fails)))
            if j % 1499 == 0:
                R.sample({"kind": "multipart", "family": family, "boundary": BOUNDARIES[bsel], "parts": parts})
            record(R, family, parts, bsel, fails)
    elif kind == "big":
        family, parts, bsel, _ = list(big_cases())[unit[1]]
        fails, ran = check_multipart(parts, bsel)
        R.ev(ran)
        R.count("multipart_cases")
        R.use("mp:BIG:%d" % len(parts[1][4]))
        R.nontrivial(("big", unit[1]))
        for sig, d in fails:
            # do not store megabytes in the replay record: the case is rebuilt from its index
            slim = {k: (v if k not in ("expected", "got", "body") else core.show(v, 300)) for k, v in d.items()}
            R.violation(sig, {"kind": "big", "sig": sig, "index": unit[1], **slim})
    elif kind == "api":
        _, idx, n = unit
        tmpdir = tempfile.mkdtemp(prefix="c02_")
        try:
            cases = ((p_, API_VARIANTS) for p_ in api_cases(tier))
            if tier != "thorough":
                # quick: the depth-2 same-name field pairs (all variants in thorough) through the fragmenting
                # streams, the test client and the dict form
                cases = itertools.chain(cases, ((p_, API_QUICK_EXTRA) for p_ in api_extra_cases()))
            for j, (parts, variants) in enumerate(gen.shard(cases, n, idx)):
                fails, ran = check_api(parts, tmpdir, variants)
                R.ev(ran)
                R.count("api_cases")
                R.count("api_runs", ran)
                if ran:
                    R.nontrivial(("api", parts))
                R.outcome(("api", len(parts), bool(fails)))
                if j % 211 == 0:
                    R.sample({"kind": "api", "parts": parts, "variants": ran})
                for sig, d in fails:
                    R.use("api:fail:" + d["variant"])
                    R.violation(sig, {"kind": "api", "sig": sig, "parts": [list(p) for p in parts], **d})
        finally:
            shutil.rmtree(tmpdir, ignore_errors=True)
    elif kind == "long":
        parts = list(long_cases())[unit[1]]
        fails, ran = check_multipart(parts, 1)
        R.ev(ran)
        R.count("long_cases")
        R.use("long:" + parts[0][4][-1])
        R.nontrivial(("long", unit[1]))
        for sig, d in fails:
            slim = {k: (v if k not in ("expected", "got", "body") else core.show(v, 300)) for k, v in d.items()}
            R.violation(sig, {"kind": "long", "sig": sig, "index": unit[1], **slim})
    elif kind == "buf":
        for v in buf_values():
            for fk in ("field", "file"):
                for size in BUF_SIZES:
                    R.ev()
                    R.count("buffered_runs")
                    R.nontrivial(("buf", v, fk, size))
                    for sig, d in check_buffered(v, fk, size):
                        R.violation(sig, {"kind": "buf", "sig": sig, "value": v, "part": fk, "size": size, **d})
    elif kind == "sizes":
        _, idx, n = unit
        for how, cnt, mixed in gen.shard(SIZE_CASES, n, idx):
            R.ev()
            R.count("size_cases")
            R.use("sizes:" + how)
            R.nontrivial(("sizes", how, cnt, mixed))
            for sig, d in check_size(how, cnt, mixed):
                R.violation(sig, {"kind": "sizes", "sig": sig, "how": how, "n": cnt, "mixed": mixed, **d})
    elif kind == "uestream":
        _, idx, n = unit
        for pairs in gen.shard(ue_stream_cases(), n, idx):
            R.ev(len(STREAM_CONFIGS))
            R.count("ue_stream_runs", len(STREAM_CONFIGS))
            R.nontrivial(("uestream", pairs))
            for sig, d in check_ue_streams(pairs):
                R.violation(sig, {"kind": "uestream", "sig": sig, "pairs": [list(p) for p in pairs], **d})
    elif kind == "foreign":
        for style, name, filename in foreign_cases():
            fails, ran = check_foreign(style, name, filename)
            R.ev(ran)
            R.count("foreign_cases", ran)
            if ran:
                R.use("foreign:" + style)
                R.nontrivial(("foreign", style, name, filename))
            for sig, d in fails:
                R.violation(sig, {"kind": "foreign", "sig": sig, "style": style, "name": name,
                                  "filename": filename, **d})
    elif kind == "sweep":
        _, lo, hi = unit
        for cp in range(lo, hi):
            if 0xD800 <= cp <= 0xDFFF:
                continue
            fails, ran = sweep_check(cp)
            R.ev(ran)
            R.count("sweep_code_points")
            if cp > 0x7F:
                R.nontrivial(("cp", cp))
            if cp % 0x1999 == 0:
                R.sample({"kind": "sweep", "code_point": cp})
            for sig, d in fails:
                R.violation(sig, {"kind": "sweep", "sig": sig, "cp": cp, **d})
        R.outcome(("sweep", "done"))
    else:
        _, idx, n = unit
        for j, pairs in enumerate(gen.shard(ue_cases(tier), n, idx)):
            R.ev(4)
            R.count("urlencoded_cases")
            # the further API forms on every list (both tiers)
            forms = True
            R.use("ue:forms" if forms else "ue:core-only")
            fails = check_ue(pairs, forms)
            txt = "".join(k + v for k, v in pairs)
            if len(pairs) > 1 or not txt.isalnum():
                R.nontrivial(pairs)
            if len({k for k, _ in pairs}) < len(pairs):
                R.use("ue:repeated-key")
            if any(v == "" for _, v in pairs):
                R.use("ue:empty-value")
            if any(k == "" for k, _ in pairs):
                R.use("ue:empty-key")
            R.outcome(("ue", len(pairs), bool(fails)))
            if j % 2999 == 0:
                R.sample({"kind": "urlencoded", "pairs": pairs, "encoded": _urlencode(list(pairs))})
            for sig, d in fails:
                R.violation(sig, {"kind": "urlencoded", "sig": sig, "pairs": [list(p) for p in pairs], **d})


def finalize(R, tier):
    need = {"mp:S-field", "mp:S-file", "mp:S-file-ct", "mp:Z", "mp:N", "mp:C", "mp:P-ff", "mp:P-fF", "mp:P-Ff",
            "mp:P-FF", "mp:P3", "mp:T", "mp:uncarriable-for-some-boundary", "mp:empty-value", "mp:linebreak-in-value",
            "ue:repeated-key", "ue:empty-value", "ue:empty-key", "ue:forms"}
    need |= {"mp:BIG:%d" % n for n in BIG}
    need |= {"foreign:" + st for st in F_STYLES}
    need |= {"long:" + ch for ch in LONG_CHARS}
    need |= {"sizes:" + h for h in ("default", "decoder", "parser", "request", "parse_form_data")}
    missing = need - R.used
    if missing:
        raise core.Broken(f"vacuity: never exercised {sorted(missing)}")
    for k, floor in (("multipart_cases", 40_000), ("urlencoded_cases", 50_000), ("sweep_code_points", 60_000),
                     ("api_runs", 5_000), ("foreign_cases", 300), ("long_cases", 12), ("buffered_runs", 1_000),
                     ("ue_stream_runs", 5_000)):
        if R.counts[k] < floor:
            raise core.Broken(f"vacuity: only {R.counts[k]} {k}")
    if carriable(b"x\r\n--bnd\r\ny", b"bnd") or carriable(b"--bnd", b"bnd") or not carriable(b"x--bnd\r\n--bn", b"bnd"):
        raise core.Broken("domain filter (carriable) is wrong")
    return {
        "bound": ("single parts depth 3, pairs depth 2 and depth 3 x 2 for same-name fields, triples depth 1, BMP sweep; "
                  "urlencoded strings <=2; API forms on pairs depth 1, fragmenting streams / client / dict on "
                  "same-name field pairs depth 2"
                  if tier == "quick" else
                  "single parts depth 4, pairs depth 2, triples depth 1 (+ depth 2 for fields), all-planes sweep; "
                  "urlencoded strings <=3 x <=2, all API forms on every list; API forms on pairs depth 2"),
        "exhaustive": True,
        "n_multipart": R.counts["multipart_cases"], "n_urlencoded": R.counts["urlencoded_cases"],
        "n_sweep": R.counts["sweep_code_points"], "n_api_runs": R.counts["api_runs"],
        "n_foreign": R.counts["foreign_cases"],
    }


# ------------------------------------------------------------------ replay / findings


def _parts(rec):
    return tuple(tuple(p) for p in rec["parts"])


def replay(rec):
    kind = rec.get("kind")
    if kind == "multipart":
        parts = _parts(rec)
        fails, _ = check_multipart(parts, rec["bsel"])
        text = f"boundary={BOUNDARIES[rec['bsel']]!r} parts={core.show(parts, 600)}"
    elif kind == "big":
        _family, parts, bsel, _ = list(big_cases())[rec["index"]]
        fails, _ = check_multipart(parts, bsel)
        text = f"big case #{rec['index']} ({len(parts[1][4])} bytes file between two fields)"
    elif kind == "sweep":
        fails, _ = sweep_check(rec["cp"])
        text = f"code point U+{rec['cp']:04X}"
    elif kind == "api":
        parts = _parts(rec)
        tmpdir = tempfile.mkdtemp(prefix="c02_")
        try:
            fails, _ = check_api(parts, tmpdir, [rec["variant"]])
        finally:
            shutil.rmtree(tmpdir, ignore_errors=True)
        text = f"API form {rec['variant']!r} parts={core.show(parts, 600)}"
    elif kind == "long":
        parts = list(long_cases())[rec["index"]]
        fails, _ = check_multipart(parts, 1)
        text = f"long text field #{rec['index']}: {len(parts[0][4])} characters, {parts[0][4][:5]!r}..."
    elif kind == "buf":
        fails = check_buffered(rec["value"], rec["part"], rec["size"])
        text = f"MultiPartParser(buffer_size={rec['size']}) {rec['part']} value {rec['value']!r}"
    elif kind == "sizes":
        fails = check_size(rec["how"], rec["n"], rec["mixed"])
        text = f"form of exactly {rec['n']} parts ({'one file among them' if rec['mixed'] else 'fields only'}), limit: {rec['how']}"
    elif kind == "uestream":
        pairs = tuple(tuple(p) for p in rec["pairs"])
        fails = [f for f in check_ue_streams(pairs) if f[1]["pipeline"] == rec.get("pipeline")]
        text = f"pairs={pairs!r} body arriving as {rec.get('pipeline')}"
    elif kind == "foreign":
        fails, _ = check_foreign(rec["style"], rec["name"], rec["filename"])
        text = f"foreign encoder style={rec['style']!r} name={rec['name']!r} filename={rec['filename']!r}"
    elif kind == "urlencoded":
        pairs = tuple(tuple(p) for p in rec["pairs"])
        fails = check_ue(pairs)
        text = f"pairs={pairs!r}"
    else:
        return True, rec.get("traceback", "unit exception")
    hit = False
    for sig, d in fails:
        same = sig == rec.get("sig") and d.get("split") == rec.get("split") and d.get("variant") == rec.get("variant")
        hit = hit or same
        text += f"\n{'*' if same else ' '} {sig} " + " ".join(f"{k}={core.show(v, 400)}" for k, v in d.items())
    return hit, text


def _f_empty_first_chunk(rec) -> bool:
    """MultipartEncoder: Data(b"", more_data=True) as the first data event of a part moves the encoder to DATA
    without writing the blank line, so the next chunk is glued to the header block.  Matches only the sans-io
    pipeline, only when 'empty-first' is the *only* way of chunking that fails for the case, and only when some
    part has a non-empty payload."""
    if rec.get("pipeline") != "sansio" or rec.get("split") != "empty-first":
        return False
    if list(rec.get("failing_splits") or []) != ["empty-first"]:
        return False
    if rec.get("kind") in ("sweep", "big"):   # these always carry non-empty payloads
        return True
    return any(len(p[4]) > 0 for p in rec.get("parts", ()))


FINDINGS: dict = {"C02-encoder-empty-first-chunk": _f_empty_first_chunk}

LEVEL_TEXT = (
    "Exhaustive enumeration of part lists (0-3 parts, every field/file mix, repeated names) whose values are all "
    "strings up to 3-4 atoms over the characters the multipart framing is sensitive to plus near-copies of the "
    "delimiter, of every name / filename pair of a hostile name alphabet and every BMP code point, each through the "
    "sans-io encoder/decoder, encode_multipart -> MultiPartParser and EnvironBuilder -> Request; and of url-encoded "
    "pair lists over the characters the query syntax reserves, through three pipelines; oracle = identity. The unit "
    "tests round-trip two fixed bodies and a handful of dicts."
)
LEVEL_NOTE = (
    "Trusted: the independent delimiter regex that decides which payloads multipart can carry at all, the harness "
    "grouping function that mimics MultiDict ordering. Not covered: arbitrary Unicode beyond single code points in "
    "fixed contexts, more than 3 parts, chunked arrival (C01)."
)
TECHNIQUE = "small-scope exhaustive enumeration of encode -> parse round trips with the identity oracle"
DESIGN_REF = "DESIGN.md §4 C02"
