"""C01 - multipart decoding does not depend on how the body is chunked.

E3: for every body of a grammar, the complete arrival-schedule graph of the real
MultipartDecoder (node = offset + full decoder state + output so far; edge = "the next k
bytes arrive", every k) - the terminal outputs of the graph are the outputs over *all*
2^(n-1) arrival schedules.  Oracle: the part list the generator encoded (ground truth).
E4: the real MultiPartParser.parse for every buffer_size 1..len+1 with full reads, then with
every single short read (deviation bound 1; 2 in thorough for small bodies).
"""
from __future__ import annotations

import collections
import copy
import itertools
import re

from mc import core, gen

ID = "C01"
LEVEL = "model_checking"
RULE = (
    "bodies = all derivations of the part/payload grammar up to the tier's bound (payload = every "
    "sequence of <=k atoms from the nasty alphabet, body-less form, 0..3 parts, field/file, CRLF/LF/CR "
    "newlines, preamble/epilogue/padding, short and long boundary), ill-formed payloads filtered by an "
    "independent delimiter regex; for each body the complete arrival-schedule graph of MultipartDecoder "
    "(all compositions of the body) plus MultiPartParser.parse for every buffer_size and every single "
    "short read. non-trivial = distinct (body) whose graph has >1 state and whose payloads are not all "
    "plain letters."
)
ASSUMPTIONS = [
    "decoder future depends only on (state, buffer, _search_position, _parts_decoded, complete) - "
    "asserted against vars(decoder) on every run",
    "callers pump next_event() until NEED_DATA after each receive_data (what MultiPartParser does)",
    "preamble / epilogue bytes are not compared (property text)",
    "bodies <= ~260 bytes, <= 3 parts",
]

from werkzeug.formparser import MultiPartParser  # noqa: E402
from werkzeug.sansio import multipart as mp  # noqa: E402

DECODER_ATTRS = {
    "buffer", "complete", "max_form_memory_size", "max_parts", "state", "boundary",
    "preamble_re", "boundary_re", "_search_position", "_parts_decoded",
}

SHORT = b"bnd"
LONG = b"----WebKitFormBoundary7MA4YWxk"


def atoms(boundary: bytes) -> list[bytes]:
    return [
        b"a",
        b"\r",
        b"\n",
        b"\r\n",
        b"-",
        b"--",
        b"--" + boundary[:-1],               # boundary prefix
        boundary + b"X",                     # look-alike (contains the boundary text)
        b"\r\n--" + boundary[:-1],           # delimiter prefix
        b"\n--" + boundary[:-1],
        b"\r\n--" + boundary + b"X",         # full delimiter text followed by a non-space
        b"x" * (len(boundary) + 6),          # longer than the hold-back threshold
        b"\xff",
    ]


# ------------------------------------------------------------------ body construction

class Part(tuple):
    """(kind, name, filename, content_type, payload|None)"""


def build_body(parts, boundary, nl=b"\r\n", pre=b"", epi=b"", pad=b"", cont=False, first_nl=True):
    out = bytearray(pre)
    for i, (kind, name, filename, ctype, payload) in enumerate(parts):
        if i or first_nl or pre:
            out += nl
        out += b"--" + boundary + pad + nl
        out += b'Content-Disposition: form-data; name="' + name + b'"'
        if kind == "file":
            out += b'; filename="' + filename + b'"'
        out += nl
        if ctype is not None:
            if cont:
                out += b"Content-Type:" + nl + b" " + ctype + nl
            else:
                out += b"Content-Type: " + ctype + nl
        if payload is not None:
            out += nl + payload
    if parts or first_nl or pre:
        out += nl
    out += b"--" + boundary + b"--" + pad + nl + epi
    return bytes(out)


def expected_parts(parts):
    exp = []
    for kind, name, filename, ctype, payload in parts:
        hdrs = [("Content-Disposition", 'form-data; name="%s"' % name.decode()
                 + ('; filename="%s"' % filename.decode() if kind == "file" else ""))]
        if ctype is not None:
            hdrs.append(("Content-Type", ctype.decode()))
        exp.append((kind, name.decode(), filename.decode() if kind == "file" else None,
                    tuple(hdrs), payload or b"", True))
    return tuple(exp)


def well_formed_payload(payload: bytes | None, boundary: bytes, nl: bytes) -> bool:
    """Independent statement of well-formedness: reading payload + the real delimiter left to
    right, the first thing that is a delimiter (line break, "--", boundary, then "--" or blanks
    and a line break) is the real one.  The header block always ends in a line break, so a
    delimiter text at the very start of the payload counts too."""
    if payload is None:
        return True
    if nl == b"\n" and b"\r" in payload:
        return False
    if nl == b"\r" and b"\n" in payload:
        return False
    probe = b"\n" + payload
    full = probe + nl + b"--" + boundary + nl
    rx = re.compile(rb"(?:\r\n|\n|\r)--" + re.escape(boundary) + rb"(--|[ \t\f\v]*(?:\r\n|\n|\r))")
    m = rx.search(full)
    return m is not None and m.start() == len(probe)


# ------------------------------------------------------------------ the spaces

def payload_space(boundary, nl, depth):
    yield None
    for p in gen.bstrings(atoms(boundary), depth):
        if well_formed_payload(p, boundary, nl):
            yield p


def bodies(tier):
    """Yield (descr, boundary, parts, kwargs) simplest first."""
    T = tier == "thorough"
    fld = lambda name, p: ("field", name, None, None, p)  # noqa: E731
    fil = lambda name, p, ct=b"text/plain": ("file", name, b"f.txt", ct, p)  # noqa: E731
    # A: no parts at all
    for first_nl in (True, False):
        yield ("A0", SHORT, (), dict(first_nl=first_nl))
    # A: single part, CRLF, payload depth 2 (3 thorough), field and file
    for p in payload_space(SHORT, b"\r\n", 3 if T else 2):
        yield ("A1f", SHORT, (fld(b"a", p),), {})
    for p in payload_space(SHORT, b"\r\n", 2 if T else 1):
        yield ("A1F", SHORT, (fil(b"up", p),), {})
    # B: two parts
    d1, d2 = (2, 1) if T else (1, 1)
    seconds = [None, b"q", b"\r\n", b"q\r"]
    for p1 in payload_space(SHORT, b"\r\n", d1):
        for p2 in (list(payload_space(SHORT, b"\r\n", d2)) if T else seconds):
            yield ("B2", SHORT, (fld(b"a", p1), fil(b"f", p2)), {})
            yield ("B2r", SHORT, (fil(b"f", p1), fld(b"a", p2)), {})
    # C: bare LF / bare CR
    for nl in (b"\n", b"\r"):
        for p in payload_space(SHORT, nl, 2 if T else 1):
            yield ("C1", SHORT, (fld(b"a", p),), dict(nl=nl))
            yield ("C2", SHORT, (fld(b"a", p), fil(b"f", b"z")), dict(nl=nl))
    # D: preamble, epilogue, padding, header continuation, no leading newline
    for p in payload_space(SHORT, b"\r\n", 1):
        yield ("Dpre", SHORT, (fld(b"a", p),), dict(pre=b"preamble text"))
        yield ("Dpre2", SHORT, (fld(b"a", p),), dict(pre=b"--bn\r\nzz"))
        yield ("Depi", SHORT, (fld(b"a", p),), dict(epi=b"epilogue\r\n--bnd"))
        yield ("Dpad", SHORT, (fld(b"a", p), fld(b"b", b"w")), dict(pad=b" \t"))
        yield ("Dnonl", SHORT, (fld(b"a", p),), dict(first_nl=False))
        yield ("Dcont", SHORT, (fil(b"a", p, b"text/plain; charset=utf-8"),), dict(cont=True))
    # Dlong: preamble / epilogue much longer than a header block (a stale search offset left behind by the
    # preamble search would then lie beyond the first part's blank line), short and long boundary
    for bnd in (SHORT, LONG):
        for pre in (b"p" * 70, b"line one\r\n" + b"q" * 90 + b"\r\n--" + bnd[:-1] + b"\r\nmore"):
            yield ("Dlong", bnd, (fld(b"a", b"v1\r\n\r\nv2"), fil(b"f", b"z")), dict(pre=pre))
            yield ("Dlong", bnd, (fld(b"a", None),), dict(pre=pre, epi=b"e" * 40))
    # E: long boundary
    for p in payload_space(LONG, b"\r\n", 2 if T else 1):
        yield ("E1", LONG, (fld(b"a", p),), {})
    if T:
        for p in payload_space(LONG, b"\r\n", 1):
            yield ("E2", LONG, (fld(b"a", p), fil(b"f", p)), {})
    # G: multi-byte text longer than the hold-back threshold: Data events may cut inside a character, the
    # field value must still be decoded as one text (parser level: every buffer size and short read)
    for text in ("é" * 9, "aé" * 6 + "\n" + "名" * 5, "𝄞" * 4 + "x"):
        yield ("Gu", SHORT, (fld(b"a", text.encode()),), {})
    yield ("Gu", SHORT, (fld(b"a", ("é" * 9).encode()), fil(b"f", ("é" * 9).encode())), {})
    yield ("Gl", SHORT, (("field", b"a", None, b"text/plain; charset=iso-8859-1", b"\xe9" * 12),), {})
    # F: three parts
    small = [None, b"", b"a", b"\r", b"\n", b"\r\n", b"--", b"x\r"] if T else [None, b"a", b"\r\n"]
    for p1, p2, p3 in itertools.product(small, repeat=3):
        yield ("F3", SHORT, (fld(b"a", p1), fil(b"f", p2), fld(b"a", p3)), {})


def parser_level_selected(descr: str, idx: int, tier: str) -> bool:
    if tier == "thorough":
        return descr in ("A0", "A1f", "A1F", "C1", "Dpad", "Dcont", "Dlong", "E1", "F3", "B2", "Gu", "Gl") and (descr != "A1f" or idx % 8 == 0) and (descr != "B2" or idx % 8 == 0)
    return (descr in ("A0", "A1F", "C1", "Dpad", "Dcont", "Gu", "Gl") or (descr == "F3" and idx % 3 == 0)
            or (descr == "Dlong" and idx % 2 == 0))


BATCH = 2


def units(tier):
    all_b = list(enumerate(bodies(tier)))
    return [all_b[i : i + BATCH] for i in range(0, len(all_b), BATCH)]


# ------------------------------------------------------------------ decoder-level graph (E3)

def clone(d):
    """Attribute-level clone that does not depend on the attribute set: every mutable container is copied,
    so a refactoring that adds a field neither aliases state between clones nor breaks the harness."""
    n = mp.MultipartDecoder.__new__(mp.MultipartDecoder)
    for k, v in d.__dict__.items():
        if isinstance(v, bytearray):
            v = bytearray(v)
        elif isinstance(v, (list, dict, set)):
            v = copy.deepcopy(v)
        n.__dict__[k] = v
    return n


def pump(d, out):
    """Drain events; returns (normalised output, terminal?)."""
    out = list(out)
    while True:
        try:
            ev = d.next_event()
        except Exception as e:  # noqa: BLE001 - any exception is an observable outcome
            out.append(("EXC", type(e).__name__))
            return tuple(out), True
        if isinstance(ev, mp.NeedData):
            return tuple(out), False
        if isinstance(ev, mp.Data):
            if out and out[-1][0] == "D" and not out[-1][2]:
                out[-1] = ("D", out[-1][1] + ev.data, not ev.more_data)
            elif out and out[-1][0] == "D":
                out.append(("STRAY-DATA", ev.data, not ev.more_data))
            else:
                out.append(("D", ev.data, not ev.more_data))
        elif isinstance(ev, mp.Field):
            out.append(("F", ev.name, None, tuple(ev.headers)))
        elif isinstance(ev, mp.File):
            out.append(("L", ev.name, ev.filename, tuple(ev.headers)))
        elif isinstance(ev, mp.Preamble):
            out.append(("P",))
        elif isinstance(ev, mp.Epilogue):
            out.append(("E",))
            return tuple(out), True
        else:
            out.append(("UNKNOWN-EVENT", repr(ev)))


def normalise(out):
    """Event tuple -> tuple of parts (kind, name, filename, headers, payload, terminated) + tail."""
    parts = []
    tail = []
    cur = None
    for e in out:
        if e[0] in ("F", "L"):
            cur = ["field" if e[0] == "F" else "file", e[1], e[2], e[3], b"", False]
            parts.append(cur)
        elif e[0] == "D":
            if cur is None:
                tail.append(("DATA-WITHOUT-PART",))
            else:
                cur[4] += e[1]
                cur[5] = e[2]
                if e[2]:
                    cur = cur  # terminated; a following D is reported by pump as STRAY-DATA
        elif e[0] in ("P",):
            pass
        elif e[0] == "E":
            tail.append(("END",))
        else:
            tail.append(e)
    return tuple(tuple(p) for p in parts), tuple(tail)


_CONST_ATTRS = ("boundary", "preamble_re", "boundary_re", "max_form_memory_size", "max_parts")


def state_key(d, off, out):
    """Every attribute any method can read is part of the key (generic over vars(d)): merging two histories
    is only sound if all of them are equal.  Constants of the run (boundary, compiled regexes, limits) are skipped."""
    dyn = []
    for k in sorted(d.__dict__):
        if k in _CONST_ATTRS:
            continue
        v = d.__dict__[k]
        if isinstance(v, bytearray):
            v = bytes(v)
        elif isinstance(v, (list, dict, set)):
            v = repr(v)
        dyn.append((k, v))
    return (off, tuple(dyn), out)


def explore_body(body: bytes, boundary: bytes):
    """BFS over the arrival-schedule graph. Returns (states, transitions, {terminal: schedule})."""
    n = len(body)
    d0 = mp.MultipartDecoder(boundary)
    missing = {"buffer", "state", "complete"} - set(vars(d0))
    if missing:
        raise core.Broken(f"MultipartDecoder lost attributes the harness reads: {sorted(missing)}")
    seen = {state_key(d0, 0, ())}
    queue = collections.deque([(0, d0, (), ())])
    trans = 0
    finals: dict = {}
    while queue:
        off, d, out, sched = queue.popleft()
        if off == n:
            d2 = clone(d)
            d2.receive_data(None)
            o, _ = pump(d2, out)
            trans += 1
            finals.setdefault(o, sched)
            continue
        # k = 0: an empty piece is a legal element of an arrival schedule (a split at offset 0, two equal cuts);
        # it must change nothing.  Explored once per state, after the non-empty arrivals (simplest first).
        for k in list(range(n - off, 0, -1)) + [0]:
            d2 = clone(d)
            d2.receive_data(body[off : off + k])
            o, done = pump(d2, out)
            trans += 1
            s2 = sched + (k,)
            if done:
                # epilogue reached or exception: the rest of the input cannot change the parts
                finals.setdefault(o, s2 + ((n - off - k,) if n - off - k else ()))
                continue
            kk = state_key(d2, off + k, o)
            if kk not in seen:
                seen.add(kk)
                queue.append((off + k, d2, o, s2))
    return len(seen), trans, finals


def run_schedule(body: bytes, boundary: bytes, sched):
    d = mp.MultipartDecoder(boundary)
    out = ()
    off = 0
    for k in sched:
        d.receive_data(body[off : off + k])
        off += k
        out, done = pump(d, out)
        if done:
            return out
    d.receive_data(None)
    out, _ = pump(d, out)
    return out


# ------------------------------------------------------------------ parser level (E4)

class Src:
    """Input stream whose read() answers are chosen by the harness.

    default answer: everything asked for; deviation (call index -> length): a short read."""

    def __init__(self, data: bytes, dev: dict[int, int]):
        self.data = data
        self.pos = 0
        self.calls = 0
        self.dev = dev
        self.log = []

    def read(self, size=-1):
        left = len(self.data) - self.pos
        if size is None or size < 0:
            size = left
        want = min(size, left)
        k = self.dev.get(self.calls, want)
        k = min(k, want)
        self.log.append((size, k))
        self.calls += 1
        out = self.data[self.pos : self.pos + k]
        self.pos += k
        return out


def parse_with(body, boundary, buffer_size, dev):
    src = Src(body, dev)
    p = MultiPartParser(buffer_size=buffer_size)
    try:
        form, files = p.parse(src, boundary, len(body))
    except Exception as e:  # noqa: BLE001
        return ("EXC", type(e).__name__), src
    f = tuple(form.items(multi=True))
    fl = tuple((k, v.filename, v.content_type, v.stream.read()) for k, v in files.items(multi=True))
    return (f, fl), src


def expected_form(parts):
    f = []
    fl = []
    for kind, name, filename, ctype, payload in parts:
        if kind == "field":
            cs = "iso-8859-1" if ctype and b"charset=iso-8859-1" in ctype else "utf-8"
            f.append((name.decode(), (payload or b"").decode(cs, "replace")))
        else:
            fl.append((name.decode(), filename.decode(), ctype.decode() if ctype else None, payload or b""))
    return tuple(f), tuple(fl)


# ------------------------------------------------------------------ unit

def describe(parts):
    return [(k, n, p) for k, n, _f, _c, p in parts]


def run_unit(unit, R, tier):
    for idx, (descr, boundary, parts, kw) in unit:
        body = build_body(parts, boundary, **kw)
        exp = (expected_parts(parts), (("END",),))
        R.use("family:" + descr)
        for _k, _n, _f, _c, p in parts:
            R.use("bodyless" if p is None else "payload")
        states, trans, finals = explore_body(body, boundary)
        R.count("states", states)
        R.count("transitions", trans)
        R.count("executions", trans)
        R.ev()
        R.count("schedules_covered_log2", max(len(body) - 1, 0))
        if states > 1 and any(p not in (None, b"", b"a") for *_x, p in parts):
            R.nontrivial(body)
        if idx % 97 == 0:
            R.sample({"family": descr, "body": body, "states": states, "transitions": trans,
                      "terminal_outputs": len(finals)})
        R.count("terminal_outputs", len(finals))
        for o, sched in finals.items():
            got = normalise(o)
            R.outcome(("dec", got == exp))
            if got != exp:
                R.violation(
                    "decoder:" + diff_kind(exp, got),
                    {"kind": "decoder", "family": descr, "boundary": boundary, "body": body,
                     "parts": describe(parts), "schedule": list(sched), "expected": exp, "got": got},
                )
        # parser level
        if parser_level_selected(descr, idx, tier):
            expf = expected_form(parts)
            n = len(body)
            R.count("parser_bodies")
            bad = False
            for bs in range(1, n + 2):
                if bad:
                    break
                got, src = parse_with(body, boundary, bs, {})
                R.count("executions")
                R.count("parser_runs")
                R.outcome(("parse", got == expf))
                if got != expf:
                    R.violation("parser:" + ("exception" if got[0] == "EXC" else "wrong-result"),
                                {"kind": "parser", "family": descr, "boundary": boundary, "body": body,
                                 "parts": describe(parts), "buffer_size": bs, "dev": {},
                                 "expected": expf, "got": got})
                    bad = True
                    continue
                # every single short read (deviation bound 1)
                ncalls = src.calls
                for ci in range(ncalls):
                    asked, given = src.log[ci]
                    for k in range(1, given):
                        got2, _ = parse_with(body, boundary, bs, {ci: k})
                        R.count("executions")
                        R.count("parser_runs")
                        if got2 != expf:
                            R.violation("parser:short-read",
                                        {"kind": "parser", "family": descr, "boundary": boundary,
                                         "body": body, "parts": describe(parts), "buffer_size": bs,
                                         "dev": {ci: k}, "expected": expf, "got": got2})
                            bad = True
                            break
                    if bad:
                        break


def diff_kind(exp, got):
    (eparts, _etail), (gparts, gtail) = exp, got
    if any(t[0] == "EXC" for t in gtail):
        return "exception:" + next(t[1] for t in gtail if t[0] == "EXC")
    if len(eparts) != len(gparts):
        return "part-count"
    for e, g in zip(eparts, gparts):
        if e[:4] != g[:4]:
            return "part-head"
        if e[4] != g[4]:
            if g[4].startswith(e[4]):
                return "payload-extra-suffix"
            if e[4].startswith(g[4]):
                return "payload-truncated"
            return "payload-differs"
        if e[5] != g[5]:
            return "not-terminated"
    return "tail"


def finalize(R, tier):
    need = {"family:A0", "family:A1f", "family:B2", "family:C1", "family:F3", "bodyless", "payload"}
    missing = need - R.used
    if missing:
        raise core.Broken(f"vacuity: never exercised {sorted(missing)}")
    if R.counts["parser_bodies"] < 20:
        raise core.Broken("vacuity: parser level barely ran")
    return {"bound": "payload depth 2/1, <=3 parts" if tier == "quick" else "payload depth 3/2, <=3 parts",
            "exhaustive": True,
            "closed": True,
            "explanation": "every arrival schedule of every generated body (complete graph), every "
                           "buffer_size and every single short read at the parser level"}


# ------------------------------------------------------------------ findings / replay

def replay(rec):
    if rec.get("kind") == "decoder":
        out = run_schedule(rec["body"], rec["boundary"], rec["schedule"])
        got = normalise(out)
        exp = rec["expected"]
        exp = (tuple(tuple(p) for p in exp[0]), tuple(tuple(x) for x in exp[1]))
        one = normalise(run_schedule(rec["body"], rec["boundary"], [len(rec["body"])]))
        text = (f"body     = {rec['body']!r}\nschedule = {rec['schedule']}\nexpected = {exp}\n"
                f"got      = {got}\none-piece= {one}")
        return _plain(got) != _plain(exp), text
    if rec.get("kind") == "parser":
        dev = {int(k): v for k, v in rec["dev"].items()}
        got, _ = parse_with(rec["body"], rec["boundary"], rec["buffer_size"], dev)
        text = (f"body={rec['body']!r}\nbuffer_size={rec['buffer_size']} short_reads={dev}\n"
                f"expected={rec['expected']}\ngot={got}")
        return _plain(got) != _plain(rec["expected"]), text
    return True, rec.get("traceback", "unit exception")


def _plain(o):
    if isinstance(o, (list, tuple)):
        return [_plain(x) for x in o]
    return o


FINDINGS: dict = {}

LEVEL_TEXT = (
    "Explicit-state exploration of the real MultipartDecoder: for every body of the grammar the complete "
    "arrival-schedule graph (all 2^(n-1) ways to cut the body into receive_data calls, merged by full decoder "
    "state) is explored and every terminal output compared with the ground-truth part list; the real "
    "MultiPartParser is run for every buffer_size and every single short read. Unit tests pin a few splits; "
    "this covers every split of every generated body."
)
LEVEL_NOTE = (
    "Trusted: the harness clone of the decoder (attribute set asserted each run), the ground-truth body "
    "builder and the independent delimiter regex that filters ill-formed payloads. Bodies <= ~260 bytes, "
    "<= 3 parts; preamble/epilogue bytes not compared."
)
TECHNIQUE = "explicit-state model checking of the implementation (arrival-schedule graph) + deviation-bounded short reads"
DESIGN_REF = "DESIGN.md §4 C01"
