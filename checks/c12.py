"""C12 - router redirects stay on the bound host and converge.

E1: rule maps from the C03 grammar extended with defaults twins, alias rules, per-rule strict_slashes /
merge_slashes, non-ASCII literals and method sets; x strict_slashes x merge_slashes x redirect_defaults x
every insertion order; adapters bound with http / https / ws, port, script roots, subdomain; request paths
from the map's own tokens (with repeated slashes anywhere) plus leading '//host' forms, non-ASCII, space
and percent; query arguments as nothing / string / dict / MultiDict.  Every RequestRedirect is checked
(scheme, host, script root, query) and followed to the end.
"""
from __future__ import annotations

import itertools
from urllib.parse import parse_qsl, unquote, urlsplit

from mc import core, gen
from checks import routing_ref as rr
from checks.routing_ref import lit, var

ID = "C12"
LEVEL = "exploration"
RULE = (
    "maps over a 69-rule universe (incl. alias rules with extra defaults of their own and websocket rules next to HTTP rules, every map also asked by a WebSocket client for its first configuration - mixed maps for every configuration): 28 general rules (C03 shapes, per-rule strict_slashes/merge_slashes, non-ASCII "
    "literal, method sets) in all subsets of size 1-2 (3 over a reduced set); three canonicalisation groups - "
    "endpoint d (two defaults rules, converter rule as leaf/branch, alias rules with and without their own "
    "defaults, equal to / different from the canonical rule's), endpoint g (rules with DIFFERENT argument sets: "
    "subset, superset, disjoint, defaults + converter mixed, alias with defaults), defaults pairs around falsy values "
    "(int 0, float 0.0, signed -0, a default that is 0, False / True and None defaults on non-URL arguments; number "
    "witnesses include 0, 0.0 and -0), and rules inside rule factories "
    "(defaults / alias / strict_slashes below EndpointPrefix, Submount, Subdomain) - in all valid subsets of size "
    "1-3 (4 in thorough) and next to a general string / path rule; an alias rule only together with a canonical "
    "rule that can express its arguments; x strict_slashes x merge_slashes x redirect_defaults x every insertion "
    "order; every path of the generated path set (slash forms, non-ASCII / space / percent / '?#' witnesses, "
    "'//evil.com' prefixed forms) x methods is matched on an http adapter at script root '/'; every (path, method) "
    "that redirects is re-run on further bindings (https+port+/app, subdomain, ws and wss+port with websocket rules, "
    "host_matching, default_subdomain, bind_to_environ with host / script / path / query taken from a WSGI environ) "
    "and query forms (none / str / dict / MultiDict, through bind() or match()): all 30 combinations for the map's "
    "first configuration (thorough: every configuration of maps <= 2 rules and of all canonicalisation-group maps), otherwise the plain one plus one "
    "further binding per configuration in turn; each redirect is followed as a server would (percent-decode once, "
    "query string forwarded) until it stops. evaluation = one (map, config, order, binding, path, method, query "
    "form) matched and, if it redirected, checked and followed (n_chains); non-trivial = distinct ones that redirected. "
    "Construction histories: for maps of >= 2 rules, every insertion order x every split point (Map(rules[:k]), one "
    "match, Map.add() of the others with a match in between) must give the first-binding outcomes of the map built "
    "in one go (quick: strict_slashes and merge_slashes on, redirect_defaults on; thorough: the two configurations strict == merge)."
)
ASSUMPTIONS = [
    "redirect_to targets are outside the claim (not generated)",
    "an alias rule without a canonical rule of the same endpoint/arguments is an invalid map (not generated)",
    "all rules of a map live on the subdomain the adapter is bound to (cross-subdomain defaults redirects are "
    "legitimate and not generated)",
    "whether a redirect is issued does not depend on the binding: non-redirecting paths are matched on the "
    "first binding only (coverage reduction, not an oracle assumption)",
    "the chain's end must be a match whose (endpoint, arguments) the C03 reference admits for the original "
    "path; 'same kind' = slash / merge / canonical (defaults or alias)",
]

from werkzeug.datastructures import MultiDict  # noqa: E402
from werkzeug.exceptions import HTTPException  # noqa: E402
import werkzeug.routing as WR  # noqa: E402
from werkzeug.routing import Map, Rule  # noqa: E402
from werkzeug.routing.exceptions import RequestRedirect  # noqa: E402

G, P = ("GET",), ("POST",)


def _universe():
    S = rr.spec
    u = [
        S((lit("a"),), False), S((lit("a"),), True),
        S((lit("b"), var("int")), False), S((lit("b"), var("int")), True),
        S((var("string", "s"),), False), S((var("string", "s"),), True),
        S((var("path", "p"),), False), S((var("path", "p"),), True),
        S((lit("a"), var("path", "p")), True),
        S((var("int(fixed_digits=2)"),), True),
        S((var("string", "y"), var("string")), True),
        S((), True),
        S((lit("é"), var("string", "s")), True),
        S((var("float"),), True), S((var("any(a,b)"),), True), S((var("int"),), True),
        S((var("string", post="s"),), True),
        # per-rule slash settings
        S((lit("ns"),), True, strict=False), S((lit("ns"),), False, strict=False),
        S((lit("st"),), True, strict=True),
        S((lit("nm"), lit("b")), True, merge=False), S((var("string", "s"), lit("nm")), False, merge=False),
        S((lit("b"), var("int")), True, strict=False),
        S((var("string", "s"),), True, strict=True, merge=True),
        # method sets
        S((lit("a"),), True, methods=G), S((lit("a"),), True, methods=P), S((var("string", "s"),), False, methods=P),
        S((var("int"),), True, methods=G),
    ]
    for i, sp in enumerate(u):
        sp["endpoint"] = f"e{i}"
    return u


GENERAL = _universe()
NG = len(GENERAL)


def _groups():
    """Canonicalisation groups: rules sharing an endpoint through defaults / alias.  name -> spec"""
    S = rr.spec
    d = {
        # endpoint "d", argument x
        "D0": S((lit("d"),), True, defaults={"x": 1}, endpoint="d"),
        "D1": S((lit("d"), var("int")), False, endpoint="d"),
        "D1B": S((lit("d"), var("int")), True, endpoint="d"),
        "AL": S((lit("al"), var("int")), False, endpoint="d", alias=True),
        "ALB": S((lit("al"), var("int")), True, endpoint="d", alias=True),
        "D0B": S((lit("dtwo"),), True, defaults={"x": 2}, endpoint="d"),              # a second defaults rule
        "ALD99": S((lit("dl"),), False, defaults={"x": 99}, endpoint="d", alias=True),  # alias with its own defaults,
        "ALD1": S((lit("d1.html"),), False, defaults={"x": 1}, endpoint="d", alias=True),  # different from / equal to D0's
        # endpoint "g": rules with DIFFERENT argument sets ({page} / {page, year} / {zz})
        "G0": S((lit("g"), var("int", "page")), False, endpoint="g"),
        "G1": S((lit("garch"),), True, defaults={"page": 1, "year": 2020}, endpoint="g"),
        "G2": S((lit("g2"), var("int", "page"), var("int", "year")), False, endpoint="g"),
        "G3": S((lit("gall"),), True, defaults={"page": 1}, endpoint="g"),
        "G4": S((lit("gy"), var("int", "year")), True, defaults={"page": 1}, endpoint="g"),
        "G5": S((lit("gz"),), True, defaults={"zz": 5}, endpoint="g"),
        "GA": S((lit("galias"), var("int", "page")), False, defaults={"year": 2020}, endpoint="g", alias=True),
        # the same inside rule factories (Rule.empty() has to carry defaults / alias / strict_slashes along)
        "W0": S((lit("d"),), True, defaults={"x": 1}, endpoint="d", wrap=("endpointprefix", "submount")),
        "W1": S((lit("d"), var("int")), False, endpoint="d", wrap=("endpointprefix", "submount")),
        "WA": S((lit("al"), var("int")), False, endpoint="d", alias=True, wrap=("endpointprefix", "submount")),
        "W2": S((lit("a"),), True, endpoint="w2", wrap=("submount",)),
        "W3": S((lit("b"), var("int")), True, strict=False, endpoint="w3", wrap=("endpointprefix",)),
        "W4": S((var("string", "s"),), True, endpoint="w4", wrap=("subdomain", "submount")),
        # falsy / boundary values flowing through the defaults logic (0, 0.0, -0, False, None): a matched value that
        # is falsy is still a supplied value, a sibling rule with another default must not take the request over
        "Z0": S((lit("zl"),), False, defaults={"page": 1}, endpoint="z"),
        "Z1": S((lit("zl"), var("int", "page")), False, endpoint="z"),
        "ZF0": S((lit("zoom"),), True, defaults={"z": 1.0}, endpoint="zf"),
        "ZF1": S((lit("zoom"), var("float", "z")), True, endpoint="zf"),
        "ZS0": S((lit("zs"),), True, defaults={"n": 1}, endpoint="zs"),
        "ZS1": S((lit("zs"), var("int(signed=True)", "n")), False, endpoint="zs"),
        "ZD0": S((lit("zd"),), True, defaults={"page": 0}, endpoint="zd"),       # the default itself is falsy
        "ZD1": S((lit("zd"), var("int", "page")), False, endpoint="zd"),
        "IT0": S((lit("items"), var("int", "id")), False, defaults={"archived": False}, endpoint="it"),
        "IT1": S((lit("archive"), var("int", "id")), False, defaults={"archived": True}, endpoint="it"),
        "NI0": S((lit("ni"), var("int", "id")), False, defaults={"flag": None}, endpoint="ni"),
        "NI1": S((lit("nj"), var("int", "id")), False, defaults={"flag": 1}, endpoint="ni"),
        # an alias with MORE arguments than its canonical rule: an extra default of its own (the documented
        # '/index.html' next to '/' shape)
        "IX0": S((lit("ix"),), True, endpoint="ix"),
        "IXA": S((lit("ix"), lit("index.html")), False, defaults={"legacy": True}, endpoint="ix", alias=True),
        "IXB": S((lit("ix"), lit("old")), True, defaults={"legacy": True, "v": 0}, endpoint="ix", alias=True),
        "ALX": S((lit("alx"), var("int")), False, defaults={"legacy": True}, endpoint="d", alias=True),
        # websocket rules next to HTTP rules (cross-protocol requests must not be redirected to them)
        "WSB": S((lit("chat"),), True, websocket=True, endpoint="wsb"),
        "WSL": S((lit("chat"),), False, endpoint="wsl"),
        "WSV": S((lit("room"), var("string", "s")), True, websocket=True, endpoint="wsv"),
        "HTB": S((lit("room"), var("string", "s"), lit("ws")), True, endpoint="htb"),
        # slashes that are significant: a rule that keeps a literal '//' (merge_slashes=False), strict branch, asked
        # without its trailing slash (path-converter values with '//' inside come from the general rules' path sets)
        "KS": S((lit("keep"), lit(""), lit("slashes")), True, merge=False, strict=True, endpoint="ks"),
        "KP": S((lit("wiki"), var("path", "p")), True, strict=True, endpoint="kp"),
        # method sets on a defaults chain and on an alias group: canonicalisation has to respect the request method
        "ML0": S((lit("ml"),), True, defaults={"page": 1}, methods=("GET",), endpoint="ml"),
        "ML1": S((lit("ml"), var("int", "page")), False, methods=("GET", "POST"), endpoint="ml"),
        "MLP": S((lit("mlp"),), True, defaults={"page": 2}, methods=("POST",), endpoint="ml"),
        "MLA": S((lit("mlal"), var("int", "page")), False, methods=("GET", "POST"), endpoint="ml", alias=True),
        "MF": S((lit("mform"),), False, methods=("GET",), endpoint="mf"),
        "MS": S((lit("msubmit"),), False, methods=("POST",), endpoint="mf"),
        "MA": S((lit("mform.php"),), False, methods=("GET", "POST"), endpoint="mf", alias=True),
        "MAG": S((lit("mform.html"),), False, methods=("GET",), endpoint="mf", alias=True),
    }
    return d


GROUPS = _groups()
U = GENERAL + list(GROUPS.values())
ID = {name: NG + i for i, name in enumerate(GROUPS)}
D0, D1, D1B, AL, ALB = (ID[n] for n in ("D0", "D1", "D1B", "AL", "ALB"))
DG = [ID[n] for n in ("D0", "D1", "D1B", "AL", "ALB", "D0B", "ALD99", "ALD1", "ALX")]
GG = [ID[n] for n in ("G0", "G1", "G2", "G3", "G4", "G5", "GA")]
WG = [ID[n] for n in ("W0", "W1", "WA", "W2", "W3", "W4")]
SG = [[ID[a], ID[b]] for a, b in (("Z0", "Z1"), ("ZF0", "ZF1"), ("ZS0", "ZS1"), ("ZD0", "ZD1"), ("IT0", "IT1"),
                                  ("NI0", "NI1"), ("IX0", "IXA"), ("IX0", "IXB"), ("WSB", "WSL"), ("WSV", "HTB"),
                                  ("WSB", "WSV"), ("KS", "KP"))]
SG += [[ID[n] for n in grp] for grp in (("ML0", "ML1", "MLP", "MLA"), ("MF", "MS", "MA", "MAG"))]


def _ustr(sp):
    return (rr.full_rule_string(sp) + ("" if sp["methods"] is None else str(list(sp["methods"])))
            + "".join(f" {k}={sp[k]}" for k in ("strict", "merge") if sp[k] is not None)
            + (f" defaults={dict(sp['defaults'])}" if sp["defaults"] else "") + (" alias" if sp["alias"] else "")
            + (" in " + "(".join(sp["wrap"]) if sp["wrap"] else ""))


U_STR = [_ustr(sp) for sp in U]
N = len(U)
REDUCED = [1, 3, 5, 7, 17, 20, D0, D1, AL, 9, 24, 26]
CROSS = [5, 7]


def arguments(sp):
    return {s[3] for s in sp["segs"] if s[0] == "var"} | {k for k, _v in (sp["defaults"] or ())}


def eff_endpoint(sp):
    return ("p." if "endpointprefix" in sp["wrap"] else "") + str(sp["endpoint"])


def can_express(canon, alias) -> bool:
    """Alias canonicalisation is well defined: canon (not an alias, same endpoint) is buildable from what the
    alias rule produces.  Every argument of canon is an argument of the alias; whatever the alias has in addition
    is a default of its own (never a URL variable - that information would be lost); and where canon fixes a value
    by a default, the alias fixes the same value."""
    if canon["alias"] or eff_endpoint(canon) != eff_endpoint(alias):
        return False
    ca, aa = arguments(canon), arguments(alias)
    ad = dict(alias["defaults"] or ())
    if not ca <= aa or not (aa - ca) <= set(ad):
        return False
    return all(k in ad and ad[k] == v for k, v in (canon["defaults"] or ()))


def compatible(r, alias) -> bool:
    """A non-alias rule r of the alias's endpoint never takes the alias's request somewhere else: either r can
    never be chosen for what the alias produces (it has a URL variable the alias lacks, or it fixes by default a
    value the alias fixes differently), or whatever r is chosen for it denotes the same arguments (r's arguments
    are the alias's, minus defaults of the alias's own)."""
    if r["alias"] or eff_endpoint(r) != eff_endpoint(alias):
        return True
    ra, aa = arguments(r), arguments(alias)
    ad, rd = dict(alias["defaults"] or ()), dict(r["defaults"] or ())
    if any(s[0] == "var" and s[3] not in aa for s in r["segs"]):
        return True
    if any(k in ad and ad[k] != v for k, v in rd.items()):
        return True
    return ra <= aa and (aa - ra) <= set(ad)


def valid(combo) -> bool:
    sps = [U[i] for i in combo]
    for a in sps:
        if not a["alias"]:
            continue
        # alias canonicalisation has to be well defined (see can_express) for EVERY method the alias accepts: among
        # the rules that accept that method there is a canonical one, and none takes the request somewhere else
        # (an alias accepting a method no canonical rule accepts redirects to itself - not a valid map)
        for m in (rr.effective_methods(a["methods"]) or ("GET", "POST", "HEAD", "PUT")):
            pool = [r for r in sps if r["methods"] is None or m in rr.effective_methods(r["methods"])]
            if not (any(can_express(c, a) for c in pool) and all(compatible(r, a) for r in pool)):
                return False
    s = set(combo)
    if D1 in s and D1B in s:
        return False                         # the same pattern as leaf and branch under one endpoint: ambiguous build
    if AL in s and ALB in s:
        return False
    return True


def descriptors(tier):
    T = tier == "thorough"
    seen = set()

    def emit(c):
        c = tuple(sorted(c))
        if c not in seen and valid(c):
            seen.add(c)
            return True
        return False

    for i in range(N):
        if emit((i,)):
            yield (i,)
    pair_pool = range(N) if T else range(NG)
    for c in itertools.combinations(pair_pool, 2):
        if emit(c):
            yield tuple(sorted(c))
    for grp in (DG, GG, WG, *SG):
        for k in (2, 3):
            for c in itertools.combinations(grp, k):
                if emit(c):
                    yield tuple(sorted(c))
        for c in itertools.combinations(grp, 2):         # a canonicalisation pair next to a general rule
            for g in CROSS:
                if valid(c) and emit(c + (g,)):
                    yield tuple(sorted(c + (g,)))
        for i in grp:
            for g in CROSS:
                if emit((i, g)):
                    yield tuple(sorted((i, g)))
    red = list(range(NG)) + [D0, D1, D1B, AL, ALB] if T else REDUCED
    for c in itertools.combinations(red, 3):
        if (not T or len(set(c) & set(REDUCED + [D1B, ALB, 12, 21, 22, 23])) >= 2) and emit(c):
            yield tuple(sorted(c))
    if T:
        for c in itertools.combinations(REDUCED, 4):
            if D1 in c and emit(c):
                yield tuple(sorted(c))
        for grp in (DG, GG):
            for c in itertools.combinations(grp, 4):
                if emit(c):
                    yield tuple(sorted(c))


def units(tier):
    return [("maps", c) for c in gen.chunked(descriptors(tier), 3 if tier == "quick" else 4)]


# bindings: (scheme, server_name, script_name, subdomain, rule variant)
BINDINGS = [
    ("http", "example.com", "/", "", "plain"),
    ("https", "example.com:8080", "/app", "", "plain"),
    ("http", "Example.COM", "/app/", "sub", "sub"),
    ("ws", "example.com", "/app/", "", "ws"),
    ("wss", "example.com:8443", "/", "", "ws"),         # secure websocket: redirects built by build() keep wss
    ("http", "example.com", "/app", "", "host"),        # Map(host_matching=True), every rule host="example.com"
    ("https", "example.com", "/", "www", "defsub"),     # Map(default_subdomain="www"), bind(subdomain=None)
    ("https", "example.com:8080", "/app", "sub", "env"),  # bind_to_environ: host, script, path, query from a WSGI environ
]
WS_PLAIN = ("ws", "example.com", "/", "", "wsplain")   # a WebSocket request to the map as declared (mixed protocols)
MAP_KW = {"host": {"host_matching": True}, "defsub": {"default_subdomain": "www"}}
MAP_OF = {"env": "sub"}            # the environ binding uses the map of the "sub" variant
QUERIES = [None, "x=1&y=é", {"x": "a b"}, MultiDict([("k", "1"), ("k", "2"), ("e", "")])]
EXTRA = {rr.STR: ["é b", "a%20b?y#z"], rr.PATH: ["é/x y"], rr.NUM: ["0", "0.0", "-0"]}
HOSTILE = ["//evil.com/a", "//evil.com//a/", "//evil.com", "/\\evil.com/a", "//evil.com/%2e%2e", "/é", "/a%20b", "/a b",
           "///evil.com/a//"]


COMBOS = [(bi, qi) for bi in range(len(BINDINGS)) for qi in range(len(QUERIES))
          if BINDINGS[bi][4] != "env" or qi < 2]          # a WSGI environ carries the query as a string
OTHER = COMBOS[1:]


def via_match(bi, qi):
    return qi > 0 and (bi + qi) % 2 == 1 and BINDINGS[bi][4] != "env"


def wsgi_str(s: str) -> str:
    return s.encode("utf-8").decode("latin-1")


def bind(m, bi, qi, path=None, method=None):
    """The adapter of binding bi / query form qi (the environ binding also carries path and method)."""
    b = BINDINGS[bi]
    q = None if via_match(bi, qi) else QUERIES[qi]
    if b[4] == "env":
        environ = {"wsgi.url_scheme": b[0], "HTTP_HOST": f"{b[3]}.{b[1]}", "SERVER_NAME": "internal", "SERVER_PORT": "8080",
                   "SCRIPT_NAME": b[2], "PATH_INFO": wsgi_str(path), "REQUEST_METHOD": method,
                   "QUERY_STRING": wsgi_str(QUERIES[qi] or "")}
        return m.bind_to_environ(environ, server_name=b[1])
    sub = b[3] if b[4] == "sub" else None
    return m.bind(b[1], script_name=b[2], subdomain=sub, url_scheme=b[0], query_args=q)


def variant(specs, kind):
    if kind in ("plain", "env"):
        return specs if kind == "plain" else variant(specs, "sub")
    out = []
    for sp in specs:
        sp = dict(sp)
        if kind == "sub":
            sp["subdomain"] = "sub"
        elif kind == "ws":
            sp["websocket"] = True
        elif kind == "host":
            sp["host"] = "example.com"
        elif kind == "defsub" and "subdomain" in sp["wrap"]:
            sp["subdomain"] = "www"
        out.append(sp)
    return out


def build_map(specs, order, strict, merge, rd, **kw):
    return Map([rr.to_werkzeug(specs[k], WR) for k in order],
               strict_slashes=strict, merge_slashes=merge, redirect_defaults=rd, **kw)


def q_items(q):
    if q is None:
        return []
    if isinstance(q, str):
        return parse_qsl(q, keep_blank_values=True)
    if isinstance(q, MultiDict):
        return list(q.items(multi=True))
    return list(q.items())


def q_name(q):
    return "none" if q is None else type(q).__name__


def step(ad, path, method, q):
    try:
        ep, args = ad.match(path, method=method, query_args=q)
        return ("match", ep, dict(args))
    except RequestRedirect as e:
        return ("redir", e.new_url)
    except HTTPException as e:
        return ("http", type(e).__name__)
    except Exception as e:  # noqa: BLE001
        return ("exc", type(e).__name__, str(e)[:80])


def hop_kind(cur: str, new: str) -> str:
    c = rr.normalise_path(cur)
    if new == c + "/":
        return "slash"
    if "//" in c and new != c and rr.merged(new) in (rr.merged(c), rr.merged(c) + "/"):
        return "merge"
    return "canonical"


def check_chain(ad, binding, path, method, q, first, acceptable):
    """first = ("redir", url).  Returns (list of problems, chain description)."""
    scheme, server, script, sub, _v = binding
    host = (sub + "." if sub else "") + server.lower()
    root = script.rstrip("/")
    problems = []
    cur_path, cur = path, first
    seen = [rr.normalise_path(path)]
    kinds = []
    want_q = q
    while cur[0] == "redir":
        url = cur[1]
        sp = urlsplit(url)
        if sp.scheme != scheme:
            problems.append("scheme")
        if sp.netloc != host:
            problems.append("host")
        if not sp.path.startswith(root + "/"):
            problems.append("script-root")
            break
        if sp.fragment:
            problems.append("fragment")
        if isinstance(want_q, str):
            if sp.query != want_q:
                problems.append("query")
        elif sorted(parse_qsl(sp.query, keep_blank_values=True)) != sorted(q_items(want_q)):
            problems.append("query")
        new = unquote(sp.path[len(root):])
        kind = hop_kind(cur_path, new)
        if kind in kinds:
            problems.append("same-kind-twice")
        kinds.append(kind)
        nn = rr.normalise_path(new)
        if nn in seen:
            problems.append("loop")
            break
        seen.append(nn)
        if len(kinds) > 3:
            problems.append("too-long")
            break
        # the next request, as a server delivers it: decoded path, query string from the URL
        want_q = sp.query or None
        cur_path = new
        cur = step(ad, new, method, want_q)
    if not problems or problems == ["query"]:
        if cur[0] == "match":
            if (cur[1], rr.freeze(cur[2])) not in acceptable:
                problems.append("final-differs")
        elif cur[0] == "http":
            problems.append("final-" + cur[1])
        elif cur[0] == "exc":
            problems.append("final-exception-" + cur[1])
    return problems, (tuple(kinds), cur[0] if cur[0] != "http" else cur[1], seen)


def fd_explains(ref, pn, method, first_url, binding):
    """The C03 fixed_digits defect seen from C12: a redirect justified only by a fixed_digits rule that
    does not admit the value (digit count), so the target is 404/405."""
    scheme, server, script, sub, _v = binding
    root = script.rstrip("/")
    sp = urlsplit(first_url)
    new = unquote(sp.path[len(root):])
    nn = rr.normalise_path(new)
    strict_keys = {(a.rule.idx, a.kind) for a in ref.admissions(nn)}
    for a in ref.admissions(nn, lenient_fixed=True):
        # the redirect target is admitted only if the digit count of a fixed_digits rule is ignored
        if a.rule.fixed and a.kind in "XL" and (a.rule.idx, a.kind) not in strict_keys and a.rule.method_ok(method):
            return True
    return False


def check_map(combo, R, tier):
    base = [U[i] for i in combo]
    k = len(base)
    has_canon = any(sp["defaults"] or sp["alias"] for sp in base)
    any_methods = any(sp["methods"] is not None for sp in base)
    methods = ("GET", "POST") if any_methods else ("GET",)
    if any_methods and any(i >= NG for i in combo):
        methods = ("GET", "POST", "HEAD")      # canonicalisation groups with method sets: HEAD rides along with GET
    # websocket binding: not for POST rules (werkzeug refuses them)
    # (and not for maps that mix protocols themselves: turning every rule into a websocket rule changes them)
    ws_ok = not any((sp["methods"] and "POST" in sp["methods"]) or sp["websocket"] for sp in base)
    paths = rr.path_set(base, EXTRA, lean=True)
    seenp = set(paths)
    for h in HOSTILE:
        if h not in seenp:
            paths.append(h)
            seenp.add(h)
    for p in list(paths):
        if p.count("/") >= 2 and "//" not in p and len(paths) < 300:
            for h in ("//evil.com" + p, "//evil.com/" + p):
                if h not in seenp:
                    paths.append(h)
                    seenp.add(h)
    names = tuple(U_STR[i] for i in combo)
    R.count("maps")
    for i in combo:
        R.use("rule:" + str(i))
    orders = list(itertools.permutations(range(k)))
    first_combo = True
    rot = 0
    nconf = 0
    is_group = any(i >= NG for i in combo)
    has_ws = any(sp["websocket"] for sp in base)
    wsplain_first = True
    for strict, merge in ((True, True), (False, False), (True, False), (False, True)):
        if is_group and k >= 3 and strict != merge and tier == "quick":
            continue       # quick: canonicalisation groups of 3 rules under (strict, merge) = (on, on) and (off, off) only
        ref = rr.RefMap(base, strict, merge)
        acc_cache: dict = {}
        for rd in ((True, False) if has_canon else (True,)):
            for order in orders:
                ads = {}

                def adapter(bi, qi, path=None, method=None):
                    v = MAP_OF.get(BINDINGS[bi][4], BINDINGS[bi][4])
                    if v not in ads:
                        ads[v] = build_map(variant(base, v), order, strict, merge, rd, **MAP_KW.get(v, {}))
                        R.count("bound_maps")
                    # the query arguments reach the router either through bind() or through match()
                    return bind(ads[v], bi, qi, path, method)

                cfg = (names, tuple(order), strict, merge, rd)
                full = first_combo or (tier == "thorough" and (k <= 2 or (is_group and k <= 3 and strict == merge)))
                do_hist = k >= 2 and ((strict and merge and (k == 2 or is_group)) if tier == "quick" else strict == merge) and rd
                first_combo = False
                ad0 = adapter(0, 0)
                redirecting = []
                sweep = []
                for p in paths:
                    for method in methods:
                        first = step(ad0, p, method, None)
                        sweep.append((p, method, first))
                        R.count("matches")
                        R.ev()
                        R.use("first:" + (first[0] if first[0] != "http" else first[1]))
                        if first[0] == "redir":
                            redirecting.append((p, method, first))
                        elif first[0] == "exc":
                            R.violation("match:exception:" + first[1],
                                        {"kind": "chain", "rules": base, "order": list(order), "strict": strict,
                                         "merge": merge, "rd": rd, "binding": BINDINGS[0], "path": p,
                                         "method": method, "query": None, "problems": ["exception"], "fd": False})
                if has_ws or wsplain_first:
                    # cross-protocol: the same rules asked by a WebSocket client.  A redirect must lead to a rule
                    # of the request's protocol (HTTP rules are not eligible for it, and the other way round)
                    wsplain_first = False
                    adw = ads["plain"].bind(WS_PLAIN[1], script_name=WS_PLAIN[2], url_scheme="ws")
                    R.use("wsplain-sweep")
                    for p in paths:
                        for method in methods:
                            first = step(adw, p, method, None)
                            R.count("matches")
                            R.ev()
                            if first[0] != "redir":
                                continue
                            pn = rr.normalise_path(p)
                            accw = ref.acceptable_results(pn, method, websocket=True)
                            problems, chain = check_chain(adw, WS_PLAIN, p, method, None, first, accw)
                            R.count("chains")
                            R.use("wsplain-redirect")
                            R.nontrivial((cfg, "wsplain", p, method))
                            if problems:
                                R.violation("redirect:" + "+".join(sorted(set(problems))),
                                            {"kind": "chain", "rules": base, "order": list(order), "strict": strict,
                                             "merge": merge, "rd": rd, "binding": WS_PLAIN, "path": p, "method": method,
                                             "query": None, "problems": problems, "first_url": first[1],
                                             "chain": chain, "fd": False})
                if do_hist:
                    # construction histories: Map(rules[:split]), one match, Map.add() of the others one by one
                    # (a match after each) - must behave like the map built in one go
                    b0 = BINDINGS[0]
                    for split in range(k):
                        mh = build_map(base, order[:split], strict, merge, rd)
                        step(mh.bind(b0[1], script_name=b0[2], url_scheme=b0[0]), "/zz", "GET", None)
                        for i in order[split:]:
                            mh.add(rr.to_werkzeug(base[i], WR))
                            step(mh.bind(b0[1], script_name=b0[2], url_scheme=b0[0]), "/zz", "GET", None)
                        adh = mh.bind(b0[1], script_name=b0[2], url_scheme=b0[0])
                        R.use("history")
                        for p, method, want in sweep:
                            got = step(adh, p, method, None)
                            R.count("matches")
                            R.ev()
                            if got != want:
                                R.violation("history:differs-from-one-shot",
                                            {"kind": "history", "rules": base, "order": list(order), "split": split,
                                             "strict": strict, "merge": merge, "rd": rd, "path": p, "method": method,
                                             "one_shot": want, "outcome": got})
                                break
                if not redirecting:
                    continue
                # which (binding, query form) combinations: all of them for the first configuration of the map
                # (and for every configuration of maps <= 2 rules in thorough); otherwise the plain one plus one
                # further combination per redirecting case, taken round-robin from the remaining ones
                adcache = {}
                nconf += 1
                bi_other = 1 + nconf % (len(BINDINGS) - 1)      # one further binding per configuration, in turn
                if BINDINGS[bi_other][4] == "ws" and not ws_ok:
                    bi_other = 1
                for p, method, first0 in redirecting:
                    if full:
                        todo = COMBOS
                    else:
                        rot += 1
                        qs = [c for c in COMBOS if c[0] == bi_other]
                        todo = [COMBOS[0], qs[rot % len(qs)]]
                    pn = rr.normalise_path(p)
                    acc_http = acc_cache.get((pn, method))
                    if acc_http is None:
                        # HTTP request: websocket rules are not eligible (None = the map has none, flag irrelevant)
                        acc_http = acc_cache[(pn, method)] = ref.acceptable_results(pn, method, False if has_ws else None)
                        acc_cache[(pn, method, "ws")] = ref.acceptable_results(pn, method, None)
                    acc_all = acc_cache[(pn, method, "ws")]
                    for bi, qi in todo:
                        if BINDINGS[bi][4] == "ws" and not ws_ok:
                            continue
                        b, q = BINDINGS[bi], QUERIES[qi]
                        acc = acc_all if b[4] == "ws" else acc_http     # variant "ws": every rule is a websocket rule
                        if b[4] == "env":
                            ad = adapter(bi, qi, p, method)      # path, method and query come from the environ
                            first = step(ad, None, None, None)
                            R.count("matches")
                        else:
                            ad = adcache.get((bi, qi))
                            if ad is None:
                                ad = adcache[(bi, qi)] = adapter(bi, qi)
                            if (bi, qi) == (0, 0):
                                first = first0
                            else:
                                first = step(ad, p, method, q if via_match(bi, qi) else None)
                                R.count("matches")
                                R.use("q-via-match" if via_match(bi, qi) else "q-via-bind")
                        if first[0] != "redir":
                            R.violation("redirect:depends-on-binding",
                                        {"kind": "chain", "rules": base, "order": list(order), "strict": strict,
                                         "merge": merge, "rd": rd, "binding": b, "path": p, "method": method,
                                         "query": _enc_q(q), "problems": ["depends-on-binding"], "fd": False})
                            continue
                        problems, chain = check_chain(ad, b, p, method, q, first, acc)
                        if (bi, qi) != (0, 0):
                            R.ev()
                        R.count("chains")
                        R.count("matches", len(chain[0]))
                        R.nontrivial((cfg, bi, p, method, qi))
                        R.outcome((chain[0], chain[1]))
                        for kd in chain[0]:
                            R.use("hop:" + kd)
                        R.use("chain-len:%d" % len(chain[0]))
                        R.use("q:" + q_name(q))
                        R.use("binding:%d" % bi)
                        if p.startswith("//"):
                            R.use("hostile-redirected")
                        if chain[0][:1] == ("merge",) and not problems and \
                                any(a.kind == "M" and not a.rule.merge for a in ref.admissions(pn)):
                            R.count("merge_optout_rule_redirected")   # observed, accepted either way (see routing_ref)
                        if problems:
                            fd = any(x.startswith("final-") for x in problems) and \
                                fd_explains(ref, pn, method, first[1], b)
                            R.violation("redirect:" + "+".join(sorted(set(problems))),
                                        {"kind": "chain", "rules": base, "order": list(order), "strict": strict,
                                         "merge": merge, "rd": rd, "binding": b, "path": p, "method": method,
                                         "query": _enc_q(q), "problems": problems, "first_url": first[1],
                                         "chain": chain, "fd": fd})
                        elif R.counts["chains"] % 5003 == 1:
                            R.sample({"rules": names, "strict_slashes": strict, "merge_slashes": merge,
                                      "redirect_defaults": rd, "binding": b[:4], "path": p, "method": method,
                                      "query": repr(q), "first_redirect": first[1], "hops": chain[0],
                                      "end": chain[1], "visited": chain[2]})


def run_unit(unit, R, tier):
    for combo in unit[1]:
        check_map(combo, R, tier)


def finalize(R, tier):
    need = ({"hop:slash", "hop:merge", "hop:canonical", "chain-len:1", "chain-len:2", "hostile-redirected",
             "first:match", "first:redir", "first:NotFound", "first:MethodNotAllowed", "q-via-match", "q-via-bind", "history", "wsplain-sweep", "wsplain-redirect"}
            | {"q:" + n for n in ("none", "str", "dict", "MultiDict")}
            | {"binding:%d" % i for i in range(len(BINDINGS))}
            | {"rule:%d" % i for i in range(N)})
    missing = need - R.used
    if missing:
        raise core.Broken(f"vacuity: never exercised {sorted(missing)}")
    if R.counts["chains"] < 5000:
        raise core.Broken("vacuity: hardly any redirect was followed")
    return {"bound": "maps <= 2 of 33 rules, <= 3 of 12" if tier == "quick" else "maps <= 2 of 33, <= 3 (restricted), 4 of 12",
            "exhaustive": True,
            "explanation": "every redirect raised for any generated (map, config, order, binding, path, method, query) was "
                           "checked and followed to its end"}


# ------------------------------------------------------------------ replay / findings

def _q(q):
    if isinstance(q, (list, tuple)):
        return MultiDict([tuple(x) for x in q])
    return q


def _enc_q(q):
    return list(q.items(multi=True)) if isinstance(q, MultiDict) else q


def replay(rec):
    if rec.get("kind") == "history":
        specs = [rr.norm_spec(d) for d in rec["rules"]]
        order = [int(i) for i in rec["order"]]
        b0 = BINDINGS[0]
        a = step(build_map(specs, order, rec["strict"], rec["merge"], rec["rd"]).bind(b0[1], script_name=b0[2]),
                 rec["path"], rec["method"], None)
        mh = build_map(specs, order[: int(rec["split"])], rec["strict"], rec["merge"], rec["rd"])
        step(mh.bind(b0[1], script_name=b0[2]), "/zz", "GET", None)
        for i in order[int(rec["split"]):]:
            mh.add(rr.to_werkzeug(specs[i], WR))
            step(mh.bind(b0[1], script_name=b0[2]), "/zz", "GET", None)
        b = step(mh.bind(b0[1], script_name=b0[2]), rec["path"], rec["method"], None)
        return a != b, (f"rules {[rr.full_rule_string(specs[i]) for i in order]}: built in one go -> {a}; "
                        f"Map(first {rec['split']}) + one match + Map.add() of the rest -> {b}")
    if rec.get("kind") != "chain":
        return True, rec.get("traceback", "unit exception")
    specs = [rr.norm_spec(d) for d in rec["rules"]]
    order = [int(i) for i in rec["order"]]
    b = tuple(rec["binding"])
    q = rec["query"]
    if isinstance(q, (list, tuple)):
        q = MultiDict([tuple(x) for x in q])
    v = MAP_OF.get(b[4], b[4]) if b[4] != "wsplain" else "plain"
    m = build_map(variant(specs, v), order, rec["strict"], rec["merge"], rec["rd"], **MAP_KW.get(v, {}))
    qi = next((i for i, x in enumerate(QUERIES) if repr(x) == repr(q)), 0)
    bi = next((i for i, x in enumerate(BINDINGS) if tuple(x) == b), 0)
    vm = via_match(bi, qi)
    has_ws = any(sp["websocket"] for sp in specs)
    wsflag = None if b[4] == "ws" else (True if b[4] == "wsplain" else (False if has_ws else None))
    if b[4] == "wsplain":
        m = build_map(specs, order, rec["strict"], rec["merge"], rec["rd"])
        ad = m.bind(b[1], script_name=b[2], url_scheme="ws")
    else:
        ad = bind(m, bi, qi, rec["path"], rec["method"])
    ref = rr.RefMap(specs, rec["strict"], rec["merge"])
    pn = rr.normalise_path(rec["path"])
    if b[4] == "env":
        first = step(ad, None, None, None)
    else:
        first = step(ad, rec["path"], rec["method"], q if vm else None)

    def show(sp):
        kw = {k: x for k, x in rr.rule_kwargs(sp).items()}
        return rr.full_rule_string(sp) + " " + str(kw) + (" in " + "(".join(sp["wrap"]) if sp["wrap"] else "")
    head = (f"Map({[show(variant(specs, v)[i]) for i in order]}, {MAP_KW.get(v, {})} "
            f"strict_slashes={rec['strict']}, merge_slashes={rec['merge']}, redirect_defaults={rec['rd']})"
            + (f".bind_to_environ(HTTP_HOST={b[3]}.{b[1]}, SCRIPT_NAME={b[2]!r}, QUERY_STRING={q!r}, server_name={b[1]!r})"
               if b[4] == "env" else
               f".bind({b[1]!r}, script_name={b[2]!r}, subdomain={(b[3] if b[4] == 'sub' else None)!r}, url_scheme={b[0]!r}, query_args={q!r})")
            + f".match({rec['path']!r}, method={rec['method']!r}{', query_args=' + repr(q) if vm else ''})"
            f"{'   # query_args were given to match(), not bind()' if vm else ''}\n")
    if first[0] != "redir":
        bad = "depends-on-binding" in rec["problems"] or "exception" in rec["problems"]
        return bad and first[0] in ("exc", "http", "match"), head + f"first = {first}"
    accr = ref.acceptable_results(pn, rec["method"], wsflag)
    problems, chain = check_chain(ad, b, rec["path"], rec["method"], q, first, accr)
    text = head + (f"first redirect = {first[1]}\nhops = {chain[0]} visited = {chain[2]} end = {chain[1]}\n"
                   f"acceptable end results = {sorted(accr)}\nproblems = {problems}")
    return bool(problems), text


FINDINGS = {
    "C12-fixed-digits-redirect-to-404":
        lambda rec: rec.get("kind") == "chain" and rec.get("fd") is True
        and all(str(x) in ("final-NotFound", "final-MethodNotAllowed") for x in rec.get("problems", ["?"])),
}

LEVEL_TEXT = (
    "Small-scope exhaustive enumeration of rule maps x configurations x insertion orders x bindings x paths x "
    "query forms; every RequestRedirect the real MapAdapter raises is checked for scheme, host, script root and "
    "query and is followed through the real matcher until it ends, the end compared with the reference matcher's "
    "result for the original path. The tests pin about a dozen redirects; loops and off-host targets come from "
    "interactions between rules and slash settings, which is what the enumeration covers."
)
LEVEL_NOTE = (
    "Trusted: checks/routing_ref.py for 'what the original path denotes', urllib.parse for splitting the redirect "
    "URL. Bounded: maps <= 3 rules (4 in thorough over a reduced universe), one alphabet of hostile prefixes; "
    "application-supplied redirect_to is outside the claim; non-redirecting paths are matched on one binding only."
)
TECHNIQUE = "bounded exhaustive enumeration of maps x bindings x paths; every router redirect checked and followed"
DESIGN_REF = "DESIGN.md §4 C12"
