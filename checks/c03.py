"""C03 - URL matching agrees with the declarative meaning of the rules.

E1: every map of 1-2 rules (3 over a reduced universe; 4-6 over structured families in thorough) from a
rule grammar, x strict_slashes x merge_slashes at map level, x every insertion order, x a path set
generated from the map's own literals and converter witnesses / near-misses with trailing, doubled,
tripled and leading slashes, x request methods.  Oracle: checks/routing_ref.py (one regex per rule
compiled from the grammar, value validation, documented partial priority order).
"""
from __future__ import annotations

import itertools

from mc import core, gen
from checks import routing_ref as rr
from checks.routing_ref import lit, var

ID = "C03"
LEVEL = "exploration"
RULE = (
    "maps = all subsets of size 1-2 of a 43-shape rule universe (literal / <conv:name> with optional "
    "in-segment prefix or suffix / optional final <path:name>, 1-2 segments, leaf and branch, '/' itself) "
    "x method assignments, all size-3 subsets of a reduced universe, size 4 (thorough: 4-6) subsets of structured "
    "6-rule families; plus an extension universe of rule OPTIONS and declaration forms: per-rule strict_slashes / "
    "merge_slashes overrides, websocket rules, defaults, every rule wrapped in Submount / EndpointPrefix / "
    "Subdomain / RuleTemplate and nestings (also with the options set), converter argument forms (signed, min/max, "
    "maxlength, quoted any-items, fixed_digits=3; pairs of rules using one converter with the same option names and "
    "different values) - each alone and paired with plain base shapes (thorough: also with "
    "each other); each map x strict_slashes x merge_slashes x EVERY insertion order; paths = every token sequence "
    "over per-position tokens derived from the map's own segments (witnesses and near-misses of each converter, "
    "the literals, a miss token), each with trailing '/', '//', '///', doubled / tripled inner slashes, leading "
    "'//' and a line feed at the end of each segment when some rule comes near it; methods GET/POST/PUT when any "
    "rule restricts methods; WebSocket and plain requests when any rule is a websocket rule. non-trivial = distinct "
    "(rule set, config, path, method, request kind) for which at least two admissions exist or the outcome is a "
    "redirect or 405. Construction histories: for maps of 2-3 rules over the reduced universe (quick: strict+merge "
    "on; thorough: pairs under every config, triples under strict == merge, pairs of extension rules) every insertion order x every split point k - "
    "Map(rules[:k]), one match, Map.add() of the others one by one with a match in between - must give the "
    "outcomes of the map built in one go."
)
ASSUMPTIONS = [
    "the adapter's leading-slash normalisation ('/' + path.lstrip('/')) is part of the documented interface",
    "a leaf <path:p> admits values ending in '/' (pinned by tests/test_routing.py::test_merge_slashes_match); "
    "a branch <path:p>/ does not (the trailing slashes are the rule's: merged -> redirect, else not found)",
    "merged-slash admission is demanded for doubled slashes only; runs of >= 3 slashes may also be 404 "
    "(statement and quantifier speak of 'doubled' slashes) - counted as n_long_run_404 in this evidence",
    "405 is demanded when a rule admits the path itself for another method (exactly, or a non-strict leaf rule "
    "asked with a trailing slash); an admission for ANOTHER method that exists only through a slash redirect, "
    "merging, or a non-strict branch rule asked without its slash may give 404 or 405 (observed: 404)",
    "a non-strict branch rule asked with ONE extra trailing slash ('/a/' as '/a//') is accepted either way",
    "rules incomparable under the documented order may be resolved by insertion order",
    "websocket rules are eligible only for WebSocket requests and vice versa (Rule docs); a path admitted only by "
    "rules for the other kind of request gives WebsocketMismatch (documented) - or 405 when a method also "
    "mismatches, or 404 when the admission needs a slash redirect / merging (statement silent)",
    "a rule factory changes exactly what its name says (URL prefix, endpoint prefix, subdomain, template "
    "substitution) and keeps every other option of the rule",
    "two rules with the same pattern for the same requests but different options are not generated (the second "
    "is unreachable; which options apply is undefined)",
    "outside the domain: several path converters, path converter before a non-final segment, '//' in rule "
    "strings, variable subdomains / host matching (C04, C12), custom converters, redirect_to",
]

import werkzeug.routing as WR  # noqa: E402
from werkzeug.exceptions import MethodNotAllowed, NotFound  # noqa: E402
from werkzeug.routing import Map, Rule  # noqa: E402
from werkzeug.routing.exceptions import RequestRedirect, WebsocketMismatch  # noqa: E402

UU = "12345678-1234-5678-1234-567812345678"

# ------------------------------------------------------------------ rule universe

SINGLE = [
    lit("a"), lit("b"), lit("12"),
    var("string"), var("string(length=2)"), var("string(minlength=2)"),
    var("int"), var("int(fixed_digits=2)"), var("float"), var("any(a,b)"), var("uuid"),
    var("int", pre="p"), var("string", post="s"),
]


SINGLE_CONVS = sorted({s[2] for s in SINGLE if s[0] == "var"})


def _universe():
    shapes = [((), True)]                                     # "/"
    for s in SINGLE:
        for trail in (False, True):
            shapes.append(((s,), trail))
    for s1 in (lit("a"), var("string", "y")):
        for s2 in (lit("b"), var("int"), var("string")):
            for trail in (False, True):
                shapes.append(((s1, s2), trail))
    for trail in (False, True):
        shapes.append(((var("path"),), trail))
        shapes.append(((lit("a"), var("path")), trail))
    return shapes


SHAPES = _universe()
SHAPE_STR = [rr.rule_string(rr.spec(s, t)) for s, t in SHAPES]
IDX = {s: i for i, s in enumerate(SHAPE_STR)}

REDUCED_QUICK = ["/a", "/a/", "/<string:x>", "/<string:x>/", "/<int:x>", "/<int:x>/",
                 "/<int(fixed_digits=2):x>", "/<path:x>", "/<path:x>/", "/a/<int:x>",
                 "/<string:y>/b/", "/<string:y>/<string:x>"]
REDUCED_THOROUGH = REDUCED_QUICK + ["/", "/12", "/<float:x>", "/<any(a,b):x>/", "/<string(length=2):x>",
                                    "/p<int:x>", "/<string:x>s/", "/a/<path:x>", "/a/b", "/<string:y>/<int:x>/"]

FAMILIES = {
    "conv": ["/<string:x>", "/<int:x>", "/<float:x>", "/<any(a,b):x>", "/<uuid:x>", "/<path:x>"],
    "prefix": ["/a/b", "/a/<int:x>", "/a/<string:x>", "/<string:y>/b", "/<string:y>/<int:x>", "/<string:y>/<string:x>"],
    "twins": ["/a", "/a/", "/<int:x>", "/<int:x>/", "/<string:x>", "/<string:x>/"],
    "mixed": ["/<int:x>/", "/<string:x>", "/<path:x>/", "/a/<path:x>", "/<string:y>/<int:x>", "/12"],
}

WITNESS, MISS, seg_tokens, path_set = rr.WITNESS, rr.MISS, rr.seg_tokens, rr.path_set


# method assignments per map size (None = any method)
G, P = ("GET",), ("POST",)
ASSIGN = {
    ("quick", 1): [(None,), (G,)],
    ("thorough", 1): [(None,), (G,), (P,)],
    ("quick", 2): [(None, None), (G, P), (G, None)],
    ("thorough", 2): [(None, None), (G, P), (G, None), (None, G), (G, G), (P, G)],
    ("quick", 3): [(None, None, None), (G, P, None)],
    ("thorough", 3): [(None, None, None), (G, P, None), (None, G, P), (G, G, P)],
}
CONFIGS = [(True, True), (True, False), (False, True), (False, False)]  # (strict, merge)


# ------------------------------------------------------------------ extension universe (round 2)
# Rule *options* and declaration forms the anchored code distinguishes: per-rule strict_slashes / merge_slashes
# overrides, websocket rules (and WebSocket requests), defaults, rule factories (Submount, EndpointPrefix,
# Subdomain, RuleTemplate and nestings - they re-create the rule through Rule.empty() / Rule(...)), and further
# converter argument forms (signed, min/max, maxlength, quoted any-items).

EXT_BASE = ["/a/", "/<string:x>", "/<int:x>/", "/<path:x>/", "/a/<int:x>", "/a", "/<string:x>/", "/<string:y>/b/"]
EXT_WRAPS = [("submount",), ("endpointprefix",), ("subdomain",), ("template",), ("submount", "submount"),
             ("endpointprefix", "submount"), ("template", "submount")]
EXT_OPTS = [dict(strict=True), dict(strict=False), dict(merge=False), dict(websocket=True),
            dict(defaults={"k": 7})]
EXT_CONVS = ["int(signed=True)", "int(min=2,max=9)", "string(maxlength=2)", "float(min=1.0,max=9.5)", 'any(a,"b-c")',
             "int(fixed_digits=3)"]


def _ext_universe(nbase):
    out = []
    for bs in EXT_BASE[:nbase]:
        segs, trail = SHAPES[IDX[bs]]
        for o in EXT_OPTS:
            out.append(rr.spec(segs, trail, **o))
        for w in EXT_WRAPS:
            out.append(rr.spec(segs, trail, wrap=w))
            for o in EXT_OPTS[1:4]:                     # strict=False, merge=False, websocket=True inside a factory
                out.append(rr.spec(segs, trail, wrap=w, **o))
    for c in EXT_CONVS:
        out.append(rr.spec((var(c),), False))
        out.append(rr.spec((var(c),), True))
        out.append(rr.spec((lit("a"), var(c)), False))
    return out


EXT = _ext_universe(len(EXT_BASE))
_q = _ext_universe(5)
EXT_QUICK_IDS = [i for i, sp in enumerate(EXT) if sp in _q]      # quick: the first 5 base shapes (subset of thorough)


def _validated(sp):
    """has a converter whose value validation goes beyond its character pattern (range)"""
    return any(s[0] == "var" and rr.CONVS[s[2]][3] is not None for s in sp["segs"])


def ext_descriptors(tier):
    """("ext", (ext index | -1-base index, ...), methods)"""
    T = tier == "thorough"
    nb = len(EXT_BASE) if T else 5          # partners of an extension rule: plain base shapes
    ext_ids = list(range(len(EXT))) if T else EXT_QUICK_IDS
    for i in ext_ids:
        yield ("ext", (i,), (None,))
        if EXT[i]["websocket"] or _validated(EXT[i]) or T:
            yield ("ext", (i,), (G,))
    for i in ext_ids:
        for b in range(nb):
            if rr.full_rule_string(EXT[i]) == EXT_BASE[b] and not EXT[i]["websocket"]:
                continue        # the same pattern twice for the same requests: the second rule is unreachable (not a map
                                # anybody means; which of the two sets of options applies is not defined)
            yield ("ext", (i, -1 - b), (None, None))
            if EXT[i]["websocket"] or _validated(EXT[i]) or T:
                yield ("ext", (i, -1 - b), (G, P))
                yield ("ext", (i, -1 - b), (None, P))
    ws_plain = [j for j in ext_ids if EXT[j]["websocket"] and not EXT[j]["wrap"]][:2]
    for i in ext_ids:
        if _validated(EXT[i]):          # a converter that rejects values next to a websocket rule
            for j in ws_plain:
                yield ("ext", (i, j), (None, None))
    if T:
        for i, j in itertools.combinations(EXT_QUICK_IDS, 2):
            if rr.full_rule_string(EXT[i]) == rr.full_rule_string(EXT[j]) and EXT[i]["websocket"] == EXT[j]["websocket"]:
                continue
            yield ("ext", (i, j), (None, None))


# the same converter with the same option NAMES and different VALUES in one map (converters must not be shared
# between rules by option names): at different literal prefixes, and competing at the same position
OPT_VALUE_PAIRS = [("string(length=2)", "string(length=3)"), ("string(minlength=2)", "string(minlength=3)"),
                   ("string(maxlength=2)", "string(maxlength=3)"), ("int(fixed_digits=2)", "int(fixed_digits=3)"),
                   ("int(min=2,max=9)", "int(min=10,max=99)"), ("any(a,b)", 'any(a,"b-c")')]


def _raw_maps():
    out = []
    for c1, c2 in OPT_VALUE_PAIRS:
        out.append([rr.spec((lit("a"), var(c1)), False), rr.spec((lit("b"), var(c2, "y")), False)])
        out.append([rr.spec((var(c1),), False), rr.spec((var(c2, "y"),), True)])
        out.append([rr.spec((lit("a"), var(c1)), True), rr.spec((var("string", "s"), var(c2, "y")), False)])
    return out


RAW_MAPS = _raw_maps()


def raw_descriptors(tier):
    for i in range(len(RAW_MAPS)):
        yield ("raw", i, (None, None))
        yield ("raw", i, (G, P))


def ext_specs(desc):
    if desc[0] == "raw":
        out = []
        for k, (sp, ms) in enumerate(zip(RAW_MAPS[desc[1]], desc[2])):
            sp = dict(sp)
            sp["methods"] = ms
            sp["endpoint"] = f"e{k}"
            out.append(sp)
        return out
    _tag, ids, methods = desc
    out = []
    for k, (i, ms) in enumerate(zip(ids, methods)):
        if i >= 0:
            sp = dict(EXT[i])
        else:
            segs, trail = SHAPES[IDX[EXT_BASE[-1 - i]]]
            sp = rr.spec(segs, trail)
        sp["methods"] = ms
        sp["endpoint"] = f"e{k}"
        out.append(sp)
    return out


def map_descriptors(tier):
    """Yield (shape index tuple, methods tuple), simplest first."""
    T = tier == "thorough"
    n = len(SHAPES)
    for i in range(n):
        for ms in ASSIGN[(tier, 1)]:
            yield (i,), ms
    red2 = {IDX[x] for x in REDUCED_THOROUGH}
    for i, j in itertools.combinations(range(n), 2):
        for q, ms in enumerate(ASSIGN[(tier, 2)]):
            if not T and q >= 2 and not (i in red2 or j in red2):
                continue                   # quick: mixed any-method / restricted pairs over the reduced universe only
            yield (i, j), ms
    for i in range(n):                     # the same pattern twice, split by method
        yield (i, i), (G, P)
        if T:
            yield (i, i), (G, None)
    red = [IDX[s] for s in (REDUCED_THOROUGH if T else REDUCED_QUICK)]
    for combo in itertools.combinations(red, 3):
        for ms in ASSIGN[(tier, 3)]:
            yield combo, ms
    fams = FAMILIES
    sizes = (4, 5, 6) if T else (4,)
    for _name, fam in fams.items():
        ids = [IDX[s] for s in fam]
        for k in sizes:
            for combo in itertools.combinations(ids, k):
                yield combo, (None,) * k
                if T:
                    yield combo, tuple((G, P, None)[q % 3] for q in range(k))


def units(tier):
    small, big = [], []
    for d in map_descriptors(tier):
        (big if len(d[0]) >= 4 else small).append(d)
    out = [("maps", c) for c in gen.chunked(small, 8 if tier == "quick" else 16)]
    out += [("maps", c) for c in gen.chunked(ext_descriptors(tier), 8 if tier == "quick" else 16)]
    out += [("maps", c) for c in gen.chunked(raw_descriptors(tier), 6)]
    # a map of k rules has k! insertion orders: split the orders of big maps over several units
    for d in big:
        k = len(d[0])
        nsh = {4: 1, 5: 4, 6: 24}[k]
        for sh in range(nsh):
            out.append(("orders", d, nsh, sh))
    return out


# ------------------------------------------------------------------ specs / paths

def specs_for(desc):
    if desc[0] in ("ext", "raw"):
        return ext_specs(desc)
    shapes, methods = desc
    return [rr.spec(SHAPES[si][0], SHAPES[si][1], methods=ms, endpoint=f"e{k}")
            for k, (si, ms) in enumerate(zip(shapes, methods))]


def build_adapter(specs, order, strict, merge):
    m = Map([rr.to_werkzeug(specs[k], WR) for k in order], strict_slashes=strict, merge_slashes=merge)
    return m.bind("h")


def run_impl(ad, p, method, websocket=None):
    try:
        rule, args = ad.match(p, method=method, return_rule=True, websocket=websocket)
        return ("match", rule.endpoint, dict(args))
    except WebsocketMismatch:
        return ("wsmismatch",)
    except RequestRedirect as e:
        return ("redir", e.new_url)
    except MethodNotAllowed as e:
        return ("405", frozenset(e.valid_methods))
    except NotFound:
        return ("404",)
    except Exception as e:  # noqa: BLE001 - anything else is a finding in itself
        return ("exc", type(e).__name__)


# ------------------------------------------------------------------ known-defect explanation

FD_VERDICTS = {"404-but-admitted", "404-should-405", "405-but-admitted", "405-no-rule", "405-methods-extra",
               "405-methods-missing", "404-should-be-websocket-mismatch",
               "websocket-mismatch-unjustified", "websocket-mismatch-but-admitted",
               "redirect-unjustified", "redirect-wrong-target"}


def fd_late(ref: rr.RefMap, pn: str, method: str, verdict: str, outcome, ws=None):
    """Is the violation what NumberConverter's *late* fixed_digits validation produces?

    The matcher selects a rule by the converter regex (\\d+) and validates the digit count only after the
    rule has been chosen (no backtracking).  So: there must be a fixed_digits rule f that admits the path
    (directly, with a slash added, or merged) only if the digit count is ignored, and the observed outcome
    must be what that mechanism yields: either the outcome is the correct one for the map in which f's
    pattern is plain \\d+ (redirects, 405 method lists - these are computed before the validation), or it
    is a 404/405 and f is a candidate for this method that no really-admitting rule strictly beats (f is
    chosen, fails validation, NoMatch is raised with whatever methods were collected so far)."""
    strict_keys = {(a.rule.idx, a.kind, a.target) for a in ref.admissions(pn)}
    late = [a for a in ref.admissions(pn, lenient_fixed=True)
            if (a.rule.idx, a.kind, a.target) not in strict_keys and a.rule.fixed]
    if not late or verdict not in FD_VERDICTS:
        return [(a.rule.string, a.kind) for a in late], False
    info = [(a.rule.string, a.kind) for a in late]
    lex = ref.expect(pn, method, lenient_fixed=True, websocket=ws)
    if rr.judge(lex, outcome) is None:
        return info, True
    if outcome[0] in ("404", "405"):
        mine_def = [a for a in ref.admissions(pn) if a.rule.method_ok(method) and a.definite and a.kind != "M"]
        for a in late:
            f = a.rule
            if f.method_ok(method) and a.kind in "XL" and not any(rr.better(d.rule, f) is True for d in mine_def):
                if outcome[0] == "404" or set(outcome[1]) <= set(lex.hi405):
                    return info, True
    return info, False


# ------------------------------------------------------------------ unit

def dropped_by_factory(specs):
    """The specs as werkzeug's rule factories really re-create them at present: Rule.empty() (Submount,
    Subdomain, EndpointPrefix) forgets merge_slashes and websocket, RuleTemplate additionally alias/host."""
    out, changed = [], False
    for sp in specs:
        if sp.get("wrap") and (sp["merge"] is not None or sp["websocket"]):
            sp = dict(sp, merge=None, websocket=False)
            changed = True
        out.append(sp)
    return out, changed


def check_map(desc, R, tier, orders=None):
    specs = specs_for(desc)
    k = len(specs)
    paths = path_set(specs)
    any_methods = any(sp["methods"] is not None for sp in specs)
    methods = ("GET", "POST", "PUT") if any_methods else ("GET",)
    # the request's websocket flag matters only if some rule is a websocket rule
    wsflags = (False, True) if any(sp["websocket"] for sp in specs) else (None,)
    if orders is None:
        orders = list(itertools.permutations(range(k)))
    R.count("maps")
    R.count("paths", len(paths))
    strings = tuple(rr.full_rule_string(sp) for sp in specs)
    for sp in specs:
        for s in sp["segs"]:
            R.use("seg:" + (s[0] if s[0] == "lit" else s[2] + ("+affix" if s[1] or s[4] else "")))
        R.use("leaf" if not sp["trail"] else "branch")
        R.use("methods" if sp["methods"] else "anymethod")
        for w in sp["wrap"]:
            R.use("wrap:" + w)
        if len(sp["wrap"]) > 1:
            R.use("wrap:nested")
        for opt in ("strict", "merge"):
            if sp[opt] is not None:
                R.use(f"rule-{opt}:{sp[opt]}")
        if sp["websocket"]:
            R.use("rule-websocket")
        if sp["defaults"]:
            R.use("rule-defaults")
    R.use(f"size:{k}")
    local_out: set = set()
    nev = 0
    nev_box = [0]
    for strict, merge in CONFIGS:
        ref = rr.RefMap(specs, strict, merge)
        cases = []
        for p in paths:
            pn = rr.normalise_path(p)
            for method in methods:
                for ws in wsflags:
                    ex = ref.expect(pn, method, websocket=ws)
                    note_expectation(R, ex, (strings, desc[-1], strict, merge, pn, method, ws))
                    cases.append([p, pn, method, ex, None, ws])
        one_shot = {}
        for oi, order in enumerate(orders):
            ad = build_adapter(specs, order, strict, merge)
            R.count("bound_maps")
            outs = one_shot[order] = []
            for case in cases:
                p, pn, method, ex, first, ws = case
                out = run_impl(ad, p, method, ws)
                outs.append(out)
                nev += 1
                verdict = rr.judge(ex, out)
                okind = out[0]
                if okind == "redir":
                    okind = "redir-slash" if out[1].endswith(pn + "/") else "redir-merge"
                elif okind == "404" and ex.long_run and verdict is None and ex.mine:
                    R.count("long_run_404")
                local_out.add((okind, verdict))
                # independence of insertion order wherever the documented order decides
                if first is None:
                    case[4] = out
                elif first != out:
                    if ex.decided and verdict is None and rr.judge(ex, first) is None:
                        verdict = "order-dependent-though-decided"
                    else:
                        R.count("order_dependent_undecided")
                        R.use("oracle:order-may")
                if verdict is not None:
                    info, explains = fd_late(ref, pn, method, verdict, out, ws)
                    R.violation(
                        "match:" + verdict,
                        {"kind": "route", "rules": specs, "order": list(order), "strict": strict,
                         "merge": merge, "path": p, "method": method, "websocket": ws, "outcome": out,
                         "verdict": verdict, "expected": ex.describe(),
                         "rule_strings": [strings[i] for i in order],
                         "fd_late": info, "fd_explains": explains,
                         "factory_explains": factory_explains(specs, strict, merge, pn, method, ws, out)},
                    )
        if history_wanted(desc, tier, strict, merge):
            check_history(specs, orders, strict, merge, cases, one_shot, R, nev_box)
        if k >= 2 and R.counts["maps"] % 41 == 1 and strict and merge:
            for case in cases:
                if len(case[3].adms) >= 2 and case[4] is not None and case[4][0] != "404":
                    R.sample({"rules": strings, "methods": desc[-1], "strict_slashes": strict, "merge_slashes": merge,
                              "insertion_orders": len(orders), "path": case[0], "method": case[2], "websocket": case[5],
                              "observed_first_order": case[4], "allowed": case[3].describe()})
                    break
    R.ev(nev + nev_box[0])
    for okind, verdict in local_out:
        R.outcome((okind, verdict))
        R.use("out:" + okind)


# construction histories: the same rules in the same order, but the map is built in steps - Map(rules[:k]), used
# once (bind + match forces Map.update()), then Map.add() for the rest one by one with a match in between.  The
# result must be the map built in one go.
HIST_SHAPES = None


def history_wanted(desc, tier, strict, merge):
    global HIST_SHAPES
    if HIST_SHAPES is None:
        HIST_SHAPES = {IDX[x] for x in REDUCED_THOROUGH}
    if desc[0] == "raw":
        return strict and merge
    if desc[0] == "ext":
        return tier == "thorough" and strict and merge and len(desc[1]) == 2
    shapes, methods = desc
    k = len(shapes)
    if k < 2 or k > 3 or not all(i in HIST_SHAPES for i in shapes):
        return False
    if tier == "thorough":
        return k == 2 or (all(m is None for m in methods) and strict == merge)
    if not (strict and merge):
        return False
    if k == 3:
        return all(m is None for m in methods) and all(SHAPE_STR[i] in REDUCED_QUICK for i in shapes)
    return methods in ((None, None), (G, P))


def build_incrementally(specs, order, split, strict, merge, probe="/zz"):
    m = Map([rr.to_werkzeug(specs[i], WR) for i in order[:split]], strict_slashes=strict, merge_slashes=merge)
    run_impl(m.bind("h"), probe, "GET")              # the map is in use: Map.update() has run
    for i in order[split:]:
        m.add(rr.to_werkzeug(specs[i], WR))
        run_impl(m.bind("h"), probe, "GET")
    return m.bind("h")


def check_history(specs, orders, strict, merge, cases, one_shot, R, nev_box):
    strings = [rr.full_rule_string(sp) for sp in specs]
    for order in orders:
        want = one_shot[order]
        for split in range(len(order)):
            ad = build_incrementally(specs, order, split, strict, merge)
            R.count("histories")
            R.use("history:split%d" % split)
            for case, exp_out in zip(cases, want):
                p, pn, method, ex, _first, ws = case
                out = run_impl(ad, p, method, ws)
                nev_box[0] += 1
                if out != exp_out:
                    R.violation("history:differs-from-one-shot",
                                {"kind": "history", "rules": specs, "order": list(order), "split": split,
                                 "strict": strict, "merge": merge, "path": p, "method": method, "websocket": ws,
                                 "outcome": out, "one_shot": exp_out, "rule_strings": [strings[i] for i in order]})
                    break


def factory_explains(specs, strict, merge, pn, method, ws, out):
    """Is the outcome exactly what the map means once the options a rule factory forgets are dropped?"""
    alt, changed = dropped_by_factory(specs)
    if not changed:
        return False
    if ws is not None and not any(sp["websocket"] for sp in alt):
        pass                                   # the request flag still matters: all rules are plain now
    return rr.judge(rr.RefMap(alt, strict, merge).expect(pn, method, websocket=ws), out) is None


def note_expectation(R, ex, key):
    """Vacuity tokens / non-triviality, once per (rule set, config, path, method)."""
    n_adm = len(ex.adms)
    if n_adm >= 2 or ex.ok_redirect or ex.allow_405:
        R.nontrivial(key)
    kinds = {a.kind for a in ex.mine}
    for kd in kinds:
        R.use("adm:" + kd)
    if any(not a.definite for a in ex.adms):
        R.use("oracle:may-admission")
    if len({a.key for a in ex.mine if a.kind in "XL"}) > len(ex.ok_match):
        R.use("oracle:dominated-candidate")
    if ex.other and not ex.mine:
        R.use("oracle:405-region")
        if not ex.lo405:
            R.use("oracle:405-or-404-may")
    if len(ex.ok_match) + len(ex.ok_redirect) > 1:
        R.use("oracle:incomparable")
    if ex.allow_wsm:
        R.use("oracle:websocket-mismatch")
    if ex.decided:
        R.count("decided")


def run_unit(unit, R, tier):
    if unit[0] == "maps":
        for desc in unit[1]:
            check_map(desc, R, tier)
    else:
        _k, desc, nsh, sh = unit
        orders = [o for i, o in enumerate(itertools.permutations(range(len(desc[0])))) if i % nsh == sh]
        check_map(desc, R, tier, orders)


def finalize(R, tier):
    need = ({"out:match", "out:redir-slash", "out:redir-merge", "out:405", "out:404",
            "adm:X", "adm:L", "adm:R", "adm:M",
            "oracle:may-admission", "oracle:dominated-candidate", "oracle:405-region",
            "oracle:405-or-404-may", "oracle:incomparable", "oracle:order-may",
            "leaf", "branch", "methods", "anymethod", "size:1", "size:2", "size:3", "size:4",
            "seg:lit", "seg:path", "out:wsmismatch", "oracle:websocket-mismatch", "rule-websocket", "rule-defaults",
            "rule-strict:True", "rule-strict:False", "rule-merge:False", "wrap:nested",
            "history:split0", "history:split1", "history:split2"}
            | {"wrap:" + w for w in rr.WRAPPERS} | {"seg:" + c for c in EXT_CONVS}
            | {"seg:" + c for c in SINGLE_CONVS} | {"seg:int+affix", "seg:string+affix"})
    if tier == "thorough":
        need |= {"size:5", "size:6"}
    missing = need - R.used
    if missing:
        raise core.Broken(f"vacuity: never exercised {sorted(missing)}")
    if R.counts["decided"] < 1000:
        raise core.Broken("vacuity: the priority order hardly ever decided")
    return {
        "bound": ("all maps <=2 of 43 shapes, <=3 of 12, size-4 subsets of 4 families, 183 extension rules alone and "
                  "with 5 base shapes" if tier == "quick" else
                  "all maps <=2 of 43 shapes, <=3 of 22, size 4-6 subsets of 4 families, 282 extension rules alone, "
                  "with 8 base shapes and (183 of them) with each other") + "; every insertion order",
        "exhaustive": True,
        "explanation": "every (map, config, insertion order, path, method) of the stated grammar was evaluated "
                       "against the reference; nothing sampled",
    }


# ------------------------------------------------------------------ replay / findings

def replay(rec):
    if rec.get("kind") == "history":
        specs = [rr.norm_spec(d) for d in rec["rules"]]
        order = tuple(int(i) for i in rec["order"])
        ws = rec.get("websocket")
        a = run_impl(build_adapter(specs, order, rec["strict"], rec["merge"]), rec["path"], rec["method"], ws)
        b = run_impl(build_incrementally(specs, order, int(rec["split"]), rec["strict"], rec["merge"]),
                     rec["path"], rec["method"], ws)
        names = [rr.full_rule_string(specs[i]) for i in order]
        return a != b, (f"rules (in this order) {names}, strict_slashes={rec['strict']}, merge_slashes={rec['merge']}\n"
                        f"Map(all rules).match({rec['path']!r}, {rec['method']!r}) = {a}\n"
                        f"Map(first {rec['split']} rules), one match, then Map.add() for the others (a match after each): {b}")
    if rec.get("kind") != "route":
        return True, rec.get("traceback", "unit exception")
    specs = [rr.norm_spec(d) for d in rec["rules"]]
    order = [int(i) for i in rec["order"]]
    ref = rr.RefMap(specs, rec["strict"], rec["merge"])
    ad = build_adapter(specs, order, rec["strict"], rec["merge"])
    pn = rr.normalise_path(rec["path"])
    ws = rec.get("websocket")
    ex = ref.expect(pn, rec["method"], websocket=ws)
    out = run_impl(ad, rec["path"], rec["method"], ws)
    verdict = rr.judge(ex, out)
    def show(sp):
        kw = {k: v for k, v in rr.rule_kwargs(sp).items() if k != "endpoint"}
        t = f"Rule({rr.rule_string(sp)!r}" + "".join(f", {k}={v!r}" for k, v in kw.items()) + ")"
        for w in reversed(sp["wrap"]):
            t = {"submount": "Submount('/pre', [%s])", "endpointprefix": "EndpointPrefix('p.', [%s])",
                 "subdomain": "Subdomain('', [%s])", "template": "RuleTemplate([%s])()"}[w] % t
        return t
    text = (f"Map([{', '.join(show(specs[i]) for i in order)}], "
            f"strict_slashes={rec['strict']}, merge_slashes={rec['merge']}).bind('h').match({rec['path']!r}, "
            f"method={rec['method']!r}, websocket={ws!r})\n"
            f"observed = {out}\nallowed  = {ex.describe()}\nverdict  = {verdict}")
    if verdict is None and rec.get("verdict") == "order-dependent-though-decided":
        outs = {}
        for o in itertools.permutations(range(len(specs))):
            outs[o] = run_impl(build_adapter(specs, o, rec["strict"], rec["merge"]), rec["path"], rec["method"], ws)
        text += f"\nper insertion order = {outs}"
        return len({repr(v) for v in outs.values()}) > 1, text
    return verdict is not None, text


def _late_rules(rec):
    return [str(x[0]) for x in (rec.get("fd_late") or ())]


FINDINGS = {
    # fixed in /repo (e5e0b74) - kept so that the entry in findings.d has its predicate
    "C03-fixed-digits-late-validation":
        lambda rec: rec.get("kind") == "route" and rec.get("fd_explains") is True
        and rec.get("verdict") in FD_VERDICTS and any("fixed_digits" in r for r in _late_rules(rec)),
    "C03-number-range-late-validation":
        lambda rec: rec.get("kind") == "route" and rec.get("fd_explains") is True
        and rec.get("verdict") in FD_VERDICTS and len(_late_rules(rec)) > 0
        and all("min=" in r for r in _late_rules(rec)),      # (the only late-validated converters of the universe)
    # what is left of it after d85bfe9: the rejected value no longer hides other rules, but the rule's methods /
    # websocket flag are still recorded before the value is validated
    "C03-rejected-value-counts-for-405":
        lambda rec: rec.get("kind") == "route" and rec.get("fd_explains") is True
        and rec.get("verdict") in ("405-no-rule", "405-methods-extra", "405-but-admitted",
                                   "websocket-mismatch-unjustified", "websocket-mismatch-but-admitted")
        and rec.get("outcome", ("",))[0] in ("405", "wsmismatch")
        and len(_late_rules(rec)) > 0 and all("min=" in r for r in _late_rules(rec)),
    "C03-factory-drops-rule-options":
        lambda rec: rec.get("kind") == "route" and rec.get("factory_explains") is True
        and any(sp.get("wrap") and (sp.get("merge") is False or sp.get("websocket")) for sp in rec.get("rules", ())),
}

LEVEL_TEXT = (
    "Small-scope exhaustive enumeration: every map up to the bound, every insertion order, every generated "
    "path and method is matched by the real MapAdapter.match and judged against an independent reference "
    "(regex per rule from the rule grammar + documented partial priority order). The unit tests pin ~80 maps; "
    "this decides the statement for all rule-set combinations below the bound, which is where shadowing and "
    "mis-ordering live."
)
LEVEL_NOTE = (
    "Trusted: checks/routing_ref.py (rule grammar -> regex, admission kinds, partial order). Bounded: <= 2 "
    "segments + optional path converter, maps <= 3 rules exhaustively and 4-6 rules over structured families; "
    "MAY-regions listed in ASSUMPTIONS are accepted either way; runs of >= 3 slashes are observed (404) but not claimed."
)
TECHNIQUE = "bounded exhaustive enumeration of rule maps x insertion orders x paths against a reference matcher"
DESIGN_REF = "DESIGN.md §4 C03"
