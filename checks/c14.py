"""C14 - untrusted paths and filenames cannot escape the trusted directory.

E1 (small-scope exhaustive enumeration), three sub-spaces:

join    every tuple of 1..3 (thorough: 1..4) untrusted components over an alphabet of
        '..', '.', '', '/', '//', backslash, drive prefix, '~', percent-encoded dots, NUL, names, dotted names,
        pre-joined traversals, x 6 trusted base directories, through security.safe_join.
        Oracle: None, or normpath(result) is the (normalised) base or below it - computed lexically with posixpath.
e2e     a real scratch tree  T/root/{f.txt,sub/g.txt,..a,~,a}  with sentinel files beside it (T/secret.txt,
        T/rootx/f.txt, T/a) and an importable package  T/<pkg>/{__init__.py,secret.txt,static/{f.txt,sub/g.txt}};
        every request path of 1..3 (thorough ..4) atoms joined with '/', raw and percent-decoded as a server would,
        through send_from_directory, SharedDataMiddleware (directory loader mounted at /static and at /, package
        loader).  Oracle: a 200 body is byte-identical to the file the path designates *inside* the root;
        a sentinel is never served.  Refusals (404 / fall-through / any exception) are always accepted.
secure  utils.secure_filename for every Unicode scalar value of the BMP (thorough: all planes) in 6 contexts and
        every string of <=3 (thorough 4) atoms over separators, dots, blanks, fullwidth forms, bidi / NUL / TAB.
        Oracle: ASCII, no '/', no backslash, no os.sep, no whitespace, does not start with '.', f(f(x)) == f(x).
"""
from __future__ import annotations

import importlib
import itertools
import pathlib
import os
import posixpath
import shutil
import sys
import tempfile
from urllib.parse import unquote

from mc import core, gen

ID = "C14"
LEVEL = "exploration"
RULE = (
    "join: all tuples of 1..3 (thorough 1..4) components over 24 atoms, all single components of 1..3 (thorough 4) "
    "'/'-joined segments over 15 segment atoms of which >=1 is a shielded dot segment (NUL / blank / tab / backslash / "
    "colon / drive / percent / fullwidth glued to '.' or '..'), and pairs of such components, x 6 base directories, "
    "each through safe_join with str arguments, os.PathLike arguments and with the Windows alternative separator "
    "list; e2e: all request paths of 1..3 (thorough 1..4) atoms over 22 atoms, of 1..3 (4) atoms over 5 + 18 shielded "
    "atoms and of <=2 atoms over all 40, as is, percent-decoded once and twice, x 8 servers (send_from_directory with "
    "str / relative+_root_path / PathLike arguments, SharedDataMiddleware directory loader at /static and /, package "
    "loader, single-file export, list exports + disallow + cache with a conditional re-request) over a real scratch "
    "tree with sentinels outside the root, plus every form of a package export (sub-path, sub-path with trailing '/', "
    "whole package as '' and '.') and directory exports with a trailing slash / relative; secure: every BMP scalar value (thorough: every Unicode scalar value) in 6 "
    "contexts + all strings <=3 (thorough 4) over 15 atoms, names of every length 250..260 and 63..65, 127..129, "
    "511..513, 1023..1025, 4095..4097 with a strippable / replaceable character at the first, the last four and the "
    "positions 253..256, ramps of one atom x 64..4096, and all strings <=3 (4) over 16 device-name atoms with "
    "werkzeug.utils seeing os.name == 'nt'. non-trivial = safe_join accepted a tuple containing a '..'/absolute/odd "
    "atom or refused one; a request that was answered 200; a filename that was changed; a device-name input."
)
ASSUMPTIONS = [
    "POSIX path semantics (os.sep == '/'); of the Windows behaviour only what is switchable from outside is "
    "simulated: security._os_alt_seps == ['\\\\'] for safe_join, and utils seeing os.name == 'nt' for the device-name "
    "branch of secure_filename (there the documented 'not a device file name' is demanded in addition)",
    "containment is lexical (posixpath.normpath); symlinks inside the trusted directory are the operator's business",
    "a refusal may be None / NotFound / fall-through to the wrapped app / any exception - the property only "
    "forbids serving something outside the root",
    "request paths reach the helpers percent-decoded once (what a WSGI server does); both the raw and the decoded "
    "form of every generated path are tried",
]

from werkzeug.exceptions import NotFound  # noqa: E402
from werkzeug.middleware.shared_data import SharedDataMiddleware  # noqa: E402
import werkzeug.security as wsec  # noqa: E402
import werkzeug.utils as wutils  # noqa: E402
from werkzeug.security import safe_join  # noqa: E402
from werkzeug.utils import secure_filename, send_from_directory  # noqa: E402

# ------------------------------------------------------------------ join

J_CORE = ["..", ".", "", "/", "a", "a/..", "a/../..", "../a", "..a", "./..", "/etc", "a/./.."]
J_EXTRA = ["//", "\\", "C:", "~", "%2e%2e", "a\0b", "a.b", ".a", "..\\a", "a//..//..", "...", "../"]
J_ATOMS = J_CORE + J_EXTRA
J_HOSTILE = J_CORE + ["//", "\\", "a\0b", "../", "%2e%2e", "..\\a", "a//..//..", "..."]
assert all(a in J_ATOMS for a in J_HOSTILE)
# segments that only become '.' / '..' after a transformation somebody might apply *after* validation (dropping
# NUL, stripping blanks, unquoting, folding backslash / fullwidth forms, removing a drive prefix or a '../' once)
J_SHIELD = ["..", ".", "a", "\0..", "..\0", "\0.", ".\0.", " ..", "..\t", "\\..", "..:", "%2e%2e", "．．", "....", "C:.."]


def shield_components(depth: int):
    """Single components made of 1..depth segments (joined with '/') of which at least one is shielded."""
    for t in gen.sequences(J_SHIELD, depth, 1):
        if any(x in J_SHIELD[3:] for x in t):
            yield "/".join(t)

J_BASES = ["/base/dir", "rel/dir", "", "/", ".", "/base/dir/"]
ODD = ("..", "/", "\\", "\0", "~", ":", "%")


def inside(base: str, result: str) -> bool:
    nb = posixpath.normpath(posixpath.join("/cwd/x", base or "."))
    nr = posixpath.normpath(posixpath.join("/cwd/x", result))
    return nr == nb or nr.startswith(nb.rstrip("/") + "/")


def join_cases(tier):
    for base in J_BASES:
        for t in gen.sequences(J_ATOMS, 4 if tier == "thorough" else 3, 1):
            yield base, t
        if tier != "thorough":      # quick: the 4-tuples over the 16 most hostile atoms (thorough has all 24)
            for t in itertools.product(J_HOSTILE, repeat=4):
                yield base, t
        # one multi-segment component, then pairs of shorter ones
        for c in shield_components(4):
            yield base, (c,)
        two = list(shield_components(2))
        for c1 in two:
            for c2 in (two if tier == "thorough" else two[:40]):
                yield base, (c1, c2)
            yield base, ("a", c1)
            yield base, (c1, "..")


def check_join(base, comps, mode="str"):
    """mode: str (plain strings) | pathlike (every argument an os.PathLike) | altsep (the module's alternative
    separator list is what it is on Windows: ['\\'])."""
    args = comps
    b = base
    old = wsec._os_alt_seps
    try:
        if mode == "pathlike":
            args = [pathlib.PurePosixPath(c) for c in comps]
            b = pathlib.PurePosixPath(base) if base else base
        elif mode == "altsep":
            wsec._os_alt_seps = ["\\"]
        try:
            r = safe_join(b, *args)
        except Exception as e:  # noqa: BLE001
            if mode == "pathlike":       # the signature promises str only: refusing PathLike arguments is fine
                return [], None
            return [("join:exception:" + type(e).__name__, repr(e))], "EXC"
    finally:
        wsec._os_alt_seps = old
    if r is None:
        return [], None
    if not isinstance(r, str):
        return [("join:not-a-string", repr(r))], r
    probe = r.replace("\\", "/") if mode == "altsep" else r
    if not inside(base, probe):
        return [("join:escape" + ("" if mode == "str" else ":" + mode), (r, posixpath.normpath(probe)))], r
    return [], r


# ------------------------------------------------------------------ e2e

E_CORE = ["..", ".", "", "f.txt", "sub", "secret.txt", "%2e%2e", "a", "rootx", "g.txt", "<T>"]
E_EXTRA = ["..%2f", "%2e%2e%2f..", "\\", "..\\", "a\0b", "%2f", "..a", "~", "sub/..", "../secret.txt", "%2e"]
E_ATOMS = E_CORE + E_EXTRA
# see J_SHIELD: segments / fragments that are harmless names now and traversal after a late transformation
E_SHIELD = ["\0.", "\0..", "..\0", ".\0", " ..", ".. ", "\t..", "\\..", "..:", "C:..", "%00..", "%252e%252e",
            "..\\secret.txt", "．．", "..／secret.txt", "....//", "..././", "%2e%00%2e"]
E_SMALL = ["..", ".", "secret.txt", "sub", "f.txt"]
E_HOSTILE = ["..", ".", "", "f.txt", "sub", "secret.txt", "%2e%2e", "<T>", "..%2f", "\\", "a\0b", "%2f", "rootx", "g.txt", "sub/..", "../secret.txt"]
E_SHIELD_HOSTILE = ["\0.", "\0..", "..\0", " ..", "\\..", "%00..", "%252e%252e", ".\0", "..:", "．．", "....//"]
assert all(a in E_ATOMS for a in E_HOSTILE) and all(a in E_SHIELD for a in E_SHIELD_HOSTILE)
SERVERS = ["send_from_directory", "sdm_dir", "sdm_root", "sdm_pkg", "send_from_directory_rel",
           "send_from_directory_pathlike", "sdm_file", "sdm_disallow", "sdm_pkg_empty", "sdm_pkg_dot",
           "sdm_pkg_slash", "sdm_dir_slash", "sdm_dir_rel"]
SENTINEL = b"SENTINEL: this file is outside the trusted directory"

_counter = [0]


class Tree:
    """Scratch tree; always used as a context manager so that it is removed."""

    def __enter__(self):
        self.T = tempfile.mkdtemp(prefix="c14_")
        _counter[0] += 1
        self.pkg = f"c14pkg_{os.getpid()}_{_counter[0]}"
        T = self.T
        self.files = {}
        self.conditional = None

        def put(rel, content):
            p = os.path.join(T, rel)
            os.makedirs(os.path.dirname(p), exist_ok=True)
            with open(p, "wb") as f:
                f.write(content)
            self.files[os.path.normpath(p)] = content

        for rel in ("root/f.txt", "root/sub/g.txt", "root/..a", "root/~", "root/a", "root/sub/a"):
            put(rel, b"INSIDE root:" + rel.encode())
        for rel in ("secret.txt", "rootx/f.txt", "a", "f.txt", "rootx/secret.txt"):
            put(rel, SENTINEL + b" " + rel.encode())
        put(self.pkg + "/__init__.py", b"# " + SENTINEL)
        put(self.pkg + "/secret.txt", SENTINEL + b" pkg")
        put(self.pkg + "/f.txt", SENTINEL + b" pkg f")
        for rel in ("static/f.txt", "static/sub/g.txt", "static/a", "static/..a", "static/~", "static/sub/a"):
            put(self.pkg + "/" + rel, b"INSIDE pkg:" + rel.encode())
        # a second package that is exported as a whole (package_path '' / '.'): everything in it is inside,
        # the sentinels T/secret.txt, T/f.txt, T/a sit beside it
        self.pkg2 = self.pkg + "_whole"
        for rel in ("__init__.py", "f.txt", "sub/g.txt", "a", "..a", "~", "sub/a", "secret.txt"):
            put(self.pkg2 + "/" + rel, b"# INSIDE pkg2:" + rel.encode())
        self.root = os.path.join(T, "root")
        self.pkgstatic = os.path.join(T, self.pkg, "static")
        self.pkg2dir = os.path.join(T, self.pkg2)
        sys.path.insert(0, T)
        importlib.invalidate_caches()

        def fallback(environ, start_response):
            start_response("404 NOT FOUND", [("Content-Type", "text/plain")])
            return [b"fallback"]

        self.apps = {
            "sdm_dir": (SharedDataMiddleware(fallback, {"/static": self.root}, cache=False), "/static/", self.root),
            "sdm_root": (SharedDataMiddleware(fallback, {"/": self.root}), "/", self.root),
            "sdm_pkg": (SharedDataMiddleware(fallback, {"/pkg": (self.pkg, "static")}), "/pkg/", self.pkgstatic),
            # a single exported file: whatever follows the prefix, only that file may be served
            "sdm_file": (SharedDataMiddleware(fallback, {"/one": os.path.join(self.root, "f.txt")}), "/one/",
                         ("file", os.path.join(self.root, "f.txt"))),
            # exports given as a list, a disallow pattern, caching on, odd fallback mimetype
            "sdm_disallow": (SharedDataMiddleware(fallback, [("/static", self.root)], disallow="*.txt", cache=True,
                                                  fallback_mimetype="text/x-odd"), "/static/", self.root),
            # every form of a package export: whole package ('' and '.'), sub-path with a trailing slash
            "sdm_pkg_empty": (SharedDataMiddleware(fallback, {"/p2": (self.pkg2, "")}), "/p2/", self.pkg2dir),
            "sdm_pkg_dot": (SharedDataMiddleware(fallback, {"/p2": (self.pkg2, ".")}), "/p2/", self.pkg2dir),
            "sdm_pkg_slash": (SharedDataMiddleware(fallback, {"/pkg": (self.pkg, "static/")}), "/pkg/", self.pkgstatic),
            # directory exports spelled with a trailing slash / relative to the working directory
            "sdm_dir_slash": (SharedDataMiddleware(fallback, {"/static/": self.root + "/"}, cache=False), "/static/",
                              self.root),
            "sdm_dir_rel": (SharedDataMiddleware(fallback, {"/static": os.path.relpath(self.root)}, cache=False),
                            "/static/", self.root),
        }
        return self

    def __exit__(self, *exc):
        try:
            sys.path.remove(self.T)
        except ValueError:
            pass
        sys.modules.pop(self.pkg, None)
        sys.modules.pop(self.pkg2, None)
        sys.path_importer_cache.pop(self.T, None)
        shutil.rmtree(self.T, ignore_errors=True)
        return False

    # one request -> (status, body) ; refusals are ("refused", reason)
    def request(self, server: str, path: str):
        environ = {
            "REQUEST_METHOD": "GET", "SCRIPT_NAME": "", "SERVER_NAME": "localhost", "SERVER_PORT": "80",
            "wsgi.url_scheme": "http", "HTTP_HOST": "localhost", "QUERY_STRING": "",
        }
        if server.startswith("send_from_directory"):
            root = self.root
            kw = {}
            if server.endswith("_rel"):
                kw["_root_path"] = self.T
                directory = "root"
            else:
                directory = root
            environ["PATH_INFO"] = "/"
            arg = path
            if server.endswith("_pathlike"):
                directory = pathlib.PurePosixPath(directory)
                arg = pathlib.PurePosixPath(path)
            try:
                resp = send_from_directory(directory, arg, environ, **kw)
            except NotFound:
                return "refused", "NotFound", root
            except Exception as e:  # noqa: BLE001
                return "refused", "exception:" + type(e).__name__, root
            try:
                resp.direct_passthrough = False
                body = b"".join(resp.response)
            finally:
                resp.close()
            return resp.status_code, body, root
        app, prefix, root = self.apps[server]
        try:
            environ["PATH_INFO"] = (prefix + path).encode("utf-8").decode("latin-1")
            st = []
            it = app(environ, lambda s, h, e=None: st.append((s, h)))
            try:
                body = b"".join(it)
            finally:
                if hasattr(it, "close"):
                    it.close()
            code = int(st[0][0].split()[0])
            etag = dict(st[0][1]).get("Etag")
            if code == 200 and etag:
                # the conditional request for the same path must not turn into a different file either
                environ2 = dict(environ, HTTP_IF_NONE_MATCH=etag)
                st2 = []
                it2 = app(environ2, lambda s, h, e=None: st2.append((s, h)))
                try:
                    body2 = b"".join(it2)
                finally:
                    if hasattr(it2, "close"):
                        it2.close()
                self.conditional = int(st2[0][0].split()[0])
                if self.conditional == 200 and body2 != body:
                    return 200, body + b"|SECOND ANSWER:" + body2, root
        except Exception as e:  # noqa: BLE001
            return "refused", "exception:" + type(e).__name__, root
        if code != 200:
            return "refused", str(code), root
        return 200, body, root


def e2e_paths(tier):
    """Path templates ('<T>' = absolute path of the scratch directory): every tuple joined with '/', as is and
    percent-decoded (what a server hands over when the client sent the tuple's text as the request target)."""
    T = tier == "thorough"
    spaces = [(E_ATOMS, 4 if T else 3, None, 1), (E_SMALL + E_SHIELD, 4 if T else 3, E_SHIELD, 1),
              (E_ATOMS + E_SHIELD, 2, E_SHIELD, 1)]
    if not T:
        spaces += [(E_HOSTILE, 4, None, 4), (E_SMALL + E_SHIELD_HOSTILE, 4, E_SHIELD_HOSTILE, 4)]
    for atoms, depth, must, lo in spaces:
        for t in gen.sequences(atoms, depth, lo):
            if must is not None and not any(x in must for x in t):
                continue
            p = "/".join(t)
            yield p
            v = unquote(p)
            if v != p:
                yield v
                w = unquote(v)      # a client that encoded twice / a proxy that decoded once more
                if w != v:
                    yield w


def check_e2e(tree: Tree, server: str, template: str):
    path = template.replace("<T>", tree.T)
    status, body, root = tree.request(server, path)
    if status == "refused":
        return [], ("refused", body)
    fails = []
    if SENTINEL in body:
        fails.append(("e2e:sentinel-served:" + server, body[:80]))
        return fails, (status, body[:40])
    if isinstance(root, tuple):       # single exported file
        if tree.files.get(root[1]) != body:
            fails.append(("e2e:wrong-file-served:" + server, (root[1], body[:80])))
        return fails, (status, body[:40])
    try:
        designated = os.path.normpath(os.path.join(root, path))
    except Exception:  # noqa: BLE001
        designated = None
    if designated is None or not designated.startswith(root + os.sep):
        fails.append(("e2e:served-for-path-outside-root:" + server, (designated, body[:80])))
    elif tree.files.get(designated) != body:
        fails.append(("e2e:wrong-file-served:" + server, (designated, body[:80])))
    return fails, (status, body[:40])


# ------------------------------------------------------------------ secure_filename

S_ATOMS = [".", "/", "\\", " ", "_", "-", "a", "é", "／", "．", "\0", "‮", "\t", "․", "　"]
S_CONTEXTS = ["{c}", "a{c}b", "{c}a", "a{c}", "{c}.a", ".{c}a"]
S_CONTEXTS_ASTRAL = S_CONTEXTS
SWEEP_CHUNK = 0x1000


def secure_bad(s: str):
    """Return (signature, value) or None."""
    try:
        f = secure_filename(s)
    except Exception as e:  # noqa: BLE001
        return "secure:exception:" + type(e).__name__, repr(e)
    if not isinstance(f, str):
        return "secure:not-a-string", repr(f)
    if not f.isascii():
        return "secure:not-ascii", f
    if "/" in f or "\\" in f or os.sep in f or (os.path.altsep and os.path.altsep in f):
        return "secure:separator", f
    if any(ch.isspace() or ch == "\0" for ch in f):
        return "secure:whitespace", f
    if f.startswith("."):
        return "secure:leading-dot", f
    try:
        f2 = secure_filename(f)
    except Exception as e:  # noqa: BLE001
        return "secure:exception:" + type(e).__name__, repr(e)
    if f2 != f:
        return "secure:not-idempotent", (f, f2)
    return None


class _NtPath:
    altsep = "/"
    sep = "\\"

    def __getattr__(self, k):
        return getattr(os.path, k)


class _NtOs:
    """What werkzeug.utils sees as `os` on a Windows host (only name / sep / path.altsep differ)."""
    name = "nt"
    sep = "\\"
    path = _NtPath()

    def __getattr__(self, k):
        return getattr(os, k)


NT_DEVICES = {"CON", "PRN", "AUX", "NUL"} | {f"COM{i}" for i in range(1, 10)} | {f"LPT{i}" for i in range(1, 10)}
NT_ATOMS = ["CON", "nul", "COM1", "LPT9", "aux", "prn", "com0", ".", "_", " ", "txt", "/", "\\", "a", "é", "Con"]


def secure_bad_nt(s: str):
    """secure_filename as it behaves on Windows: the statement's demands plus the documented one that the result
    is not a device file name."""
    old = wutils.os
    wutils.os = _NtOs()
    try:
        bad = secure_bad(s)
        if bad:
            return (bad[0] + ":nt", bad[1])
        f = secure_filename(s)
        if f.split(".")[0].rstrip(" ").upper() in NT_DEVICES:
            return "secure:device-name:nt", f
        return None
    finally:
        wutils.os = old


LONG_LENGTHS = sorted(set(range(250, 261)) | {n + d for n in (64, 128, 512, 1024, 4096) for d in (-1, 0, 1)})
LONG_CHARS = [".", "_", " ", "/", "-", "é", "\\"]
RAMP_ATOMS = [".", "_", "a.", "._", " a", "é", "a", "a_", "-.", "a/"]
RAMP_COUNTS = [64, 127, 128, 255, 256, 257, 4096]


def long_names():
    """Names around every length a sanitiser might cut at, with a strippable / replaceable character at each of
    the last positions, the first ones and the positions around 255; and long ramps of one atom."""
    for n in LONG_LENGTHS:
        pos = sorted({p for p in (0, 1, 253, 254, 255, 256, n - 4, n - 3, n - 2, n - 1) if 0 <= p < n})
        for c in LONG_CHARS:
            for p in pos:
                yield "a" * p + c + "a" * (n - p - 1)
                if p + 1 < n:
                    yield "a" * p + c + "." + "a" * (n - p - 2)
                    yield "a" * p + "." + c + "b" * (n - p - 2)
    # one blank-like character around an otherwise clean name
    for w in ["\n", "\r", "\t", "\x0b", "\x0c", "\x85", " ", "\xa0", "\u2028", "\x1c", "\x00", "\r\n"]:
        for name in ["a", "a.txt", "ab_c", "A-1.tar.gz"]:
            for x in (w + name, name + w, name + w + w, w + name + w, name + w + "b", name + "." + w, w + "." + name):
                yield x
    for atom in RAMP_ATOMS:
        for k in RAMP_COUNTS:
            yield atom * k
            yield "x" + atom * k
            yield atom * k + "x"


# ------------------------------------------------------------------ units

N_JOIN = 32
N_E2E = 192


def units(tier):
    out = [("join", i, N_JOIN) for i in range(N_JOIN)]
    out += [("e2e", i, N_E2E) for i in range(N_E2E)]
    out += [("sweep", lo, min(lo + SWEEP_CHUNK, 0x110000)) for lo in range(0, 0x110000, SWEEP_CHUNK)]
    out += [("sstr", i, 8) for i in range(8)]
    out += [("nt", i, 4) for i in range(4)]
    out += [("slong", i, 4) for i in range(4)]
    return out


def run_unit(unit, R, tier):
    kind = unit[0]
    if kind == "join":
        _, idx, n = unit
        for j, (base, t) in enumerate(gen.shard(join_cases(tier), n, idx)):
            R.ev()
            R.count("join_cases")
            fails, r = check_join(base, t)
            for mode in ("pathlike", "altsep"):
                f2, r2 = check_join(base, t, mode)
                R.ev()
                if r2 is not None:
                    R.use("join:accepted:" + mode)
                elif r is not None:
                    R.use("join:refused-only:" + mode)
                for sig, detail in f2:
                    R.violation(sig, {"kind": "join", "sig": sig, "mode": mode, "base": base, "components": list(t),
                                      "result": r2, "detail": detail})
            hostile = any(o in c for c in t for o in ODD)
            if r is None:
                R.use("join:refused")
                R.nontrivial((base, t))
            elif hostile and not fails:
                R.use("join:accepted-hostile")
                R.nontrivial((base, t))
            R.use("join:base:" + base)
            R.outcome(("join", r is None, hostile, bool(fails)))
            if j % 3001 == 0:
                R.sample({"kind": "join", "base": base, "components": t, "result": r})
            for sig, detail in fails:
                R.violation(sig, {"kind": "join", "sig": sig, "base": base, "components": list(t),
                                  "result": r, "detail": detail})
    elif kind == "e2e":
        _, idx, n = unit
        with Tree() as tree:
            for j, tmpl in enumerate(gen.shard(e2e_paths(tier), n, idx)):
                for server in SERVERS:
                    R.ev()
                    R.count("e2e_requests")
                    fails, got = check_e2e(tree, server, tmpl)
                    if got[0] == 200:
                        R.use("e2e:200:" + server)
                        R.nontrivial((server, tmpl))
                        if ".." in tmpl or "%2e" in tmpl:
                            R.use("e2e:200-via-dotdot")
                    else:
                        R.use("e2e:refused:" + server)
                        R.use("e2e:refusal:" + str(got[1]))
                    R.outcome(("e2e", server, got[0], got[1] if got[0] == "refused" else None, bool(fails)))
                    if j % 997 == 0 and server == "sdm_dir":
                        R.sample({"kind": "e2e", "server": server, "path": tmpl, "answer": got})
                    for sig, detail in fails:
                        R.violation(sig, {"kind": "e2e", "sig": sig, "server": server, "path": tmpl,
                                          "detail": detail})
    elif kind == "sweep":
        _, lo, hi = unit
        for cp in range(lo, hi):
            if 0xD800 <= cp <= 0xDFFF:
                continue
            c = chr(cp)
            # quick: every context for the BMP, the two most telling ones for the other planes
            for ctx in (S_CONTEXTS if tier == "thorough" or cp < 0x10000 else S_CONTEXTS_ASTRAL):
                s = ctx.replace("{c}", c)
                R.ev()
                R.count("secure_cases")
                bad = secure_bad(s)
                if bad:
                    R.violation(bad[0], {"kind": "secure", "sig": bad[0], "input": s, "detail": bad[1]})
            f = secure_filename("a" + c + "b") if True else ""
            if f != "a" + c + "b":
                R.nontrivial(cp)
            if f == "ab":
                R.use("secure:dropped")
            elif f == "a_b":
                R.use("secure:to-underscore")
            elif len(f) > 2 and f != "a" + c + "b":
                R.use("secure:transliterated")
            R.outcome(("secure", f if len(f) < 4 else "long"))
            if cp % 0x1555 == 0:
                R.sample({"kind": "secure", "input": "a" + c + "b", "output": f})
    elif kind == "slong":
        _, idx, n = unit
        for s in gen.shard(long_names(), n, idx):
            R.ev()
            R.count("secure_long_cases")
            bad = secure_bad(s)
            R.nontrivial(("long", len(s), s[:3], s[-6:], s[250:258]))
            if len(s) > 255:
                R.use("secure:long>255")
            if bad:
                R.violation(bad[0], {"kind": "secure", "sig": bad[0], "input": s, "detail": bad[1]})
    elif kind == "nt":
        _, idx, n = unit
        for s in gen.shard(itertools.chain(gen.strings(NT_ATOMS, 4), gen.strings(S_ATOMS, 3)), n, idx):
            R.ev()
            R.count("secure_nt_cases")
            bad = secure_bad_nt(s)
            if s.split(".")[0].strip().upper() in NT_DEVICES:
                R.use("secure:nt:device-input")
                R.nontrivial(("nt", s))
            if bad:
                R.violation(bad[0], {"kind": "secure-nt", "sig": bad[0], "input": s, "detail": bad[1]})
    else:
        _, idx, n = unit
        for s in gen.shard(gen.strings(S_ATOMS, 4), n, idx):
            R.ev()
            R.count("secure_cases")
            R.count("secure_strings")
            bad = secure_bad(s)
            try:
                if secure_filename(s) != s:
                    R.nontrivial(("s", s))
                if secure_filename(s) == "":
                    R.use("secure:empty-result")
            except Exception:  # noqa: BLE001
                pass
            if bad:
                R.violation(bad[0], {"kind": "secure", "sig": bad[0], "input": s, "detail": bad[1]})


def finalize(R, tier):
    need = {"join:refused", "join:accepted-hostile", "e2e:200-via-dotdot", "e2e:refusal:NotFound",
            "e2e:refusal:404", "secure:dropped", "secure:to-underscore", "secure:transliterated",
            "secure:empty-result", "secure:long>255", "secure:nt:device-input", "join:accepted:pathlike", "join:accepted:altsep",
            "join:refused-only:altsep"}
    need |= {"join:base:" + b for b in J_BASES}
    need |= {"e2e:200:" + s for s in SERVERS} | {"e2e:refused:" + s for s in SERVERS if s != "sdm_file"}
    missing = need - R.used
    if missing:
        raise core.Broken(f"vacuity: never exercised {sorted(missing)}")
    for k, floor in (("join_cases", 50_000), ("e2e_requests", 50_000), ("secure_cases", 300_000)):
        if R.counts[k] < floor:
            raise core.Broken(f"vacuity: only {R.counts[k]} {k}")
    if inside("/base/dir", "/base/dir/..") or inside("rel/dir", "rel/dir/../../x") or not inside("", "./a/../b") \
            or inside("/base/dir", "/base/dirx") or not inside("/", "/etc"):
        raise core.Broken("containment oracle is wrong")
    return {
        "bound": ("join tuples <=3 over 24 atoms and 4-tuples over 16, shielded components <=4 segments x 6 bases x 3 "
                  "argument modes; request paths <=3 over 22 / 23 atoms, 4-atom paths over 16 / 12 hostile atoms, <=2 "
                  "over 40, x 3 decodings x 13 servers; secure_filename BMP x 6 contexts + other planes x 4 contexts "
                  "+ strings <=4 + long names; nt device strings <=3") if tier == "quick" else
                 ("join tuples <=4 over 24 atoms, shielded components <=4 segments x 6 bases x 3 argument modes; request "
                  "paths <=4 over 22 / 23 atoms and <=2 over 40 x 3 decodings x 8 servers; secure_filename all planes "
                  "x 6 contexts + strings <=4; nt device strings <=4"),
        "exhaustive": True,
        "n_join": R.counts["join_cases"], "n_e2e": R.counts["e2e_requests"], "n_secure": R.counts["secure_cases"],
    }


# ------------------------------------------------------------------ replay / findings


def replay(rec):
    kind = rec.get("kind")
    if kind == "join":
        fails, r = check_join(rec["base"], tuple(rec["components"]), rec.get("mode", "str"))
        text = f"[{rec.get('mode', 'str')}] safe_join({rec['base']!r}, *{tuple(rec['components'])!r}) = {r!r}"
        if isinstance(r, str):
            text += f"\nnormpath -> {posixpath.normpath(r)!r}  (base {posixpath.normpath(rec['base'] or '.')!r})"
    elif kind == "e2e":
        with Tree() as tree:
            fails, got = check_e2e(tree, rec["server"], rec["path"])
        text = f"server={rec['server']} path={rec['path']!r} ('<T>' = scratch dir) -> {got}"
    elif kind == "secure-nt":
        bad = secure_bad_nt(rec["input"])
        fails = [bad] if bad else []
        text = f"[os.name == 'nt'] secure_filename({rec['input']!r})"
    elif kind == "secure":
        bad = secure_bad(rec["input"])
        fails = [bad] if bad else []
        try:
            out = secure_filename(rec["input"])
        except Exception as e:  # noqa: BLE001
            out = repr(e)
        text = f"secure_filename({rec['input']!r}) = {out!r}"
    else:
        return True, rec.get("traceback", "unit exception")
    text += "\nfailures: " + "; ".join(f"{s}: {core.show(d)}" for s, d in fails)
    return any(s == rec.get("sig") for s, _ in fails), text


FINDINGS: dict = {}

LEVEL_TEXT = (
    "Exhaustive enumeration of every tuple of up to 3-4 hostile path components against 6 base directories through "
    "safe_join with a lexical containment oracle, every short request path (raw and percent-decoded) through "
    "send_from_directory and three SharedDataMiddleware loaders over a real scratch tree with sentinel files outside "
    "the root, and secure_filename for every Unicode scalar value in six contexts. The unit tests list four hostile "
    "strings; containment is a statement over all combinations."
)
LEVEL_NOTE = (
    "Trusted: posixpath.normpath as the meaning of a path, the scratch tree builder. POSIX only; symlinks and "
    "Windows separators / device names are not modelled."
)
TECHNIQUE = "small-scope exhaustive enumeration with a lexical containment oracle and a sentinel-file end-to-end tree"
DESIGN_REF = "DESIGN.md §4 C14"
