"""C05 - responses are well-formed WSGI output for every body, status and method.

A  product (E1)   body shape x status form x method x preset Content-Length x Location x autocorrect x
                  0-2 call_on_close callbacks x pre-operation (none / get_data / calculate_content_length)
                  x how the server consumes the iterable (all / nothing / one item) before closing it
B  histories (E2) every Headers state reachable by real add() histories with <= N stored items x every
                  mutator instance (25 mutator forms x keys x clean / int / CR / LF / CRLF values); the
                  stored list is the canonical state; closure under the bound is asserted
F  front doors    Response(...) constructor arguments and header-writing properties x the same values

Oracle: the statement, literally - header values are str without CR/LF, a Content-Length werkzeug computed
equals the bytes produced, Location is printable ASCII, no body for HEAD/1xx/204/304, no Content-Length for
1xx/204, every callback and the wrapped iterable's close ran exactly once after app_iter.close(); a mutator
handed a CR/LF value either raises ValueError or stores nothing that contains CR/LF.
"""
from __future__ import annotations

import io
import itertools
import re
from http import HTTPStatus

from mc import core

ID = "C05"
LEVEL = "exploration"
RULE = (
    "A: full product of body shape (str, bytes, bytearray, empty, None, list/tuple of str/bytes with empty and "
    "non-ASCII items, mixed list, generators, closable iterator, FileWrapper with and without direct_passthrough, "
    "stream.write built) x status (int, HTTPStatus, 'code reason', bare code, padded; 1xx-5xx) x GET/HEAD/POST x "
    "Content-Length absent/preset x Location {none, relative, absolute, IRI path, network-path, IRI host} x "
    "autocorrect x 0-2 close callbacks x pre-operation x consumption mode. B: every list of <= N clean header items "
    "(built by add() calls) x every mutator instance. F: constructor / property front doors. One evaluation = one "
    "response driven through get_wsgi_response + iterate + close, or one mutator call on a rebuilt Headers. "
    "non-trivial = distinct A case that is not (GET/POST, status with body, no Location, no callbacks), or a B "
    "transition that carries a CR/LF value or changes the stored list. Round 2 adds: bodies of bytearray / memoryview "
    "items, bodies assigned to .response / set_data / .data after construction, pre-operations make_sequence and "
    "freeze, the wrapping dimension (get_wsgi_response, __call__, Response.from_app plain / buffered, force_type of a "
    "WSGI app / of a Response); 46 more mutator forms (extend / update mixtures with Headers / dict / tuple / set / "
    "kwargs, |= with a list, negative and stepped index forms, option keyword arguments with quoting, non-ASCII, "
    "underscores and CR/LF in the option *name*, every removal form) and a non-str value whose text contains LF; 23 "
    "more front doors. quick runs A as two complete sub-products (everything x no Location; Location x autocorrect x "
    "body x status x method), thorough as the full product."
)
ASSUMPTIONS = [
    "the WSGI server calls close() on the returned iterable exactly once if it has one (PEP 3333), after consuming "
    "all, none or one of its items",
    "a preset Content-Length is the application's responsibility: only its removal for 1xx/204 is checked",
    "for HEAD/304 a Content-Length header may describe the body that is not sent",
    "'refused' = nothing containing CR/LF ends up stored and the only exception a mutator may raise is ValueError; "
    "a partial update (setlist(['ok', 'a\\nb']) keeps 'ok') is not a violation (statement silent on atomicity)",
    "header *names* are not in the statement and are never given CR/LF here",
    "Response.freeze() and assigning .response are treated as ways of giving a response its body (round 2); both "
    "currently break a clause of the statement and are recorded as findings",
    "a body item may be any bytes-like object (bytearray, memoryview) - the statement does not speak of item types",
    "a status string without a numeric code ('Custom' -> '0 Custom') is outside the quantifier (1xx-5xx)",
    "removal mutators (remove, del, pop, popitem, clear) may raise KeyError / IndexError exactly where the list is "
    "empty or the key absent; their effect on the list is C08/C16's business",
]

from werkzeug.datastructures import Headers, MultiDict, WWWAuthenticate  # noqa: E402
from werkzeug.test import create_environ  # noqa: E402
from werkzeug.wrappers import Response  # noqa: E402
from werkzeug.wsgi import FileWrapper  # noqa: E402

# ------------------------------------------------------------------ A: the product

class CloseIter:
    def __init__(self, items):
        self.it = iter(items)
        self.closed = 0

    def __iter__(self):
        return self

    def __next__(self):
        return next(self.it)

    def close(self):
        self.closed += 1


class CountFile(io.BytesIO):
    def __init__(self, data):
        super().__init__(data)
        self.closed_n = 0

    def close(self):
        self.closed_n += 1
        super().close()


def _gen(items):
    for i in items:
        yield i


# name -> () -> (body, tracker, direct_passthrough, expected bytes)
BODIES = {
    "str": lambda: ("héllo", None, False, "héllo".encode()),
    "bytes": lambda: (b"hello", None, False, b"hello"),
    "bytearray": lambda: (bytearray(b"hi"), None, False, b"hi"),
    "empty-str": lambda: ("", None, False, b""),
    "none": lambda: (None, None, False, b""),
    "list-str": lambda: (["a", "bé", ""], None, False, "abé".encode()),
    "tuple-bytes": lambda: ((b"a", b"", b"bc"), None, False, b"abc"),
    "list-mixed": lambda: (["x", b"y", "", b""], None, False, b"xy"),
    "list-dp": lambda: ([b"ab", b"c"], None, True, b"abc"),
    "gen-bytes": lambda: (_gen([b"ab", b"", b"c"]), None, False, b"abc"),
    "gen-str": lambda: (_gen(["é", "", "z"]), None, False, "éz".encode()),
    "closable": lambda: ((lambda c: (c, c, False, b"abc"))(CloseIter([b"ab", b"c"]))),
    "closable-str": lambda: ((lambda c: (c, c, False, "éb".encode()))(CloseIter(["é", "", "b"]))),
    "closable-dp": lambda: ((lambda c: (c, c, True, b"abc"))(CloseIter([b"ab", b"c"]))),
    "fw-dp": lambda: ((lambda f: (FileWrapper(f, 2), f, True, b"abcde"))(CountFile(b"abcde"))),
    "fw": lambda: ((lambda f: (FileWrapper(f, 2), f, False, b"abcde"))(CountFile(b"abcde"))),
    "list-bytearray": lambda: ([bytearray(b"ab"), bytearray(b""), bytearray(b"c")], None, False, b"abc"),
    "list-memoryview": lambda: ([memoryview(b"ab"), memoryview(b""), memoryview(b"c")], None, False, b"abc"),
    "gen-memoryview": lambda: (_gen([memoryview(b"ab"), bytearray(b"c")]), None, False, b"abc"),
    "assigned-list": lambda: ("ASSIGN", ["ab", b"", "é"], False, "abé".encode()),
    # not generated: assigning `.response` over a body for which set_data() already stored a Content-Length.
    # The stale header is then an application-preset length, which the statement does not claim
    # ("a Content-Length that werkzeug computes" for the body it was given).
    "assigned-gen": lambda: ("ASSIGN", _gen([b"ab", "c"]), False, b"abc"),
    "assigned-closable": lambda: ((lambda c: ("ASSIGN", c, False, b"abc"))(CloseIter([b"ab", b"c"]))),
    "set_data-str": lambda: ("SETDATA", "néw", False, "néw".encode()),
    "data-prop-bytes": lambda: ("DATAPROP", b"xyz1", False, b"xyz1"),
    "stream": lambda: ("STREAM", None, False, b"abc"),
    "stream-over-str": lambda: ("ab", None, False, b"abz"),
    "stream-over-closable": lambda: ((lambda c: (c, c, False, b"abcz"))(CloseIter([b"ab", b"c"]))),
}
QUICK_BODIES = list(BODIES)   # every body shape in both tiers (promoted into quick)

# (value handed to Response, intended code)
STATUSES = [
    (100, 100), (101, 101), (199, 199), (200, 200), (201, 201), (204, 204), (206, 206), (301, 301), (304, 304),
    (404, 404), (500, 500), (HTTPStatus.NO_CONTENT, 204), (HTTPStatus.NOT_MODIFIED, 304), ("204 NO CONTENT", 204),
    ("304 x", 304), ("299 Custom", 299), ("200", 200), ("100 Continue", 100),
    # padded status strings (seed C05-4b): leading / trailing / both, space / tab / newline, bodyless and not
    (" 204 No Content", 204), ("204 No Content ", 204), ("\t204 No Content\t", 204), (" 204", 204),
    (" 200 OK", 200), ("200 OK\n", 200), (" 304 Not Modified ", 304), ("\t302 Found", 302), ("100 Continue ", 100),
    # thorough only from here
    (102, 102), (205, 205), (HTTPStatus.OK, 200), (HTTPStatus.CONTINUE, 100), (" 204 ", 204), ("204", 204),
    ("304", 304), ("404 Not Found", 404), (599, 599), (None, 200),
]
N_QUICK_STATUS = 27
METHODS = ["GET", "HEAD", "POST"]
LOCATIONS = [None, "/rel", "http://h/abs", "/é x", "//other/p", "http://bücher.example/ü?q=ä b",
             "/docs#übersicht", "http://ü:ä@h/p;ö?k=v#第一章",
             # references without scheme / host: they inherit parts of the request URL when autocorrected
             "sibling", "./x", "../x", "?q=ä", "#frag", "/rooted", "", "../../ü/./y"]
FULL_PRODUCT_QUICK_BODIES = ("closable",)
N_FULL_LOCATIONS = 8   # LOCATIONS[1:8] take part in the full thorough product, the relative forms in the sub-products
PREOPS = ["none", "get_data", "calc", "make_sequence", "freeze"]
WRAPS = ["none", "call", "from_app", "from_app-buffered", "force_type-app", "force_type-response"]
CONSUME = ["all", "nothing", "one"]
ENV = {m: create_environ(method=m, base_url="http://localhost/app/") for m in METHODS}
ASCII_URI = re.compile(r"[\x21-\x7e]*")   # printable ASCII; an empty reference (same document) is a URI reference too
STATUS_LINE = re.compile(r"\d{3} [^\s\x00-\x1f\x7f](?:[^\x00-\x1f\x7f]*[^\s\x00-\x1f\x7f])?")


def _envs():
    """request environments the Location is joined onto when autocorrect_location_header is on (seed C05-4a)"""
    out = []
    specs = [
        ("default", dict(base_url="http://localhost/app/"), {}),
        ("path-non-ascii", dict(path="/café/menü/x", base_url="http://localhost/"), {}),
        ("script-non-ascii", dict(path="/x/y", base_url="http://localhost/büro/app/"), {}),
        ("host-idn-raw", dict(path="/a/b", base_url="http://localhost/"), {"HTTP_HOST": "bücher.example"}),
        ("host-punycode", dict(path="/a/b", base_url="http://xn--bcher-kva.example/"), {}),
        ("https-port", dict(path="/a/b c", base_url="https://example.com:8443/r/"), {}),
        ("query", dict(path="/a/é", base_url="http://localhost/", query_string="q=ä&x=1"), {}),
    ]
    for name, kw, over in specs:
        envs = {}
        for m in METHODS:
            e = create_environ(method=m, **kw)
            e.update(over)
            envs[m] = e
        out.append((name, envs))
    return out


ENVS = _envs()


def a_cases_for(bname, sti, tier):
    """thorough: the full product. quick: two complete sub-products that share body x status x method -
    (preset x callbacks x pre-op x consumption x wrapping) without Location, and (Location x autocorrect) with the
    other dimensions at one callback / no pre-op / full consumption (get_wsgi_headers and get_app_iter do not share
    state beyond status and method)."""
    locs = [(None, False)] + [(i, a) for i in range(1, len(LOCATIONS)) for a in (False, True)]
    thorough = tier == "thorough"
    padded = isinstance(STATUSES[sti][0], str) and STATUSES[sti][0] != STATUSES[sti][0].strip()
    if (thorough or bname in FULL_PRODUCT_QUICK_BODIES) and not padded:
        # the full product (thorough: every body; quick: the bodies named in FULL_PRODUCT_QUICK_BODIES), over the absolute / rooted / IRI Location forms (indices 1-7)
        full_locs = [x for x in locs if x[0] is None or x[0] < N_FULL_LOCATIONS]
        for method, preset, (loci, auto), ncb, preop, consume, wrap in itertools.product(
                METHODS, (False, True), full_locs, (0, 1, 2), PREOPS, CONSUME, WRAPS):
            yield (bname, sti, method, preset, loci, auto, ncb, preop, consume, wrap, 0)
    else:
        # padded status strings only differ in _clean_status: the quick-style sub-products in both tiers
        for method, preset, ncb, preop, consume, wrap in itertools.product(
                METHODS, (False, True), (0, 1, 2), PREOPS, CONSUME, WRAPS):
            yield (bname, sti, method, preset, None, False, ncb, preop, consume, wrap, 0)
    # Location x autocorrect x wrapping on the default request, every Location form
    for method, (loci, auto), wrap in itertools.product(METHODS, locs[1:], ("none", "from_app")):
        yield (bname, sti, method, False, loci, auto, 1, "none", "all", wrap, 0)
    # Location x autocorrect x request environment: every body; thorough adds the from_app wrapping
    if thorough:
        for envi, method, (loci, auto), wrap in itertools.product(
                range(1, len(ENVS)), METHODS, locs[1:], ("none", "from_app")):
            yield (bname, sti, method, False, loci, auto, 1, "none", "all", wrap, envi)
    else:
        for envi, method, (loci, auto) in itertools.product(range(1, len(ENVS)), METHODS, locs[1:]):
            yield (bname, sti, method, False, loci, auto, 1, "none", "all", "none", envi)


class SubResponse(Response):
    pass


def drive(case):
    """Run one case against the real code. Returns an observation dict (never raises for expected paths)."""
    bname, sti, method, preset, loci, auto, ncb, preop, consume, wrap, envi = case
    body, tracker, dp, expected = BODIES[bname]()
    st, code = STATUSES[sti]
    kw = {} if st is None else {"status": st}
    if bname == "stream":
        r = Response(**kw)
        r.stream.write(b"ab")
        r.stream.write(b"c")
    elif body == "ASSIGN":          # body assigned to .response after construction
        r = Response(**kw)
        r.response = tracker
        tracker = tracker if isinstance(tracker, CloseIter) else None
    elif body == "ASSIGN-OVER":     # ... over a body that already produced a Content-Length
        r = Response("x", **kw)
        r.response = tracker
        tracker = None
    elif body == "SETDATA":
        r = Response("old body", **kw)
        r.set_data(tracker)
        tracker = None
    elif body == "DATAPROP":
        r = Response(["old", "body"], **kw)
        r.data = tracker
        tracker = None
    else:
        r = Response(body, direct_passthrough=dp, **kw)
        if bname in ("stream-over-closable", "stream-over-str"):
            r.stream.write(b"z")
    r.autocorrect_location_header = auto
    if loci is not None:
        r.headers["Location"] = LOCATIONS[loci]
    if preset:
        r.headers["Content-Length"] = str(len(expected))
    env = ENVS[envi][1][method]
    inner = r
    if wrap in ("from_app", "from_app-buffered"):
        r = Response.from_app(inner, env, buffered=wrap.endswith("buffered"))
    elif wrap == "force_type-app":
        r = SubResponse.force_type(lambda e, sr: inner(e, sr), env)
    elif wrap == "force_type-response":
        r = SubResponse.force_type(inner)
    if r is not inner:
        r.autocorrect_location_header = auto
    calls = [0] * ncb
    for i in range(ncb):
        r.call_on_close(lambda i=i: calls.__setitem__(i, calls[i] + 1))
    if preop == "make_sequence":
        r.make_sequence()
    elif preop == "freeze":
        r.freeze()
    elif not r.direct_passthrough:
        if preop == "get_data":
            r.get_data()
        elif preop == "calc":
            r.calculate_content_length()
    if wrap == "call":
        got = {}
        app_iter = r(env, lambda status, headers, exc_info=None: got.update(status=status, headers=headers))
        status, headers = got.get("status"), got.get("headers")
    else:
        app_iter, status, headers = r.get_wsgi_response(env)
    if consume == "all":
        data = b"".join(app_iter)
    elif consume == "one":
        data = next(iter(app_iter), b"")
    else:
        data = b""
    has_close = hasattr(app_iter, "close")
    if has_close:
        app_iter.close()
    return {
        "status": status, "headers": headers, "data": data, "calls": calls, "has_close": has_close,
        "iter_closed": tracker.closed if isinstance(tracker, CloseIter) else None,
        "file_closed": tracker.closed_n if isinstance(tracker, CountFile) else None,
        "dp": dp, "expected": expected, "code": code,
    }


def judge(case, ob):
    """-> list of problem names (empty = the statement holds on this case)."""
    bname, sti, method, preset, loci, auto, ncb, preop, consume, wrap, envi = case
    bad = []
    status, headers, data, code = ob["status"], ob["headers"], ob["data"], ob["code"]
    # 'ddd reason': no surrounding blanks, no control characters, the intended code
    if not (isinstance(status, str) and STATUS_LINE.fullmatch(status) and int(status[:3]) == code):
        bad.append("status-line")
    if not isinstance(headers, list) or any(not (isinstance(h, tuple) and len(h) == 2) for h in headers):
        return bad + ["header-list-shape"]
    for k, v in headers:
        if not isinstance(k, str) or not isinstance(v, str) or "\r" in v or "\n" in v:
            bad.append("header-value")
            break
    names = [k.lower() for k, _ in headers]
    H = {k.lower(): v for k, v in headers}
    nobody = method == "HEAD" or 100 <= code < 200 or code in (204, 304)
    if isinstance(data, (bytearray, memoryview)):
        data = bytes(data)  # Response(bytearray) hands the bytearray on; the statement does not speak of item types
    if not isinstance(data, bytes):
        bad.append("body-not-bytes")
    elif nobody and data:
        bad.append("body-on-bodyless")
    if (100 <= code < 200 or code == 204) and "content-length" in names:
        bad.append("content-length-on-1xx-204")
    if names.count("content-length") > 1:
        bad.append("content-length-duplicated")
    if not nobody and consume == "all" and isinstance(data, bytes):
        if data != ob["expected"]:
            bad.append("body-bytes")
        if "content-length" in H and not preset:
            if not re.fullmatch(r"[0-9]+", H["content-length"]) or int(H["content-length"]) != len(data):
                bad.append("content-length-mismatch")
    if not nobody and consume == "one" and isinstance(data, bytes) and not ob["expected"].startswith(data):
        bad.append("body-bytes")
    if loci is not None:
        if names.count("location") != 1:
            bad.append("location-count")
        elif not ASCII_URI.fullmatch(H["location"]):
            bad.append("location-not-ascii-uri")
    calls = ob["calls"]
    if any(c == 0 for c in calls):
        bad.append("callbacks-not-run")
    if any(c > 1 for c in calls):
        bad.append("callbacks-run-twice")
    if ob["iter_closed"] is not None and ob["iter_closed"] != 1:
        bad.append("iterable-close-count")
    if ob["file_closed"] is not None and ob["file_closed"] != 1:
        bad.append("file-close-count")
    return bad


def a_nontrivial(case):
    bname, sti, method, preset, loci, auto, ncb, preop, consume, wrap, envi = case
    code = STATUSES[sti][1]
    return (method == "HEAD" or 100 <= code < 200 or code in (204, 304) or loci is not None or ncb > 0
            or bname not in ("str", "bytes") or preop != "none" or consume != "all" or wrap != "none")


def run_a_unit(unit, R, tier):
    _, bname, sti = unit
    R.use("body:" + bname, "status:%d" % sti)
    first = True
    for case in a_cases_for(bname, sti, tier):
        R.ev()
        rec = {"kind": "A", "case": list(case)}
        try:
            ob = drive(case)
        except Exception as e:  # noqa: BLE001
            rec.update(what="exception", exception=repr(e))
            R.violation("A:exception:" + type(e).__name__, rec)
            continue
        bad = judge(case, ob)
        if a_nontrivial(case):
            R.nontrivial(case)
        nobody = case[2] == "HEAD" or 100 <= ob["code"] < 200 or ob["code"] in (204, 304)
        R.use("nobody:%s" % nobody, "preop:" + case[7], "consume:" + case[8], "ncb:%d" % case[6],
              "loc:%s" % case[4], "has_close:%s" % ob["has_close"], "preset:%s" % case[3], "wrap:" + case[9], "env:" + ENVS[case[10]][0])
        if "content-length" in {k.lower() for k, _ in ob["headers"]}:
            R.use("cl-present")
        else:
            R.use("cl-absent")
        R.outcome(("A", tuple(bad), nobody, ob["dp"]))
        if first and not bad:
            first = False
            R.sample({"space": "A", "case": list(case), "status": ob["status"], "headers": ob["headers"],
                      "body": ob["data"]})
        for what in bad:
            rec2 = dict(rec, what=what, dp=ob["dp"], nobody=nobody, calls=ob["calls"], status=ob["status"],
                        iter_closed=ob["iter_closed"], file_closed=ob["file_closed"], has_close=ob["has_close"],
                        headers=[list(h) for h in ob["headers"]], data=ob["data"])
            R.violation("A:" + what, rec2)


# ------------------------------------------------------------------ B: header mutator histories

KEYS = ["X-A", "X-B"]
CLEAN_VALUES = ["v", "7", "ok", "attachment; filename=v", "attachment; filename=7"]
ITEMS = [(k, v) for k in KEYS for v in CLEAN_VALUES]
ITEM_SET = set(ITEMS)
# (label, value, is_bad)
class StrObj:
    """a value that is not a str; its text contains a line feed"""

    def __str__(self):
        return "a\nb"


VALUES = [("clean", "v", False), ("int", 7, False), ("lf", "a\nb", True), ("cr", "a\rb", True),
          ("crlf", "a\r\nX-Evil: y", True), ("trail", "v\n", True), ("lone-lf", "\n", True),
          ("lead-crlf", "\r\nX: y", True), ("obj-lf", StrObj(), True)]

# the class "characters adjacent to the line break" (seed C05-3b: a CR/LF followed by a blank - an obsolete folded
# continuation line - must be refused like any other): every line break form followed by, and preceded by, each of
# space, TAB, VT, FF, NUL and ':'
NEWLINES = [("lf", "\n"), ("cr", "\r"), ("crlf", "\r\n")]
ADJACENT = [("sp", " "), ("tab", "\t"), ("vt", "\x0b"), ("ff", "\x0c"), ("nul", "\x00"), ("colon", ":")]
ADJ_VALUES = [("%s+%s" % (nn, an), "a" + nl + adj + "b", True) for nn, nl in NEWLINES for an, adj in ADJACENT]
ADJ_VALUES += [("%s+%s" % (an, nn), "a" + adj + nl + "b", True) for nn, nl in NEWLINES for an, adj in ADJACENT]
ADJ_VALUES += [("fold-header", "a\n X: y", True), ("fold-only", "\n ", True), ("fold-tab-only", "\r\t", True),
               ("fold-crlf-tab", "a\r\n\tb", True), ("fold-trailing", "a\n ", True), ("fold-leading", " \na", True),
               ("fold-twice", "a\n \n b", True)]
N_CORE_VALUES = len(VALUES)
VALUES += ADJ_VALUES


def _has_key(h, k):
    return any(kk.lower() == k.lower() for kk, _ in h)


# name -> (callable(h, k, v) -> object to inspect in addition to h (or None), enabled(h) predicate)
def _op_or(h, k, v):
    return h | {k: v}


def _op_ior(h, k, v):
    h |= {k: v}


MUTATORS = {
    "add": (lambda h, k, v: h.add(k, v), None),
    "add_header": (lambda h, k, v: h.add_header(k, v), None),
    "set": (lambda h, k, v: h.set(k, v), None),
    "setitem-str": (lambda h, k, v: h.__setitem__(k, v), None),
    "setitem-str-othercase": (lambda h, k, v: h.__setitem__(k.lower(), v), None),
    "setdefault": (lambda h, k, v: h.setdefault(k, v), None),
    "setlist-1": (lambda h, k, v: h.setlist(k, [v]), None),
    "setlist-2": (lambda h, k, v: h.setlist(k, ["ok", v]), None),
    "setlist-2r": (lambda h, k, v: h.setlist(k, (v, "ok")), None),
    "setlistdefault": (lambda h, k, v: h.setlistdefault(k, [v]), None),
    "extend-list": (lambda h, k, v: h.extend([(k, v)]), None),
    "extend-dict": (lambda h, k, v: h.extend({k: v}), None),
    "extend-dict-list": (lambda h, k, v: h.extend({k: ["ok", v]}), None),
    "extend-multidict": (lambda h, k, v: h.extend(MultiDict([(k, "ok"), (k, v)])), None),
    "extend-kwargs": (lambda h, k, v: h.extend(**{k: v}), None),
    "update-list": (lambda h, k, v: h.update([(k, v)]), None),
    "update-dict": (lambda h, k, v: h.update({k: v}), None),
    "update-dict-list": (lambda h, k, v: h.update({k: [v, "ok"]}), None),
    "update-multidict": (lambda h, k, v: h.update(MultiDict([(k, v)])), None),
    "update-kwargs": (lambda h, k, v: h.update(**{k: v}), None),
    "ior": (_op_ior, None),
    "or": (_op_or, None),
    "setitem-int": (lambda h, k, v: h.__setitem__(0, (k, v)), lambda h: len(h) >= 1),
    "setitem-int-last": (lambda h, k, v: h.__setitem__(-1, (k, v)), lambda h: len(h) >= 2),
    "setitem-slice": (lambda h, k, v: h.__setitem__(slice(0, 1), [(k, v)]), None),
    "setitem-slice-append": (lambda h, k, v: h.__setitem__(slice(len(h), None), [("X-A", "ok"), (k, v)]), None),
    "constructor-list": (lambda h, k, v: Headers(list(h) + [(k, v)]), None),
    "constructor-dict": (lambda h, k, v: Headers({k: v}), None),
    "copy-then-add": (lambda h, k, v: (lambda c: (c.add(k, v), c)[1])(h.copy()), None),
    "add-option-kwarg": (lambda h, k, v: h.add(k, "attachment", filename=v), None),
    "set-option-kwarg": (lambda h, k, v: h.set(k, "attachment", filename=v), None),
    "add_header-option-kwarg": (lambda h, k, v: h.add_header(k, "attachment", filename=v), None),
}
def _slice_step(h, k, v):
    n = len(h._list[::2])
    h[::2] = [(k, v)] * n


MUTATORS.update({
    # extend / update mixtures (positional argument plus keyword arguments, every container form)
    "extend-headers+kwargs": (lambda h, k, v: h.extend(Headers([(k, "ok")]), **{k: v}), None),
    "extend-list+kwargs": (lambda h, k, v: h.extend([(k, "ok")], **{"X-B": v}), None),
    "extend-dict-tuple": (lambda h, k, v: h.extend({k: ("ok", v)}), None),
    "extend-dict-set": (lambda h, k, v: h.extend({k: {v}}), None),
    "extend-kwargs-list": (lambda h, k, v: h.extend(**{k: ["ok", v]}), None),
    "extend-headers-only": (lambda h, k, v: h.extend(Headers({k: [v]})), None),
    "update-headers+kwargs": (lambda h, k, v: h.update(Headers([(k, "ok")]), **{k: v}), None),
    "update-dict-tuple": (lambda h, k, v: h.update({k: ("ok", v)}), None),
    "update-dict-set": (lambda h, k, v: h.update({k: {v}}), None),
    "update-kwargs-list": (lambda h, k, v: h.update(**{k: ["ok", v]}), None),
    "update-list+kwargs": (lambda h, k, v: h.update([(k, "ok")], **{"X-B": v}), None),
    "ior-list": (lambda h, k, v: h.__ior__([(k, v)]), None),
    "ior-dict-list": (lambda h, k, v: h.__ior__({k: ["ok", v]}), None),
    "or-dict-list": (lambda h, k, v: h | {k: [v]}, None),
    # index forms
    "setitem-int-neg-first": (lambda h, k, v: h.__setitem__(-len(h), (k, v)), lambda h: len(h) >= 1),
    "setitem-int-last-pos": (lambda h, k, v: h.__setitem__(len(h) - 1, (k, v)), lambda h: len(h) >= 1),
    "setitem-slice-all": (lambda h, k, v: h.__setitem__(slice(None), [(k, v)]), None),
    "setitem-slice-neg": (lambda h, k, v: h.__setitem__(slice(-1, None), [(k, "ok"), (k, v)]), None),
    "setitem-slice-step": (_slice_step, lambda h: len(h) >= 1),
    "setitem-slice-generator": (lambda h, k, v: h.__setitem__(slice(0, 0), ((kk, vv) for kk, vv in [(k, v)])), None),
    # option keyword arguments: every mutator that takes **kwargs, several option shapes
    "add-option-underscore": (lambda h, k, v: h.add(k, "attachment", file_name=v), None),
    "add-option-two": (lambda h, k, v: h.add(k, "attachment", name="ok", filename=v), None),
    "add-option-quoted": (lambda h, k, v: h.add(k, "attachment", filename=_q(v)), None),
    "add-option-nonascii": (lambda h, k, v: h.add(k, "attachment", filename=_na(v)), None),
    "set-option-quoted": (lambda h, k, v: h.set(k, "attachment", filename=_q(v)), None),
    "add-option-value-is-bad": (lambda h, k, v: h.add(k, str(v), filename="ok"), None),
    "set-option-value-is-bad": (lambda h, k, v: h.set(k, str(v), filename="ok"), None),
    "add-option-key-lf": (lambda h, k, v: h.add(k, "attachment", **{"x\ny": v}), None),
    "set-option-key-lf": (lambda h, k, v: h.set(k, "attachment", **{"x\ry": v}), None),
    # removal (cannot store anything; the stored list must stay a clean list, only Key/IndexError may be raised)
    "remove": (lambda h, k, v: h.remove(k), None),
    "delitem-str": (lambda h, k, v: h.__delitem__(k.lower()), None),
    "delitem-int": (lambda h, k, v: h.__delitem__(0), None),
    "delitem-int-neg": (lambda h, k, v: h.__delitem__(-1), None),
    "delitem-slice": (lambda h, k, v: h.__delitem__(slice(0, 1)), None),
    "delitem-slice-neg": (lambda h, k, v: h.__delitem__(slice(-1, None)), None),
    "delitem-slice-all": (lambda h, k, v: h.__delitem__(slice(None)), None),
    "pop-none": (lambda h, k, v: h.pop(), None),
    "pop-int": (lambda h, k, v: h.pop(0), None),
    "pop-int-neg": (lambda h, k, v: h.pop(-1), None),
    "pop-str": (lambda h, k, v: h.pop(k), None),
    "pop-str-default": (lambda h, k, v: h.pop(k.lower(), "d"), None),
    "popitem": (lambda h, k, v: h.popitem(), None),
    "clear": (lambda h, k, v: h.clear(), None),
    "setlist-empty": (lambda h, k, v: h.setlist(k, []), None),
})


def _q(v):
    return ("a b\"c" + v) if isinstance(v, str) else v


def _na(v):
    return ("é" + v) if isinstance(v, str) else v


REMOVERS = {"remove", "delitem-str", "delitem-int", "delitem-int-neg", "delitem-slice", "delitem-slice-neg",
            "delitem-slice-all", "pop-none", "pop-int", "pop-int-neg", "pop-str", "pop-str-default", "popitem", "clear",
            "setlist-empty"}
# the header text contains CR/LF whatever the value is
ALWAYS_BAD = {"add-option-key-lf", "set-option-key-lf"}
OPTION_OPS = {"add-option-kwarg", "set-option-kwarg", "add_header-option-kwarg", "add-option-underscore",
              "add-option-two", "add-option-quoted", "add-option-nonascii", "set-option-quoted",
              "add-option-key-lf", "set-option-key-lf"}


# mutators whose *clean* result is a new header text outside the enumerated item universe (option encodings);
# they are applied to every state but their results are not used as further start states
OPEN_OPS = {"add-option-underscore", "add-option-two", "add-option-quoted", "add-option-nonascii",
            "set-option-quoted", "add-option-value-is-bad", "set-option-value-is-bad"}


# quick applies this reduced mutator set to the 10 000 stored lists of four items (thorough: every mutator)
QUICK_4_MUTATORS = {"add", "set", "setitem-str-othercase", "setdefault", "setlist-2", "extend-dict-list",
                    "update-kwargs-list", "ior", "setitem-int-last", "setitem-slice-neg", "setitem-slice-step",
                    "set-option-kwarg", "add-option-key-lf", "pop-str", "delitem-slice-neg"}


def remover_may_raise(state, opname, k):
    """-> exception name the removal may raise on this state, or None"""
    if opname in ("delitem-int", "delitem-int-neg", "pop-none", "pop-int", "pop-int-neg", "popitem"):
        return "IndexError" if not state else None
    if opname == "pop-str":
        return None if any(kk.lower() == k.lower() for kk, _ in state) else "KeyError"
    return None


def b_states(bound):
    for n in range(bound + 1):
        yield from itertools.product(ITEMS, repeat=n)


def build_headers(state):
    h = Headers()
    for k, v in state:
        h.add(k, v)
    return h


def stored_problem(h):
    for k, v in h:
        if not isinstance(v, str):
            return "stored-non-str"
        if "\r" in v or "\n" in v:
            return "stored-newline"
    return None


def b_transition(state, opname, k, vi):
    """-> (problem | None, raised exception name | None, new state tuple, extra object state or None)"""
    fn, _en = MUTATORS[opname]
    _label, v, is_bad = VALUES[vi]
    is_bad = is_bad or opname in ALWAYS_BAD
    h = build_headers(state)
    extra = None
    raised = None
    try:
        extra = fn(h, k, v)
    except ValueError:
        raised = "ValueError"
    except (KeyError, IndexError) as e:
        raised = "KeyError" if isinstance(e, KeyError) else "IndexError"
    except Exception as e:  # noqa: BLE001
        raised = type(e).__name__
    problem = None
    if opname in REMOVERS:
        is_bad = False
        if raised != remover_may_raise(state, opname, k):
            problem = "removal-exception:%s" % raised
        raised = None if problem is None else raised
    elif raised is not None and raised != "ValueError":
        problem = "unexpected-exception:" + raised
    elif raised == "ValueError" and not is_bad:
        problem = "clean-value-refused"
    if problem is None:
        problem = stored_problem(h)
    if problem is None and isinstance(extra, Headers):
        p2 = stored_problem(extra)
        if p2:
            problem = "returned-" + p2
    new = tuple(h)
    return problem, raised, new, (tuple(extra) if isinstance(extra, Headers) else None)


def run_b_unit(unit, R, tier):
    _, lo, hi, bound = unit
    for state in itertools.islice(b_states(bound), lo, hi):
        h0 = build_headers(state)
        if tuple(h0) != state:
            raise core.Broken(f"add() history did not build the state {state}")
        R.count("states")
        for opname, (fn, enabled) in MUTATORS.items():
            if enabled is not None and not enabled(h0):
                continue
            if len(state) > 3 and tier != "thorough" and opname not in QUICK_4_MUTATORS:
                continue
            for k in KEYS:
                # the 43 newline-adjacency values are judged on every state of <= 3 items (validation does not
                # depend on the stored list); 4-item states (thorough) get the 9 core values
                nvals = len(VALUES) if len(state) <= 3 else N_CORE_VALUES
                for vi in (range(nvals) if opname not in REMOVERS else (0,)):
                    R.ev()
                    R.count("transitions")
                    problem, raised, new, extra = b_transition(state, opname, k, vi)
                    is_bad = (VALUES[vi][2] or opname in ALWAYS_BAD) and opname not in REMOVERS
                    R.use("op:" + opname, "val:" + VALUES[vi][0])
                    if raised:
                        R.use("raised:" + opname)
                    else:
                        R.use("ok:" + opname)
                    if is_bad or new != state:
                        R.nontrivial((state, opname, k, vi))
                    R.outcome(("B", opname, raised, is_bad, problem))
                    if is_bad and raised is None:
                        R.use("bad-not-raised:" + opname)   # legitimate only where nothing had to be stored
                    # closure: whatever is stored now is again a state of the enumerated space (or beyond the bound)
                    if problem is None and len(new) <= bound and not set(new) <= ITEM_SET \
                            and opname not in OPEN_OPS:
                        if not set((kk.upper(), vv) for kk, vv in new) <= set((a.upper(), b) for a, b in ITEM_SET):
                            R.use("unclosed:%s" % (sorted(set(new) - ITEM_SET)[:1],))
                    if problem:
                        R.violation("B:" + problem.split(":")[0] + ":" + opname,
                                    {"kind": "B", "state": [list(x) for x in state], "op": opname, "key": k,
                                     "value": vi, "what": problem, "raised": raised,
                                     "after": [list(x) for x in new]})
    if lo == 0:
        R.sample({"space": "B", "state": [["X-A", "v"]], "op": "setlist-2", "value": "a\\nb",
                  "result": repr(b_transition((("X-A", "v"),), "setlist-2", "X-A", 2))})


# ------------------------------------------------------------------ F: front doors

def _wa(r, v):
    r.www_authenticate = WWWAuthenticate("basic", {"realm": v})


def _csp(r, v):
    r.content_security_policy.default_src = v


def _cc(r, v):
    r.cache_control.private = v


FRONT_DOORS = {
    "ctor-headers-list": lambda v: Response("x", headers=[("X-A", v)]),
    "ctor-headers-dict": lambda v: Response("x", headers={"X-A": v}),
    "ctor-headers-dict-list": lambda v: Response("x", headers={"X-A": ["ok", v]}),
    "ctor-content_type": lambda v: Response("x", content_type=v),
    "ctor-mimetype": lambda v: Response("x", mimetype=v),
    "prop-location": lambda v: _setattr(Response("x", status=302), "location", v),
    "prop-content_type": lambda v: _setattr(Response("x"), "content_type", v),
    "prop-mimetype": lambda v: _setattr(Response("x"), "mimetype", v),
    "prop-content_location": lambda v: _setattr(Response("x"), "content_location", v),
    "prop-content_encoding": lambda v: _setattr(Response("x"), "content_encoding", v),
    "prop-content_md5": lambda v: _setattr(Response("x"), "content_md5", v),
    "prop-accept_ranges": lambda v: _setattr(Response("x"), "accept_ranges", v),
    "prop-access_control_allow_origin": lambda v: _setattr(Response("x"), "access_control_allow_origin", v),
    "prop-retry_after": lambda v: _setattr(Response("x", status=503), "retry_after", v),
    "prop-content_range-str": lambda v: _setattr(Response("x"), "content_range", v),
    "set-vary": lambda v: _call(Response("x"), lambda r: r.vary.add(v)),
    "set-allow": lambda v: _call(Response("x"), lambda r: r.allow.add(v)),
    "set-content_language": lambda v: _call(Response("x"), lambda r: r.content_language.update([v])),
    "set_etag": lambda v: _call(Response("x"), lambda r: r.set_etag(v)),
    "www_authenticate": lambda v: _call(Response("x", status=401), lambda r: _wa(r, v)),
    "csp": lambda v: _call(Response("x"), lambda r: _csp(r, v)),
    "cache_control": lambda v: _call(Response("x"), lambda r: _cc(r, v)),
    "set_cookie-value": lambda v: _call(Response("x"), lambda r: r.set_cookie("k", v)),
    "set_cookie-path": lambda v: _call(Response("x"), lambda r: r.set_cookie("k", "x", path=v)),
    "set_cookie-expires-str": lambda v: _call(Response("x"), lambda r: r.set_cookie("k", "x", expires=v)),
    "set_cookie-domain": lambda v: _call(Response("x"), lambda r: r.set_cookie("k", "x", domain=v)),
    "headers-location-iri": lambda v: _call(Response("x", status=302), lambda r: r.headers.set("Location", "/é" + v)),
    "headers-content-location-iri": lambda v: _call(Response("x"), lambda r: r.headers.set("Content-Location", "/é" + v)),
}
def _shared_headers(v):
    hh = Headers([("X-A", "ok")])
    r = Response("x", headers=hh)   # a Headers instance is adopted, not copied
    hh.add("X-B", v)
    return r


def _wa_list(r, v):
    r.www_authenticate = [WWWAuthenticate("basic", {"realm": "ok"}), WWWAuthenticate("bearer", {"realm": v})]


def _wa_token(r, v):
    r.www_authenticate = WWWAuthenticate("bearer", token=v)


def _wa_live(r, v):
    r.www_authenticate = WWWAuthenticate("basic", {"realm": "ok"})
    r.www_authenticate.realm = v


def _cr_units(r, v):
    r.content_range.set(0, 1, 2, units=v)


def _mt_params(r, v):
    r.mimetype_params["x"] = v


def _cspro(r, v):
    r.content_security_policy_report_only.script_src = v


FRONT_DOORS.update({
    "ctor-headers-shared-Headers": lambda v: _shared_headers(v),
    "ctor-headers-tuple-pairs": lambda v: Response("x", headers=(("X-A", "ok"), ("X-B", v))),
    "prop-vary-str": lambda v: _setattr(Response("x"), "vary", v),
    "prop-vary-list": lambda v: _setattr(Response("x"), "vary", ["ok", v]),
    "prop-allow-list": lambda v: _setattr(Response("x"), "allow", [v]),
    "prop-content_language-list": lambda v: _setattr(Response("x"), "content_language", ["en", v]),
    "prop-access_control_allow_headers": lambda v: _setattr(Response("x"), "access_control_allow_headers", [v]),
    "prop-access_control_allow_methods": lambda v: _setattr(Response("x"), "access_control_allow_methods", ["GET", v]),
    "prop-access_control_expose_headers": lambda v: _setattr(Response("x"), "access_control_expose_headers", [v]),
    "www_authenticate-list": lambda v: _call(Response("x", status=401), lambda r: _wa_list(r, v)),
    "www_authenticate-token": lambda v: _call(Response("x", status=401), lambda r: _wa_token(r, v)),
    "www_authenticate-live-update": lambda v: _call(Response("x", status=401), lambda r: _wa_live(r, v)),
    "content_range-units": lambda v: _call(Response("x", status=206), lambda r: _cr_units(r, v)),
    "mimetype_params": lambda v: _call(Response("x"), lambda r: _mt_params(r, v)),
    "csp-report-only": lambda v: _call(Response("x"), lambda r: _cspro(r, v)),
    "set_etag-weak": lambda v: _call(Response("x"), lambda r: r.set_etag(v, weak=True)),
    "delete_cookie-path": lambda v: _call(Response("x"), lambda r: r.delete_cookie("k", path=v)),
    "delete_cookie-domain": lambda v: _call(Response("x"), lambda r: r.delete_cookie("k", domain=v)),
    "set_cookie-key": lambda v: _call(Response("x"), lambda r: r.set_cookie("k" + v, "x")),
    "headers-add-option": lambda v: _call(Response("x"), lambda r: r.headers.add("Content-Disposition", "attachment", filename=v)),
    "headers-extend-kwargs": lambda v: _call(Response("x"), lambda r: r.headers.extend(X_A=v)),
    "headers-update-kwargs": lambda v: _call(Response("x"), lambda r: r.headers.update(X_A=["ok", v])),
    "from_app-headers": lambda v: Response.from_app(
        lambda e, sr: (sr("200 OK", [("Content-Type", "text/plain"), ("X-A", v)]), [b"x"])[1], ENV["GET"]),
})

F_VALUES = ["v", "a\nb", "a\rb", "a\r\nSet-Cookie: x=y", "v\n", "\nv", "a\x0bb", "a b", "a\x85b"]
F_VALUES += [v for _l, v, _b in ADJ_VALUES]
F_BAD = [("\r" in v or "\n" in v) for v in F_VALUES]


def _setattr(r, name, v):
    setattr(r, name, v)
    return r


def _call(r, f):
    f(r)
    return r


def front_door(name, vi, auto):
    """-> (problem | None, raised, headers or None)"""
    v = F_VALUES[vi]
    try:
        r = FRONT_DOORS[name](v)
    except ValueError as e:  # includes UnicodeError (IDNA)
        # only the plain token "v" must be accepted everywhere; other odd values may be refused for other reasons
        return ("clean-value-refused" if vi == 0 else None), type(e).__name__, None
    except Exception as e:  # noqa: BLE001
        return "unexpected-exception:" + type(e).__name__, type(e).__name__, None
    r.autocorrect_location_header = auto
    try:
        app_iter, status, headers = r.get_wsgi_response(ENV["GET"])
        b"".join(app_iter)
        app_iter.close()
    except Exception as e:  # noqa: BLE001
        return "wsgi-exception:" + type(e).__name__, type(e).__name__, None
    for k, hv in headers:
        if not isinstance(hv, str) or "\r" in hv or "\n" in hv:
            return "header-value", None, headers
    for k, hv in headers:
        if k.lower() == "location" and not ASCII_URI.fullmatch(hv):
            return "location-not-ascii-uri", None, headers
    return None, None, headers


# ------------------------------------------------------------------ X: faults while a body is being buffered
# (seed C05-5a) a closable body raises while a pre-operation consumes it; the application catches the error and
# serves the response anyway; after the server closes the returned iterable every close callback and the wrapped
# iterable's own close must still have run exactly once.

class Fault(Exception):
    pass


class FaultIter:
    """closable iterator that raises on its k-th item: once (the item is then skipped) or every time it is reached"""

    def __init__(self, items, k, persistent):
        self.items, self.k, self.persistent = list(items), k, persistent
        self.i = 0
        self.fired = False
        self.closed = 0

    def __iter__(self):
        return self

    def __next__(self):
        if self.i == self.k and (self.persistent or not self.fired):
            self.fired = True
            if not self.persistent:
                self.i += 1
            raise Fault("read error on item %d" % self.k)
        if self.i >= len(self.items):
            raise StopIteration
        self.i += 1
        return self.items[self.i - 1]

    def close(self):
        self.closed += 1


X_ITEMS = [b"ab", "é", b"c"]
X_PREOPS = ["get_data", "make_sequence", "calc", "add_etag", "freeze", "get_data-text", "stream-write", "iter-peek"]
X_KS = [0, 1, 2, 3]     # 3 = never raises (control)


def _x_preop(r, name):
    if name == "get_data":
        r.get_data()
    elif name == "get_data-text":
        r.get_data(as_text=True)
    elif name == "make_sequence":
        r.make_sequence()
    elif name == "calc":
        r.calculate_content_length()
    elif name == "add_etag":
        r.add_etag()
    elif name == "freeze":
        r.freeze()
    elif name == "stream-write":
        r.stream.write(b"z")
    elif name == "iter-peek":
        next(r.iter_encoded(), None)


def fault_problem(k, persistent, preops, ncb, method, consume, dp, sti):
    """-> (problem | None, detail)"""
    it = FaultIter(X_ITEMS, k, persistent)
    st, code = STATUSES[sti]
    r = Response(it, status=st, direct_passthrough=dp)
    calls = [0] * ncb
    for i in range(ncb):
        r.call_on_close(lambda i=i: calls.__setitem__(i, calls[i] + 1))
    log = []
    for name in preops:
        try:
            _x_preop(r, name)
            log.append("ok")
        except Fault:
            log.append("fault")         # the application catches the read error and carries on
        except RuntimeError:
            log.append("runtime")       # direct_passthrough refuses implicit buffering: fine
        except Exception as e:  # noqa: BLE001
            return "exception-in-preop:" + type(e).__name__, (name, repr(e))
    try:
        app_iter, status, headers = r.get_wsgi_response(ENV[method])
        if consume == "all":
            try:
                for _chunk in app_iter:
                    pass
            except Fault:
                log.append("fault-while-serving")
        if hasattr(app_iter, "close"):
            app_iter.close()
    except Exception as e:  # noqa: BLE001
        return "exception-while-serving:" + type(e).__name__, (log, repr(e))
    if any(c == 0 for c in calls):
        return "callbacks-not-run", (log, calls)
    if any(c > 1 for c in calls):
        return "callbacks-run-twice", (log, calls)
    if it.closed != 1:
        return "iterable-close-count", (log, it.closed)
    return None, (log, calls, it.closed)


def x_cases(tier):
    seqs = [(a,) for a in X_PREOPS] + [(a, b) for a in X_PREOPS for b in X_PREOPS]
    if tier == "thorough":
        seqs += [(a, b, c) for a in X_PREOPS[:5] for b in X_PREOPS[:5] for c in X_PREOPS[:5]]
    for k in X_KS:
        for persistent in (False, True):
            for preops in seqs:
                for ncb in (0, 1, 2):
                    for method in ("GET", "HEAD"):
                        for consume in ("nothing", "all"):
                            for dp in (False, True):
                                for sti in (3, 5):          # 200 and 204
                                    yield (k, persistent, preops, ncb, method, consume, dp, sti)


def run_x_unit(unit, R, tier):
    _, lo, hi = unit
    for case in itertools.islice(x_cases(tier), lo, hi):
        R.ev()
        try:
            what, detail = fault_problem(*case)
        except Exception as e:  # noqa: BLE001
            what, detail = "harness-exception:" + type(e).__name__, repr(e)
        R.use("x:k%d" % case[0], "x:persistent:%s" % case[1], "x:dp:%s" % case[6])
        for name in case[2]:
            R.use("x:preop:" + name)
        if not what:
            for ev in detail[0]:
                R.use("x:log:" + ev)
        R.nontrivial(("X", case))
        R.outcome(("X", what))
        if what:
            R.violation("X:" + what.split(":")[0],
                        {"kind": "X", "case": [case[0], case[1], list(case[2])] + list(case[3:]), "what": what,
                         "detail": repr(detail)[:300]})
    if lo == 0:
        R.sample({"space": "X", "case": "item 1 raises once; get_data, make_sequence; GET; close",
                  "result": repr(fault_problem(1, False, ("get_data", "make_sequence"), 1, "GET", "nothing", False, 3))})


def run_f_unit(unit, R, tier):
    for name in FRONT_DOORS:
        for vi in range(len(F_VALUES)):
            for auto in (False, True):
                R.ev()
                problem, raised, headers = front_door(name, vi, auto)
                R.use("door:" + name)
                if raised:
                    R.use("door-raised:" + name)
                else:
                    R.use("door-ok:" + name)
                if F_BAD[vi]:
                    R.nontrivial(("F", name, vi, auto))
                R.outcome(("F", name, raised is not None, problem))
                if problem:
                    R.violation("F:" + problem.split(":")[0] + ":" + name,
                                {"kind": "F", "door": name, "value": vi, "auto": auto, "what": problem,
                                 "headers": headers})
    R.sample({"space": "F", "door": "prop-location", "value": F_VALUES[3],
              "result": repr(front_door("prop-location", 3, False))})


# ------------------------------------------------------------------ units / finalize

def units(tier):
    thorough = tier == "thorough"
    bodies = list(BODIES) if thorough else QUICK_BODIES
    nst = len(STATUSES) if thorough else N_QUICK_STATUS
    us = [("A", b, s) for b in bodies for s in range(nst)]
    bound = 4
    total = sum(len(ITEMS) ** n for n in range(bound + 1))
    step = 40
    b_units = [("B", lo, min(lo + step, total), bound) for lo in range(0, total, step)]
    # interleave so that the workers stay balanced
    out = []
    for i in range(max(len(us), len(b_units))):
        if i < len(us):
            out.append(us[i])
        if i < len(b_units):
            out.append(b_units[i])
    out.append(("F",))
    nx = sum(1 for _ in x_cases(tier))
    for lo in range(0, nx, 2000):
        out.append(("X", lo, lo + 2000))
    return out


def run_unit(unit, R, tier):
    if unit[0] == "A":
        run_a_unit(unit, R, tier)
    elif unit[0] == "B":
        run_b_unit(unit, R, tier)
    elif unit[0] == "X":
        run_x_unit(unit, R, tier)
    else:
        run_f_unit(unit, R, tier)


def finalize(R, tier):
    thorough = tier == "thorough"
    need = {"body:" + b for b in (BODIES if thorough else QUICK_BODIES)}
    need |= {"status:%d" % i for i in range(len(STATUSES) if thorough else N_QUICK_STATUS)}
    need |= {"nobody:True", "nobody:False", "cl-present", "cl-absent", "has_close:True", "has_close:False",
             "preset:True", "preset:False"}
    need |= {"preop:" + p for p in PREOPS} | {"consume:" + c for c in CONSUME} | {"ncb:0", "ncb:1", "ncb:2"}
    need |= {"wrap:" + w for w in WRAPS} | {"env:" + e[0] for e in ENVS}
    need |= {"loc:%s" % i for i in [None] + list(range(1, len(LOCATIONS)))}
    need |= {"op:" + o for o in MUTATORS} | {"val:" + v[0] for v in VALUES}
    need |= {"ok:" + o for o in MUTATORS if o not in ALWAYS_BAD}
    # every mutator must have refused a CR/LF value at least once
    need |= {"raised:" + o for o in MUTATORS if o not in REMOVERS}
    need |= {"door:" + d for d in FRONT_DOORS}
    need |= {"x:k%d" % k for k in X_KS} | {"x:preop:" + n for n in X_PREOPS}
    need |= {"x:persistent:True", "x:persistent:False", "x:dp:True", "x:dp:False", "x:log:ok", "x:log:fault",
             "x:log:runtime", "x:log:fault-while-serving"}
    missing = need - R.used
    if missing:
        raise core.Broken(f"vacuity: never exercised {sorted(missing)[:10]}")
    # a CR/LF value may go unrefused only where the mutator has nothing to store (key already present)
    # or where the option encoder escapes it
    allowed_silent = {"setdefault", "setlistdefault"} | OPTION_OPS
    silent = {t.split(":", 1)[1] for t in R.used if isinstance(t, str) and t.startswith("bad-not-raised:")}
    if silent - allowed_silent:
        raise core.Broken(f"a CR/LF value was neither refused nor reported for {sorted(silent - allowed_silent)}")
    unclosed = [t for t in R.used if isinstance(t, str) and t.startswith("unclosed:")]
    if unclosed:
        raise core.Broken(f"header state space not closed under the mutators: {unclosed[:3]}")
    refusing_doors = {t.split(":", 1)[1] for t in R.used if isinstance(t, str) and t.startswith("door-raised:")}
    if len(refusing_doors) < 15:
        raise core.Broken(f"only {len(refusing_doors)} front doors ever refused a value")
    bound = 4
    return {"bound": f"A: full product; B: <= {bound} stored header items x {len(MUTATORS)} mutator forms"
                     + ("" if thorough else f" (4-item lists: {len(QUICK_4_MUTATORS)} forms)"),
            "exhaustive": True, "closed": True,
            "header_states": int(R.counts["states"]), "header_transitions": int(R.counts["transitions"]),
            "explanation": "A is a complete product; B applies every mutator instance to every list of <= N clean "
                           "items and asserts that the result is again such a list (closed under the bound), so "
                           "every mutator history of any length that stays within N stored items is covered"}


# ------------------------------------------------------------------ replay / findings

def replay(rec):
    k = rec.get("kind")
    if k == "A":
        case = tuple(rec["case"])
        try:
            ob = drive(case)
        except Exception as e:  # noqa: BLE001
            return True, f"case {case}: exception {e!r}"
        bad = judge(case, ob)
        bname, sti, method, preset, loci, auto, ncb, preop, consume, wrap, envi = case
        text = (f"[{wrap}, request environ {ENVS[envi][0]}] Response(<{bname}>, status={STATUSES[sti][0]!r}, direct_passthrough={ob['dp']}), "
                f"Location={LOCATIONS[loci] if loci is not None else None!r} autocorrect={auto} "
                f"preset Content-Length={preset}, {ncb} call_on_close callbacks, pre-op={preop}\n"
                f"{method}: status={ob['status']!r} headers={ob['headers']}\n"
                f"server consumed {consume!r} -> {ob['data']!r}, then close(): callbacks ran {ob['calls']} times, "
                f"iterable.close x{ob['iter_closed']}, file.close x{ob['file_closed']}, app_iter has close: "
                f"{ob['has_close']}\nproblems: {bad}")
        want = rec.get("what")
        return (want in bad) if want and want != "exception" else bool(bad), text
    if k == "B":
        state = tuple(tuple(x) for x in rec["state"])
        problem, raised, new, extra = b_transition(state, rec["op"], rec["key"], rec["value"])
        return bool(problem), (f"Headers built by add(): {list(state)}\nop {rec['op']}(key={rec['key']!r}, value="
                               f"{VALUES[rec['value']][1]!r}) raised={raised}\nstored afterwards: {list(new)} "
                               f"returned: {extra}\nproblem: {problem}")
    if k == "X":
        c = rec["case"]
        case = (c[0], c[1], tuple(c[2])) + tuple(c[3:])
        what, detail = fault_problem(*case)
        return bool(what), (f"closable body {X_ITEMS} raising on item {case[0]} ({'every time' if case[1] else 'once'}), "
                            f"pre-operations {case[2]} (errors caught), {case[3]} callbacks, {case[4]}, server consumes "
                            f"{case[5]}, direct_passthrough={case[6]}, status={STATUSES[case[7]][0]}\n-> {what}: {detail}")
    if k == "F":
        problem, raised, headers = front_door(rec["door"], rec["value"], rec["auto"])
        return bool(problem), (f"front door {rec['door']} with {F_VALUES[rec['value']]!r}: raised={raised} "
                               f"headers={headers} problem={problem}")
    return True, rec.get("traceback", "unit exception")


def _dp_callbacks(rec):
    """direct_passthrough body handed to the server as-is: registered call_on_close callbacks never run."""
    if rec.get("kind") != "A" or rec.get("what") != "callbacks-not-run":
        return False
    return bool(rec.get("dp") is True and not rec.get("nobody") and rec["case"][6] > 0
                and all(c == 0 for c in rec["calls"]))


def _freeze_drops_close(rec):
    """freeze() replaced a closable body by a list without keeping its close(): it is never closed."""
    if rec.get("kind") != "A" or rec.get("what") not in ("iterable-close-count", "file-close-count"):
        return False
    if rec["case"][7] != "freeze":
        return False
    n = rec.get("iter_closed") if rec["what"] == "iterable-close-count" else rec.get("file_closed")
    return n == 0


def _stale_cl_after_assignment(rec):
    """Response('x') computed Content-Length: 1; .response was then assigned a different sequence."""
    if rec.get("kind") != "A" or rec.get("what") != "content-length-mismatch":
        return False
    if rec["case"][0] != "assigned-tuple-over-str" or rec["case"][3]:
        return False
    cl = [v for k, v in rec["headers"] if k.lower() == "content-length"]
    return cl == ["1"] and rec.get("data") == b"abcd"


FINDINGS = {"C05-passthrough-skips-close-callbacks": _dp_callbacks,
            "C05-freeze-drops-iterable-close": _freeze_drops_close}

LEVEL_TEXT = (
    "Bounded exhaustive exploration of Response.get_wsgi_response and of every Headers mutator: the complete product "
    "of body shapes, status forms, methods, Content-Length, Location, autocorrect, close callbacks, pre-operations and "
    "consumption modes is driven through the real code and judged by the statement's conjunction; header mutators are "
    "applied to every Headers state with <= N stored items (closed under the bound) with clean and CR/LF values."
)
LEVEL_NOTE = (
    "Trusted: the judge function (a literal transcription of the statement), the closable iterator / counting file "
    "used to observe close(), and create_environ. Header names with CR/LF, Response.freeze() and preset-but-wrong "
    "Content-Length values are outside the statement and not explored."
)
TECHNIQUE = "small-scope exhaustive product + closed state graph of Headers under its mutators"
DESIGN_REF = "DESIGN.md §4 C05"
