"""C11 - conditional and range responses are sound.

E1, three exhaustive spaces:

V  validators  If-None-Match / If-Match grammar x response ETag x Last-Modified x If-Modified-Since x method,
               through Response.make_conditional + get_wsgi_response, and (no If-Match) through
               http.is_resource_modified with datetime objects (sub-second, naive, non-UTC)
R  ranges      Range grammar x resource length 0..n x body supply (lists cut into k-byte items with and
               without empty items, generator, FileWrapper seekable / not, block sizes) x method x If-Range
F  send_file   real files in a scratch directory (0 / 6 / 20000 bytes, and BytesIO) x ranges x If-Range

Oracles are harness-side references that return the *set* of outcomes the property statement admits
(where the statement is silent both outcomes are in the set).
"""
from __future__ import annotations

import io
import itertools
import os
import re
import shutil
import tempfile
from datetime import datetime, timedelta, timezone

from mc import core

ID = "C11"
LEVEL = "exploration"
RULE = (
    "validators: every 1- and 2-item list over the entity-tag atoms {\"a\", W/\"a\", \"b\", W/\"b\", *, a\" (garbage), "
    "a (unquoted)} with ', ' and ',' separators, as If-None-Match or If-Match (If-Match only against responses with an "
    "ETag), x response ETag {\"a\", W/\"a\", \"b\", none} x Last-Modified {none, t, t+0.4s, t at +02:00, naive t, "
    "header text at +0200} x If-Modified-Since {none, t-1, t, t+1, t at +0200, garbage} x GET/HEAD/POST. ranges: every "
    "bytes=f-l / f- / -s with 0<=f,l,s<=n+1 plus multi-range, whitespace, unit and malformed forms x every length "
    "0..n (quick n=6, thorough n=12) x body shapes x GET/HEAD/POST x If-Range forms; send_file on real files. "
    "non-trivial = distinct case in which a conditional header or a Range header is present and the response is not a "
    "plain 200 by default (the reference admits 206/304/412/416). Round 2 adds: bodies of bytearray / memoryview "
    "items; ETag produced by add_etag (weak / overwrite) and freeze(); If-Unmodified-Since next to the other "
    "validators; every make_conditional argument form (accept_ranges False / True / 'bytes' / 'none' / 'items', "
    "complete_length int / None / absent, preset Accept-Ranges); Range + If-Range crossed with If-None-Match / If-Match "
    "/ If-Modified-Since; send_file option forms (conditional, etag str / True, mtime, max_age int / 0 / callable, "
    "server-supplied wsgi.file_wrapper seekable or not, attachment, float last_modified) and its own validators echoed "
    "back; a 20000-byte resource with every boundary position around the 8192-byte blocks through 8 body sources; "
    "thorough: lengths <= 16 and 3-item tag lists."
)
ASSUMPTIONS = [
    "validator cases carry no Range header and range cases carry no If-None-Match / If-Modified-Since (the statement "
    "does not order Range against the other conditionals)",
    "zero-length resource: 200 or 416 both admitted (werkzeug documents 200, RFC 7233 says unsatisfiable)",
    "suffix longer than the resource: 416 or the whole body both admitted",
    "whitespace inside a range-spec, non-lowercase unit, list syntax with an empty element: strict 416 or lenient "
    "206 both admitted",
    "If-Range: weak tag, or a date later than Last-Modified: pass or fail both admitted",
    "If-None-Match against a response without ETag: the date verdict or the RFC verdict ('*' matches) both admitted",
    "If-Match admitted + If-Modified-Since matching: 200 or 304 both admitted; 412 is only required to be absent "
    "when If-Match definitely admits the tag (strong comparison, or '*')",
    "the Date header is written from a fixed instant (wrappers.response.http_date patched in the check process)",
    "failed If-Range: the Range header is ignored and NOT validated - the complete 200 body also for malformed / "
    "unsatisfiable / multi-range / other-unit Range headers (round 2, seed C11-2b)",
    "accept_ranges=False or default arguments: Range ignored (complete 200); accept_ranges 'none' / 'items' or a "
    "missing complete_length: served or ignored both admitted, a 206 is still judged completely",
    "Range + If-Range + validators: a sound 304 / 412, the range outcome or the complete body are all admitted (the "
    "statement does not order Range against the validators); If-Unmodified-Since: ignored or RFC 412 both admitted",
    "send_file: file mtime set with os.utime, werkzeug.utils.time pinned, files in a private mkdtemp directory",
]

import werkzeug.wrappers.response as _wresp  # noqa: E402
from werkzeug import http as whttp  # noqa: E402
from werkzeug.exceptions import RequestedRangeNotSatisfiable  # noqa: E402
from werkzeug.test import create_environ  # noqa: E402
from werkzeug.utils import send_file  # noqa: E402
from werkzeug.wrappers import Response  # noqa: E402
from werkzeug.wsgi import FileWrapper  # noqa: E402

UTC = timezone.utc
T = datetime(2015, 1, 1, 0, 0, 0, tzinfo=UTC)
P2 = timezone(timedelta(hours=2))
TXT = {-1: "Wed, 31 Dec 2014 23:59:59 GMT", 0: "Thu, 01 Jan 2015 00:00:00 GMT", 1: "Thu, 01 Jan 2015 00:00:01 GMT"}
T_AT_P2 = "Thu, 01 Jan 2015 02:00:00 +0200"
FIXED_DATE = "Fri, 02 Jan 2015 00:00:00 GMT"

# own the clock: make_conditional() stamps a Date header with http_date(); give it a fixed instant
_real_http_date = whttp.http_date


def _fixed_http_date(timestamp=None):
    return _real_http_date(T + timedelta(days=1) if timestamp is None else timestamp)


_wresp.http_date = _fixed_http_date

# ------------------------------------------------------------------ V: validators

# '"*"' / 'W/"*"': a QUOTED star is an ordinary opaque tag, not the wildcard (seed C11-4b)
TAG_ATOMS = ['"a"', 'W/"a"', '"b"', 'W/"b"', "*", 'a"', "a", '"*"', 'W/"*"']


NMAX_THOROUGH = 16


def tag_headers3():
    """thorough only: every 3-item list"""
    return [", ".join(t) for t in itertools.product(TAG_ATOMS, repeat=3)]


def tag_headers():
    out = list(TAG_ATOMS)
    for sep in (", ", ","):
        for x, y in itertools.product(TAG_ATOMS, repeat=2):
            out.append(x + sep + y)
    out += ["", " ", '"c"', '"a" , "c"', 'W/"c", W/"a"']
    seen = []
    for h in out:
        if h not in seen:
            seen.append(h)
    return seen


ETAGS = [None, ("a", False), ("a", True), ("b", False), ("*", False)]
# (name, value handed to Response.last_modified / is_resource_modified, raw header text or None)
LMS = [
    ("none", None, None),
    ("t", T, None),
    ("t+0.4", T.replace(microsecond=400000), None),
    ("t@+02", T.astimezone(P2), None),
    ("naive-t", T.replace(tzinfo=None), None),
    ("naive-t+0.9", T.replace(tzinfo=None, microsecond=900000), None),
    ("text@+0200", None, T_AT_P2),
]
# (name, header text, instant relative to t or None when unparsable/absent)
IMSS = [("none", None, None), ("t-1", TXT[-1], -1), ("t", TXT[0], 0), ("t+1", TXT[1], 1),
        ("t@+0200", T_AT_P2, 0), ("garbage", "yesterday", None)]
METHODS = ["GET", "HEAD", "POST"]
DATA = b"hello world"


def ref_tags(h):
    """Independent reading of an entity-tag list: (star, strong, weak, garbage) or None when absent/empty."""
    if h is None or not h.strip():
        return None
    star = False
    strong, weak = set(), set()
    garbage = False
    for item in h.split(","):
        it = item.strip()
        if it == "*":
            star = True
            continue
        m = re.fullmatch(r'(W/)?"([^"]*)"', it)
        if m:
            (weak if m.group(1) else strong).add(m.group(2))
        else:
            garbage = True
    return star, strong, weak, garbage


def allowed_status(method, kind, hdr, etag, lm_present, ims_rel):
    """Set of status codes the statement admits."""
    date_match = bool(lm_present and ims_rel is not None and ims_rel >= 0)  # floor(last-modified) == t
    tags = ref_tags(hdr) if kind else None
    blank = kind is not None and hdr is not None and tags is None  # header present but empty / whitespace only
    if kind == "IM" and (tags is not None or blank):
        # an If-Match that lists nothing admits nothing: 412 is sound, 200 (header ignored) is too
        star, strong, weak, garbage = tags or (False, set(), set(), False)
        e, ew = etag
        definitely = star or (e in strong and not ew)
        allowed = {200}
        if not definitely:
            allowed.add(412)
        if date_match:
            allowed.add(304)
        return allowed
    if tags is None:
        # a blank If-None-Match may be read as absent (date decides) or as a list that matches nothing
        verdicts = {date_match, False} if blank else {date_match}
    elif etag is None:
        verdicts = {date_match, tags[0]}
    else:
        star, strong, weak, garbage = tags
        e, _ew = etag
        verdicts = {bool(star or e in strong or e in weak)}
        if garbage:
            verdicts |= {date_match, e in hdr}
    if method in ("GET", "HEAD"):
        return {304 if v else 200 for v in verdicts}
    return {200} | ({304} if True in verdicts else set())


def build_validator_response(etag, lmi):
    r = Response(DATA)
    r.headers["Date"] = FIXED_DATE
    if etag is not None:
        r.set_etag(etag[0], weak=etag[1])
    _n, lmv, lmtext = LMS[lmi]
    if lmv is not None:
        r.last_modified = lmv
    elif lmtext is not None:
        r.headers["Last-Modified"] = lmtext
    return r


def run_validator_case(kind, hdr, etag, lmi, imsi, method):
    """Returns (status code | 'EXC:..', body bytes)."""
    headers = {}
    if kind == "INM":
        headers["If-None-Match"] = hdr
    elif kind == "IM":
        headers["If-Match"] = hdr
    if IMSS[imsi][1] is not None:
        headers["If-Modified-Since"] = IMSS[imsi][1]
    env = create_environ(method=method, headers=headers)
    r = build_validator_response(etag, lmi)
    r.make_conditional(env)
    app_iter, status, _h = r.get_wsgi_response(env)
    body = b"".join(app_iter)
    if hasattr(app_iter, "close"):
        app_iter.close()
    return int(status.split()[0]), body


def validator_problem(kind, hdr, etag, lmi, imsi, method):
    lm_present = LMS[lmi][0] != "none"
    allowed = allowed_status(method, kind, hdr, etag, lm_present, IMSS[imsi][2])
    try:
        code, body = run_validator_case(kind, hdr, etag, lmi, imsi, method)
    except Exception as e:  # noqa: BLE001
        return "exception:" + type(e).__name__, allowed, repr(e), None
    what = None
    if code not in allowed:
        if code == 304:
            what = "304-unsound"
        elif code == 412:
            what = "412-admitted" if kind == "IM" else "412-without-if-match"
        elif code == 200 and allowed == {304}:
            what = "304-missing"
        else:
            what = "status"
    elif code == 304 and body:
        what = "304-with-body"
    elif code == 200 and body != (b"" if method == "HEAD" else DATA):
        what = "200-body"
    return what, allowed, code, body


def fn_problem(kind, hdr, etag, lmi, imsi):
    """http.is_resource_modified called directly with a datetime / text last_modified (no If-Match)."""
    headers = {}
    if kind == "INM":
        headers["If-None-Match"] = hdr
    if IMSS[imsi][1] is not None:
        headers["If-Modified-Since"] = IMSS[imsi][1]
    env = create_environ(method="GET", headers=headers)
    _n, lmv, lmtext = LMS[lmi]
    lm = lmv if lmv is not None else lmtext
    q = None if etag is None else whttp.quote_etag(etag[0], etag[1])
    allowed = allowed_status("GET", kind, hdr, etag, lm is not None, IMSS[imsi][2])
    want = {code == 200 for code in allowed}
    try:
        got = whttp.is_resource_modified(env, etag=q, last_modified=lm)
    except Exception as e:  # noqa: BLE001
        return "fn-exception:" + type(e).__name__, want, repr(e)
    if got not in want:
        return ("fn-unmodified-unsound" if got is False else "fn-modified-but-validators-match"), want, got
    return None, want, got


# ------------------------------------------------------------------ R: ranges

class NonSeek:
    def __init__(self, d):
        self.b = io.BytesIO(d)

    def read(self, n=-1):
        return self.b.read(n)

    def close(self):
        self.b.close()


def cut(data, k, empties):
    out = []
    if empties == "lead":
        out.append(b"")
    for i in range(0, len(data), k):
        out.append(data[i:i + k])
        if empties == "between":
            out.append(b"")
    if not out:
        out.append(b"")
    return out


def body_shapes(tier):
    """(name, kind, param) - deterministic; thorough is a superset of quick."""
    ks = (1, 2, 3) if tier != "thorough" else (1, 2, 3, 4, 5)
    bss = (1, 2, 3, 8) if tier != "thorough" else (1, 2, 3, 4, 5, 8, 64)
    shapes = [("list1", "list", (10 ** 6, None))]
    for k in ks:
        shapes.append((f"list{k}", "list", (k, None)))
        shapes.append((f"list{k}e", "list", (k, "between")))
    shapes.append(("list2lead", "list", (2, "lead")))
    shapes.append(("list2ba", "list-ba", (2, "between")))
    shapes.append(("list3mv", "list-mv", (3, "between")))
    shapes.append(("gen2mv", "gen-mv", (2, None)))
    shapes.append(("tuple2", "tuple", (2, None)))
    shapes.append(("gen2", "gen", (2, None)))
    shapes.append(("gen2e", "gen", (2, "between")))
    for bs in bss:
        shapes.append((f"fw{bs}", "fw", bs))
        shapes.append((f"fwns{bs}", "fwns", bs))
    return shapes


def make_body(shape, data):
    """-> (body, direct_passthrough, items or None)"""
    _name, kind, p = shape
    if kind == "list":
        items = cut(data, *p)
        return list(items), False, items
    if kind == "tuple":
        items = cut(data, *p)
        return tuple(items), False, items
    if kind == "gen":
        items = cut(data, *p)
        return (x for x in items), False, items
    if kind == "list-ba":
        items = cut(data, *p)
        return [bytearray(x) for x in items], False, items
    if kind == "list-mv":
        items = cut(data, *p)
        return [memoryview(x) for x in items], False, items
    if kind == "gen-mv":
        items = cut(data, *p)
        return (memoryview(x) for x in items), False, items
    if kind == "fw":
        return FileWrapper(io.BytesIO(data), p), True, None
    if kind == "fwcap":
        return FileWrapper(CAPS[p[0]][1](data), p[1]), True, None
    if kind == "fwns":
        return FileWrapper(NonSeek(data), p), True, None
    raise AssertionError(kind)


EXTRA_RANGES = [
    # multi-range
    "bytes=0-1,3-4", "bytes=0-0,-1", "bytes=0-,1-", "bytes=-1,-2", "bytes=0-0,0-0", "bytes=0-0, 2-2",
    # whitespace
    "bytes= 1 - 2 ", " bytes=1-2", "bytes =1-2", "bytes=\t1-2", "bytes=1-2 ", "bytes=- 1", "bytes= -1",
    # optional whitespace around a complete spec, every spec form and both blank characters
    "bytes=\t-2", "bytes= -1 ", "bytes=-1\t", "bytes= 0-", "bytes=0- ", "bytes=\t1-\t", "bytes=\t0-0\t", "bytes= 0-1",
    "bytes=  -2  ", "\tbytes=0-0", "bytes=0-0 , 2-2", "bytes= 0-0 ,", "bytes=0 -1", "bytes=0- 1", "bytes=-\t1",
    # units
    "items=0-1", "BYTES=1-2", "Bytes=0-", "bytes=00-01",
    # list syntax with an empty element
    "bytes=0-0,", "bytes=,0-0",
    # malformed
    "bytes=", "bytes=a-b", "bytes=--1", "bytes=1", "bytes 1-2", "bytes=1-2-3", "bytes=+1-2", "bytes=1-+2", "bytes=-",
    "bytes=,", "=0-1", "bytes==0-1", "bytes=0x1-2", "bytes=1_0-2", "bytes=-1-", "bytes=1--2", "bytes", "0-1",
    "bytes=-1.0", "bytes=0-1;q=1",
]


def range_headers(n, tier):
    top = n + 1
    out = [None]
    out += [f"bytes={a}-{b}" for a in range(top + 1) for b in range(top + 1)]
    out += [f"bytes={a}-" for a in range(top + 1)]
    out += [f"bytes=-{a}" for a in range(top + 1)]
    out += EXTRA_RANGES
    out += ["bytes=0-99999999999999999999", "bytes=-99999999999999999999", "bytes=99999999999999999999-"]
    return out


def ref_range(hdr, n):
    """Set of admitted outcomes for a GET/HEAD with this Range header: 'none' (complete 200), '416', (start, stop)."""
    if hdr is None:
        return {"none"}
    if n == 0:
        return {"none", "416"}
    loose = re.fullmatch(r"\s*bytes\s*=(.*)", hdr, re.I | re.S)
    if not loose:
        return {"416"}
    # blanks around the whole field value and around a list element are optional whitespace in every HTTP list
    # syntax: they are insignificant, so ' -5' must get the verdict of '-5' (seed C11-4a).  Blanks *inside* a spec
    # ('1 - 2', '- 1'), before '=' or a non-lowercase unit are not OWS positions: strict 416 or lenient 206.
    lenient = re.fullmatch(r"[ \t]*bytes=(.*)", hdr, re.S) is None
    specs = loose.group(1).split(",")
    if len(specs) != 1:
        nonempty = [s for s in specs if s.strip()]
        if len(nonempty) != 1 or len(specs) > 2:
            return {"416"}
        lenient = True
        specs = nonempty
    s = specs[0].strip(" \t")
    if re.search(r"\s", s):
        lenient = True
    res = None
    m = re.fullmatch(r"\s*([0-9]+)\s*-\s*([0-9]*)\s*", s)
    if m:
        a = int(m.group(1))
        b = int(m.group(2)) if m.group(2) else None
        if (b is not None and b < a) or a >= n:
            return {"416"}
        res = {(a, min(b + 1, n) if b is not None else n)}
    else:
        m = re.fullmatch(r"\s*-\s*([0-9]+)\s*", s)
        if not m:
            return {"416"}
        k = int(m.group(1))
        if k == 0:
            return {"416", "none"}
        res = {"416", (0, n)} if k > n else {(n - k, n)}
    return res | {"416"} if lenient else res


# (name, header text, verdict 'pass'|'fail'|'either', response carries validators?)
IF_RANGES = [
    ("absent", None, "pass", True),
    ("etag-match", '"a"', "pass", True),
    ("etag-other", '"b"', "fail", True),
    ("etag-weak", 'W/"a"', "either", True),
    ("date-equal", TXT[0], "pass", True),
    ("date-later", TXT[1], "either", True),
    ("date-earlier", TXT[-1], "fail", True),
    ("garbage", "xyz", "fail", True),
    ("etag-vs-bare", '"a"', "fail", False),
    ("date-vs-bare", TXT[0], "fail", False),
]


def allowed_range(method, hdr, n, ifr):
    if method not in ("GET", "HEAD"):
        return {"none"}
    base = ref_range(hdr, n)
    verdict = IF_RANGES[ifr][2]
    if hdr is None or verdict == "pass":
        return base
    if verdict == "fail":
        # a Range that has to be ignored is not validated either: "ignored (failed If-Range ...) ones the complete
        # 200 body" - also when the Range header itself is malformed / unsatisfiable / multi-range / other-unit
        return {"none"}
    return base | {"none"}


# make_conditional argument forms: (name, accept_ranges, complete_length form, preset Accept-Ranges header, verdict)
# verdict: 'base' = ranges must be served as if accept_ranges=True, 'ignored' = Range must be ignored,
#          'may' = the statement is silent whether byte ranges are served (a 206, if any, is still judged fully)
CFGS = [
    ("True", True, "n", None, "base"),
    ("False", False, "n", None, "ignored"),
    ("bytes", "bytes", "n", None, "base"),
    ("none", "none", "n", None, "may"),
    ("items", "items", "n", None, "may"),
    ("len-None", True, None, None, "may"),
    ("len-absent", True, "absent", None, "may"),
    ("preset-items", True, "n", "items", "base"),
    ("default-args", "absent", "absent", None, "ignored"),
]


def run_range_case(shape, data, hdr, method, ifr, cfg=0, extra=None):
    """-> ('416', None, None) | (code, headers dict, body)"""
    n = len(data)
    headers = dict(extra or {})
    if hdr is not None:
        headers["Range"] = hdr
    _name, ifr_text, _v, validators = IF_RANGES[ifr]
    if ifr_text is not None:
        headers["If-Range"] = ifr_text
    env = create_environ(method=method, headers=headers)
    body, dp, _items = make_body(shape, data)
    r = Response(body, direct_passthrough=dp)
    r.headers["Date"] = FIXED_DATE
    if validators:
        r.set_etag("a")
        r.last_modified = T
    _cn, ar, cl, preset, _cv = CFGS[cfg]
    kw = {}
    if ar != "absent":
        kw["accept_ranges"] = ar
    if cl != "absent":
        kw["complete_length"] = n if cl == "n" else cl
    if preset is not None:
        r.accept_ranges = preset
    try:
        r.make_conditional(env, **kw)
    except RequestedRangeNotSatisfiable:
        r.close()
        return "416", None, None
    app_iter, status, hl = r.get_wsgi_response(env)
    out = b"".join(app_iter)
    if hasattr(app_iter, "close"):
        app_iter.close()
    return int(status.split()[0]), dict(hl), out


def judge_range(result, allowed, data, method):
    """-> problem string or None"""
    code, H, body = result
    n = len(data)
    if code == "416":
        return None if "416" in allowed else "416-unexpected"
    if code == 304:
        if "304" not in allowed:
            return "304-unsound"
        return "304-with-body" if body else None
    if code == 412:
        return None if "412" in allowed else "412-unexpected"
    if code == 206:
        m = re.fullmatch(r"bytes (\d+)-(\d+)/(\d+)", H.get("Content-Range", ""))
        if not m:
            return "206-content-range-syntax"
        a, b, ln = int(m.group(1)), int(m.group(2)) + 1, int(m.group(3))
        if ln != n or not (0 <= a < b <= n):
            return "206-content-range-bounds"
        if H.get("Content-Length") != str(b - a):
            return "206-content-length"
        if (a, b) not in allowed:
            return "206-unexpected" if not any(isinstance(x, tuple) for x in allowed) else "206-wrong-range"
        if method == "HEAD":
            return "206-head-body" if body else None
        if body != data[a:b]:
            return "206-body"
        return None
    if code == 200:
        if "none" not in allowed:
            return "200-unexpected"
        if body != (b"" if method == "HEAD" else data):
            return "200-body"
        if "Content-Range" in H:
            return "200-content-range"
        if method != "HEAD" and "Content-Length" in H and H["Content-Length"] != str(n):
            return "200-content-length"
        return None
    return "status"


# ------------------------------------------------------------------ F: send_file

BIG = bytes((i * 7 + i // 251) % 256 for i in range(20000))
FILES = {"f0": b"", "f6": b"ABCDEF", "big": BIG}
BIG_RANGES = [None, "bytes=8190-8193", "bytes=0-8191", "bytes=8192-", "bytes=8191-8192", "bytes=-1", "bytes=-20000",
              "bytes=-20001", "bytes=19999-", "bytes=20000-", "bytes=0-19999", "bytes=0-20000", "bytes=100-99",
              "bytes=-0", "bytes=-8193", "bytes=16383-16384", "bytes=0-0,2-2", "bytes=x"]


def run_send_file_case(src, name, hdr, method, ifr, tmpdir):
    data = FILES[name]
    headers = {}
    if hdr is not None:
        headers["Range"] = hdr
    _n, ifr_text, _v, validators = IF_RANGES[ifr]
    if ifr_text is not None:
        headers["If-Range"] = ifr_text
    env = create_environ(method=method, headers=headers)
    kw = dict(mimetype="application/octet-stream", conditional=True, max_age=None)
    if validators:
        kw.update(etag="a", last_modified=T)
    else:
        kw.update(etag=False, last_modified=None)
    target = os.path.join(tmpdir, name) if src == "path" else io.BytesIO(data)
    try:
        r = send_file(target, env, **kw)
    except RequestedRangeNotSatisfiable:
        return "416", None, None
    if not validators:
        # a path always gets Last-Modified from the file's mtime; remove what the case says is absent
        pass
    app_iter, status, hl = r.get_wsgi_response(env)
    out = b"".join(app_iter)
    if hasattr(app_iter, "close"):
        app_iter.close()
    r.close()
    return int(status.split()[0]), dict(hl), out


# ================================================================== round 2 spaces
# every space is a pure function  <name>_problem(*params) -> (problem | None, detail)

import contextlib  # noqa: E402
import hashlib  # noqa: E402

import werkzeug.utils as _wutils  # noqa: E402

SHA = hashlib.sha1(DATA).hexdigest()

# ---- ES: where the response ETag comes from
ESRC = ["add_etag", "add_etag-weak", "set-then-add_etag-overwrite", "freeze", "set-then-add_etag", "freeze-after-set",
        "add_etag-weak-overwrite"]
ES_ATOMS = ['"%s"' % SHA, 'W/"%s"' % SHA, '"b"', "*", '"a"']
ES_HEADERS = ES_ATOMS + [x + ", " + y for x in ES_ATOMS for y in ES_ATOMS]


def _apply_esrc(r, src):
    """-> (opaque tag, weak) the response must carry afterwards"""
    if src == "add_etag":
        r.add_etag()
        return SHA, False
    if src == "add_etag-weak":
        r.add_etag(weak=True)
        return SHA, True
    if src == "set-then-add_etag-overwrite":
        r.set_etag("a")
        r.add_etag(overwrite=True)
        return SHA, False
    if src == "add_etag-weak-overwrite":
        r.set_etag("a")
        r.add_etag(overwrite=True, weak=True)
        return SHA, True
    if src == "freeze":
        r.freeze()
        return SHA, False
    if src == "set-then-add_etag":
        r.set_etag("a", weak=True)
        r.add_etag()
        return "a", True
    if src == "freeze-after-set":
        r.set_etag("a")
        r.freeze()
        return "a", False
    raise AssertionError(src)


def etagsrc_problem(si, kind, hi, lmi, imsi, method):
    hdr = ES_HEADERS[hi]
    headers = {"If-None-Match" if kind == "INM" else "If-Match": hdr}
    if IMSS[imsi][1] is not None:
        headers["If-Modified-Since"] = IMSS[imsi][1]
    env = create_environ(method=method, headers=headers)
    try:
        r = build_validator_response(None, lmi)
        etag = _apply_esrc(r, ESRC[si])
        got_tag = r.get_etag()
        r.make_conditional(env)
        app_iter, status, _h = r.get_wsgi_response(env)
        body = b"".join(app_iter)
        app_iter.close()
    except Exception as e:  # noqa: BLE001
        return "exception:" + type(e).__name__, repr(e)
    if got_tag != etag:
        return "etag-source", (got_tag, etag)
    code = int(status.split()[0])
    allowed = allowed_status(method, kind, hdr, etag, LMS[lmi][0] != "none", IMSS[imsi][2])
    if code not in allowed:
        return ("304-unsound" if code == 304 else "412-admitted" if code == 412 else
                "304-missing" if allowed == {304} else "status"), (code, sorted(allowed))
    if code == 304 and body:
        return "304-with-body", body
    if code == 200 and body != (b"" if method == "HEAD" else DATA):
        return "200-body", body
    return None, code


# ---- FD: is_resource_modified(environ, data=...) - the ETag is generated from the body bytes
def fndata_problem(hi, lmi, imsi, method):
    hdr = ES_HEADERS[hi]
    headers = {"If-None-Match": hdr}
    if IMSS[imsi][1] is not None:
        headers["If-Modified-Since"] = IMSS[imsi][1]
    env = create_environ(method=method, headers=headers)
    _n, lmv, lmtext = LMS[lmi]
    lm = lmv if lmv is not None else lmtext
    allowed = allowed_status("GET", "INM", hdr, (SHA, False), lm is not None, IMSS[imsi][2])
    want = {code == 200 for code in allowed}
    try:
        got = whttp.is_resource_modified(env, data=DATA, last_modified=lm)
    except Exception as e:  # noqa: BLE001
        return "exception:" + type(e).__name__, repr(e)
    if got not in want:
        return ("fn-unmodified-unsound" if got is False else "fn-modified-but-validators-match"), (got, sorted(want))
    try:
        whttp.is_resource_modified(env, etag='"x"', data=DATA)
    except TypeError:
        return None, got
    return "fn-etag-and-data-accepted", None


# ---- IU: If-Unmodified-Since next to the other validators (werkzeug does not evaluate it; RFC 7232 would answer
#          412 when the resource is newer - both admitted, nothing else may change)
IUSS = [("t-1", TXT[-1], -1), ("t", TXT[0], 0), ("t+1", TXT[1], 1), ("garbage", "soon", None)]
IU_HEADERS = [None] + TAG_ATOMS


def ius_problem(hi, kind, ei, lmi, imsi, iusi, method):
    hdr = IU_HEADERS[hi]
    etag = ETAGS[ei]
    headers = {"If-Unmodified-Since": IUSS[iusi][1]}
    if hdr is not None:
        headers["If-None-Match" if kind == "INM" else "If-Match"] = hdr
    if IMSS[imsi][1] is not None:
        headers["If-Modified-Since"] = IMSS[imsi][1]
    env = create_environ(method=method, headers=headers)
    try:
        r = build_validator_response(etag, lmi)
        r.make_conditional(env)
        app_iter, status, _h = r.get_wsgi_response(env)
        body = b"".join(app_iter)
        app_iter.close()
    except Exception as e:  # noqa: BLE001
        return "exception:" + type(e).__name__, repr(e)
    code = int(status.split()[0])
    lm_present = LMS[lmi][0] != "none"
    allowed = set(allowed_status(method, kind if hdr is not None else None, hdr, etag, lm_present, IMSS[imsi][2]))
    if lm_present and IUSS[iusi][2] is not None and IUSS[iusi][2] < 0 and method in ("GET", "HEAD"):
        allowed.add(412)
    if code not in allowed:
        return ("304-unsound" if code == 304 else "412-unexpected" if code == 412 else
                "304-missing" if allowed == {304} else "status"), (code, sorted(allowed))
    if code == 200 and body != (b"" if method == "HEAD" else DATA):
        return "200-body", body
    return None, code


# ---- CF: make_conditional argument forms
def allowed_cfg(method, hdr, n, ifr, cfg):
    verdict = CFGS[cfg][4]
    if verdict == "ignored" or method not in ("GET", "HEAD"):
        return {"none"}
    base = allowed_range(method, hdr, n, ifr)
    return base if verdict == "base" else base | {"none"}


def cfg_problem(cfg, si, n, hi, method, ifr):
    shape = body_shapes("quick")[si]
    data = bytes(range(65, 65 + n))
    hdr = range_headers(n, "quick")[hi]
    allowed = allowed_cfg(method, hdr, n, ifr, cfg)
    try:
        result = run_range_case(shape, data, hdr, method, ifr, cfg)
    except Exception as e:  # noqa: BLE001
        return "exception:" + type(e).__name__, repr(e)
    what = judge_range(result, allowed, data, method)
    return what, (shape[0], hdr, CFGS[cfg][0], result, sorted(map(repr, allowed)))


# ---- MX: Range + If-Range together with If-None-Match / If-Modified-Since.  The statement does not order Range
#          against the validators: a sound 304, the range outcome, or the complete body are all admitted.
MX_INM = [None, '"a"', '"b"', 'W/"a"', "*", ("IM", '"a"'), ("IM", '"b"'), ("IM", "*")]
MX_IMS = [0, 1, 2]  # index into IMSS: none, t-1, t


def mix_problem(si, n, hi, method, ifr, inmi, imsi):
    shape = body_shapes("quick")[si]
    data = bytes(range(65, 65 + n))
    hdr = range_headers(n, "quick")[hi]
    extra = {}
    cond = MX_INM[inmi]
    ckind, chdr = (None, None) if cond is None else ("INM", cond) if isinstance(cond, str) else tuple(cond)
    if ckind is not None:
        extra["If-None-Match" if ckind == "INM" else "If-Match"] = chdr
    if IMSS[imsi][1] is not None:
        extra["If-Modified-Since"] = IMSS[imsi][1]
    validators = IF_RANGES[ifr][3]
    etag = ("a", False) if validators else None
    allowed = set(allowed_range(method, hdr, n, ifr)) | {"none"}
    if ckind == "IM" and etag is None:
        return None, ("If-Match without ETag is outside the quantifier",)
    v = allowed_status(method, ckind, chdr, etag, validators, IMSS[imsi][2])
    if 304 in v:
        allowed.add("304")
    if 412 in v:
        allowed.add("412")
    try:
        result = run_range_case(shape, data, hdr, method, ifr, 0, extra)
    except Exception as e:  # noqa: BLE001
        return "exception:" + type(e).__name__, repr(e)
    what = judge_range(result, allowed, data, method)
    return what, (shape[0], hdr, extra, result, sorted(map(repr, allowed)))


# ---- SF: send_file option forms, a server-supplied wsgi.file_wrapper, 8192-multiples
class ServerWrapper:
    """what a WSGI server installs as environ['wsgi.file_wrapper'] (not seekable)"""

    def __init__(self, file, buffer_size=8192):
        self.file, self.bs = file, buffer_size

    def __iter__(self):
        return self

    def __next__(self):
        d = self.file.read(self.bs)
        if not d:
            raise StopIteration
        return d

    def close(self):
        self.file.close()


class SeekableServerWrapper(ServerWrapper):
    def seekable(self):
        return True

    def seek(self, *a):
        return self.file.seek(*a)

    def tell(self):
        return self.file.tell()


_SCRATCH = {"dir": None}


@contextlib.contextmanager
def scratch():
    """real files with a fixed mtime (= T) in a private directory; werkzeug.utils.time() pinned"""
    d = tempfile.mkdtemp(prefix="c11_")
    old_time = _wutils.time
    try:
        for fname, content in FILES.items():
            path = os.path.join(d, fname)
            with open(path, "wb") as f:
                f.write(content)
            os.utime(path, (T.timestamp(), T.timestamp()))
        _SCRATCH["dir"] = d
        _wutils.time = lambda: T.timestamp() + 86400.0
        yield d
    finally:
        _wutils.time = old_time
        _SCRATCH["dir"] = None
        shutil.rmtree(d, ignore_errors=True)


# (name, kwargs for send_file, environ file_wrapper, verdict, needs a path)
SF_CFGS = [
    ("base", dict(etag="a", last_modified=T), None, "base", False),
    ("unconditional", dict(etag="a", last_modified=T, conditional=False), None, "ignored", False),
    ("etag-auto", dict(etag=True), None, "base", True),
    ("mtime", dict(etag="a"), None, "base", True),
    ("max_age-60", dict(etag="a", last_modified=T, max_age=60), None, "base", False),
    ("max_age-0", dict(etag="a", last_modified=T, max_age=0), None, "base", False),
    ("max_age-callable", dict(etag="a", last_modified=T, max_age=lambda p: 30), None, "base", False),
    ("server-wrapper", dict(etag="a", last_modified=T), ServerWrapper, "base", False),
    ("server-wrapper-seekable", dict(etag="a", last_modified=T), SeekableServerWrapper, "base", False),
    ("attachment", dict(etag="a", last_modified=T, as_attachment=True, download_name="é x.bin"), None, "base", False),
    ("lm-timestamp", dict(etag="a", last_modified=T.timestamp() + 0.5), None, "base", False),
]


def run_sf_case(cfgi, src, name, hdr, method, ifr):
    _cn, kw, wrapper, _verdict, _np = SF_CFGS[cfgi]
    data = FILES[name]
    _n, ifr_text, _v, validators = IF_RANGES[ifr]
    kw = dict(kw)
    kw.setdefault("conditional", True)
    kw["mimetype"] = "application/octet-stream"
    if not validators:
        kw.update(etag=False, last_modified=None)
    base_env = {}
    if wrapper is not None:
        base_env["wsgi.file_wrapper"] = wrapper

    def target():
        return os.path.join(_SCRATCH["dir"], name) if src == "path" else io.BytesIO(data)

    if ifr_text is not None and kw.get("etag") is True and ifr_text in ('"a"', 'W/"a"'):
        # a client can only echo the tag it was given: fetch it with an unconditional request first
        r0 = send_file(target(), create_environ(environ_overrides=dict(base_env)), **kw)
        actual = r0.headers["ETag"]
        r0.close()
        ifr_text = ifr_text.replace('"a"', actual)
    headers = {}
    if hdr is not None:
        headers["Range"] = hdr
    if ifr_text is not None:
        headers["If-Range"] = ifr_text
    env = create_environ(method=method, headers=headers, environ_overrides=dict(base_env))
    try:
        r = send_file(target(), env, **kw)
    except RequestedRangeNotSatisfiable:
        return "416", None, None
    app_iter, status, hl = r.get_wsgi_response(env)
    out = b"".join(app_iter)
    if hasattr(app_iter, "close"):
        app_iter.close()
    r.close()
    return int(status.split()[0]), dict(hl), out


def sf_problem(cfgi, src, name, hdr, method, ifr):
    data = FILES[name]
    verdict = SF_CFGS[cfgi][3]
    allowed = {"none"} if verdict == "ignored" else allowed_range(method, hdr, len(data), ifr)
    with (scratch() if _SCRATCH["dir"] is None else contextlib.nullcontext()):
        try:
            result = run_sf_case(cfgi, src, name, hdr, method, ifr)
        except Exception as e:  # noqa: BLE001
            return "exception:" + type(e).__name__, repr(e)
    what = judge_range(result, allowed, data, method)
    return what, (SF_CFGS[cfgi][0], src, name, hdr, result[0], (result[1] or {}).get("Content-Range"),
                  None if result[2] is None else len(result[2]), sorted(map(repr, allowed)))


def sf_validator_problem(cfgi, src, name, method, mode):
    """send_file answers 304 to the validators it handed out itself (and only then)."""
    _cn, kw, wrapper, verdict, _np = SF_CFGS[cfgi]
    data = FILES[name]
    with (scratch() if _SCRATCH["dir"] is None else contextlib.nullcontext()):
        kw = dict(kw)
        kw.setdefault("conditional", True)
        kw["mimetype"] = "application/octet-stream"
        base_env = {"wsgi.file_wrapper": wrapper} if wrapper is not None else {}

        def target():
            return os.path.join(_SCRATCH["dir"], name) if src == "path" else io.BytesIO(data)
        try:
            r0 = send_file(target(), create_environ(environ_overrides=dict(base_env)), **kw)
            etag, lm = r0.headers.get("ETag"), r0.headers.get("Last-Modified")
            r0.close()
            if mode == "inm-own":
                headers = {"If-None-Match": etag} if etag else {}
                match = bool(etag)
            elif mode == "inm-other":
                headers = {"If-None-Match": '"zzz"'}
                match = False if etag else None
            elif mode == "ims-own":
                headers = {"If-Modified-Since": lm} if lm else {}
                match = bool(lm)
            else:  # ims-older
                headers = {"If-Modified-Since": TXT[-1]}
                match = False
            if lm is not None and lm != TXT[0]:
                return "last-modified-header", lm
            env = create_environ(method=method, headers=headers, environ_overrides=dict(base_env))
            r = send_file(target(), env, **kw)
            app_iter, status, hl = r.get_wsgi_response(env)
            body = b"".join(app_iter)
            app_iter.close()
            r.close()
        except Exception as e:  # noqa: BLE001
            return "exception:" + type(e).__name__, repr(e)
    code = int(status.split()[0])
    if verdict == "ignored" or method == "POST":
        want = {200}
    elif match is None:
        want = {200, 304}
    else:
        want = {304} if match else {200}
    if code not in want:
        return ("304-unsound" if code == 304 else "304-missing" if want == {304} else "status"), (code, headers)
    if code == 304 and body:
        return "304-with-body", len(body)
    if code == 200 and body != (b"" if method == "HEAD" else data):
        return "200-body", len(body)
    return None, code


# ---- BG: 20000-byte resource, every boundary position around the 8192-byte blocks
BIG_POS = [0, 1, 8191, 8192, 8193, 16383, 16384, 16385, 19999, 20000]
BIG_SUFFIX = [1, 8191, 8192, 8193, 16384, 19999, 20000, 20001]
BIG_SRC = ["path", "bytesio", "server-wrapper", "server-wrapper-seekable", "fw-default", "fwns-default", "list-8192",
           "gen-8192-mv"]


def big_headers():
    return ([f"bytes={a}-{b}" for a in BIG_POS for b in BIG_POS] + [f"bytes={a}-" for a in BIG_POS]
            + [f"bytes=-{k}" for k in BIG_SUFFIX])


def big_problem(srci, hi, method, ifr):
    src = BIG_SRC[srci]
    hdr = big_headers()[hi]
    allowed = allowed_range(method, hdr, len(BIG), ifr)
    with (scratch() if _SCRATCH["dir"] is None else contextlib.nullcontext()):
        try:
            if src in ("path", "bytesio"):
                result = run_sf_case(0, src, "big", hdr, method, ifr)
            elif src.startswith("server-wrapper"):
                result = run_sf_case(7 if src == "server-wrapper" else 8, "path", "big", hdr, method, ifr)
            else:
                shape = {"fw-default": ("fw8192", "fw", 8192), "fwns-default": ("fwns8192", "fwns", 8192),
                         "list-8192": ("list8192", "list", (8192, None)),
                         "gen-8192-mv": ("gen8192mv", "gen-mv", (8192, None))}[src]
                result = run_range_case(shape, BIG, hdr, method, ifr)
        except Exception as e:  # noqa: BLE001
            return "exception:" + type(e).__name__, repr(e)
    what = judge_range(result, allowed, BIG, method)
    return what, (src, hdr, result[0], (result[1] or {}).get("Content-Range"),
                  None if result[2] is None else len(result[2]), sorted(map(repr, allowed)))



# ---- CP: capability combinations of the file object behind a FileWrapper (seed C11-3a): what the wrapped object
#          says about seeking (seekable() True / False / absent / raising), whether it has seek / tell, and whether
#          seek raises - as io.RawIOBase / io.BufferedIOBase objects and as duck-typed objects.
import errno  # noqa: E402


class RawNonSeek(io.RawIOBase):
    """like a pipe / socket body: seekable() is False, but .seek / .tell exist (and raise UnsupportedOperation)"""

    def __init__(self, d):
        self._b = io.BytesIO(d)

    def readable(self):
        return True

    def readinto(self, buf):
        return self._b.readinto(buf)


class RawSeek(RawNonSeek):
    def seekable(self):
        return True

    def seek(self, pos, whence=0):
        return self._b.seek(pos, whence)

    def tell(self):
        return self._b.tell()


class BufBaseNonSeek(io.BufferedIOBase):
    def __init__(self, d):
        self._b = io.BytesIO(d)

    def readable(self):
        return True

    def read(self, n=-1):
        return self._b.read(n)


class Duck:
    """plain object with read(); further attributes are attached per capability form"""

    def __init__(self, d):
        self._b = io.BytesIO(d)

    def read(self, n=-1):
        return self._b.read(n)

    def close(self):
        self._b.close()


def _espipe(*a):
    raise OSError(errno.ESPIPE, "Illegal seek")


def _unsupported(*a):
    raise io.UnsupportedOperation("seek")


def _duck(d, seekable=None, seek=None, tell=None):
    o = Duck(d)
    if seekable == "raise":
        def _s():
            raise ValueError("I/O operation on closed file")
        o.seekable = _s
    elif seekable is not None:
        o.seekable = lambda: seekable
    if seek == "work":
        o.seek = o._b.seek
    elif seek is not None:
        o.seek = seek
    if tell == "work":
        o.tell = o._b.tell
    elif tell is not None:
        o.tell = tell
    return o


# (name, factory(data), lenient: an exception is admitted because the object contradicts itself)
CAPS = [
    ("raw-nonseek", RawNonSeek, False),
    ("buffered-reader-nonseek", lambda d: io.BufferedReader(RawNonSeek(d), 4), False),
    ("bufbase-nonseek", BufBaseNonSeek, False),
    ("raw-seek", RawSeek, False),
    ("buffered-reader-seek", lambda d: io.BufferedReader(RawSeek(d), 4), False),
    ("bytesio", io.BytesIO, False),
    ("duck-read-only", lambda d: _duck(d), False),
    ("duck-false-seek-espipe", lambda d: _duck(d, False, _espipe, _espipe), False),
    ("duck-false-seek-unsupported-tell-works", lambda d: _duck(d, False, _unsupported, "work"), False),
    ("duck-false-seek-works", lambda d: _duck(d, False, "work", "work"), False),
    ("duck-false-no-seek-tell", lambda d: _duck(d, False, None, "work"), False),
    ("duck-seek-tell-no-seekable", lambda d: _duck(d, None, "work", "work"), False),
    ("duck-true-seek-tell", lambda d: _duck(d, True, "work", "work"), False),
    ("duck-tell-only", lambda d: _duck(d, None, None, "work"), False),
    ("duck-seekable-raises", lambda d: _duck(d, "raise", "work", "work"), True),
    ("duck-true-no-tell", lambda d: _duck(d, True, "work", None), True),
    ("duck-seek-raises-no-seekable", lambda d: _duck(d, None, _unsupported, "work"), True),
]
CAP_BS = [1, 2, 3, 8]


class ServerWrapperClaimsNoSeek(ServerWrapper):
    """server wrapper around a real file that reports seekable() False although seek exists (and raises)"""

    def seekable(self):
        return False

    seek = staticmethod(_espipe)
    tell = staticmethod(_espipe)


class ServerWrapperSeekNoFlag(ServerWrapper):
    """seek / tell but no seekable(): _RangeWrapper must not assume it can seek"""

    def seek(self, *a):
        return self.file.seek(*a)

    def tell(self):
        return self.file.tell()


def cap_problem(ci, bs, n, hi, method, ifr, route=0):
    """route 0: Response(FileWrapper(obj, bs), direct_passthrough=True).make_conditional; 1: send_file(obj)"""
    name, factory, lenient = CAPS[ci]
    data = bytes(range(65, 65 + n))
    hdr = range_headers(n, "quick")[hi]
    try:
        if route == 0:
            allowed = allowed_range(method, hdr, n, ifr)
            result = run_range_case((name, "fwcap", (ci, bs)), data, hdr, method, ifr)
        else:
            # send_file only knows the length of a BytesIO: for any other object the Range is ignored or served
            allowed = set(allowed_range(method, hdr, n, ifr)) | {"none"}
            headers = {} if hdr is None else {"Range": hdr}
            if IF_RANGES[ifr][1] is not None:
                headers["If-Range"] = IF_RANGES[ifr][1]
            env = create_environ(method=method, headers=headers)
            kw = dict(mimetype="application/octet-stream", etag="a", last_modified=T) if IF_RANGES[ifr][3] else \
                dict(mimetype="application/octet-stream", etag=False)
            try:
                r = send_file(factory(data), env, **kw)
            except RequestedRangeNotSatisfiable:
                result = ("416", None, None)
            else:
                app_iter, status, hl = r.get_wsgi_response(env)
                out = b"".join(app_iter)
                if hasattr(app_iter, "close"):
                    app_iter.close()
                r.close()
                result = (int(status.split()[0]), dict(hl), out)
    except Exception as e:  # noqa: BLE001
        if lenient:
            return None, (name, "exception admitted", type(e).__name__)
        return "exception:" + type(e).__name__, (name, bs, hdr, method, repr(e))
    what = judge_range(result, allowed, data, method)
    return what, (name, bs, hdr, result, sorted(map(repr, allowed)))


def capsrv_problem(wi, name, hdr, method, ifr):
    """send_file(path) through a server-supplied wsgi.file_wrapper of each capability form"""
    wrapper = [ServerWrapper, SeekableServerWrapper, ServerWrapperClaimsNoSeek, ServerWrapperSeekNoFlag][wi]
    data = FILES[name]
    allowed = allowed_range(method, hdr, len(data), ifr)
    with (scratch() if _SCRATCH["dir"] is None else contextlib.nullcontext()):
        headers = {} if hdr is None else {"Range": hdr}
        if IF_RANGES[ifr][1] is not None:
            headers["If-Range"] = IF_RANGES[ifr][1]
        env = create_environ(method=method, headers=headers, environ_overrides={"wsgi.file_wrapper": wrapper})
        try:
            try:
                r = send_file(os.path.join(_SCRATCH["dir"], name), env, mimetype="application/octet-stream",
                              etag="a", last_modified=T)
            except RequestedRangeNotSatisfiable:
                result = ("416", None, None)
            else:
                app_iter, status, hl = r.get_wsgi_response(env)
                out = b"".join(app_iter)
                if hasattr(app_iter, "close"):
                    app_iter.close()
                r.close()
                result = (int(status.split()[0]), dict(hl), out)
        except Exception as e:  # noqa: BLE001
            return "exception:" + type(e).__name__, (wrapper.__name__, hdr, method, repr(e))
    what = judge_range(result, allowed, data, method)
    return what, (wrapper.__name__, name, hdr, result[0], (result[1] or {}).get("Content-Range"),
                  None if result[2] is None else len(result[2]))


# ---- RW: serve a file, rewrite it, revalidate with the validators handed out before (seed C11-6a).  The bytes
#          differ, so the old ETag does not match the current representation: no 304 on If-None-Match, no 206 on
#          If-Range - also when the size is unchanged and the mtime moved by less than a second.  (Last-Modified has
#          one-second resolution by statement, so only entity-tag validators are used here.)
RW_BASE_NS = 1_700_000_000 * 10 ** 9
# (first mtime, second mtime) in nanoseconds relative to the base
RW_MTIMES = [(0, 500_000_000), (250_000_000, 750_000_000), (0, 1_000_000), (700_000_000, 1_200_000_000),
             (999_000_000, 1_001_000_000), (500_000_000, 0), (0, 999_999_000), (0, 0), (0, 2_000_000_000),
             (0, 1_000_000_000)]
RW_CONTENT = [(b"ABCDEF", b"abcdef"), (b"ABCDEF", b"ABCDEG"), (b"ABCDEF", b"ABCDEFG"), (b"ABCDEF", b"ABCDEF"),
              (b"", b"")]
RW_MODES = ["inm", "inm-weak", "inm+ims", "if-range", "if-range+range-suffix", "inm-list"]


def rewrite_problem(mi, ci, mode, method, etag_kind):
    m1, m2 = RW_MTIMES[mi]
    old, new = RW_CONTENT[ci]
    changed = old != new
    if changed and m1 == m2 and len(old) == len(new):
        # same size, identical mtime: no stat-based validator can notice; nothing is demanded
        return None, "undetectable by construction"
    if not changed and m1 != m2 and etag_kind == "auto":
        # same bytes, new mtime: whether the automatic tag still matches is the server's choice
        same_tag_expected = None
    else:
        same_tag_expected = not changed
    d = tempfile.mkdtemp(prefix="c11_rw_")
    path = os.path.join(d, "f.bin")
    kw = dict(mimetype="application/octet-stream", conditional=True)
    if etag_kind == "auto":
        kw["etag"] = True
    try:
        with open(path, "wb") as f:
            f.write(old)
        os.utime(path, ns=(RW_BASE_NS + m1, RW_BASE_NS + m1))
        r0 = send_file(path, create_environ(), **kw)
        tag, lm = r0.headers.get("ETag"), r0.headers.get("Last-Modified")
        first = b"".join(r0.response)
        r0.close()
        if tag is None:
            return "no-etag", None
        if first != old:
            return "first-body", first
        with open(path, "wb") as f:
            f.write(new)
        os.utime(path, ns=(RW_BASE_NS + m2, RW_BASE_NS + m2))
        weak = "W/" + tag if not tag.startswith("W/") else tag
        headers = {
            "inm": {"If-None-Match": tag},
            "inm-weak": {"If-None-Match": weak},
            "inm+ims": {"If-None-Match": tag, "If-Modified-Since": lm},
            "inm-list": {"If-None-Match": '"zzz", ' + tag},
            "if-range": {"Range": "bytes=1-2", "If-Range": tag},
            "if-range+range-suffix": {"Range": "bytes=-2", "If-Range": tag},
        }[mode]
        env = create_environ(method=method, headers=headers)
        try:
            r = send_file(path, env, **kw)
        except RequestedRangeNotSatisfiable:
            return ("416-unexpected" if changed and mode.startswith("if-range") else None), "416"
        app_iter, status, hl = r.get_wsgi_response(env)
        body = b"".join(app_iter)
        if hasattr(app_iter, "close"):
            app_iter.close()
        r.close()
    except Exception as e:  # noqa: BLE001
        return "exception:" + type(e).__name__, repr(e)
    finally:
        shutil.rmtree(d, ignore_errors=True)
    code = int(status.split()[0])
    H = dict(hl)
    detail = (tag, H.get("ETag"), code, H.get("Content-Range"), body)
    if method == "POST":
        return (None if code == 200 and body == new else "post-not-plain-200"), detail
    if changed:
        # the representation the old tag named is gone: only the complete new body is sound
        if code == 304:
            return "304-stale", detail
        if code == 206:
            return "206-stale-if-range", detail
        if code != 200 or body != (b"" if method == "HEAD" else new):
            return "200-body", detail
        return None, detail
    if same_tag_expected is None:
        ok = (code in (200, 304)) if mode.startswith("inm") else (code in (200, 206))
        return (None if ok else "status"), detail
    # unchanged file, unchanged mtime: the validators match -> 304 / the range is served
    if mode.startswith("inm"):
        return (None if code == 304 and not body else "304-missing"), detail
    if len(new) == 0:
        return (None if code == 200 else "status"), detail
    want = new[1:3] if mode == "if-range" else new[-2:]
    if code != 206 or (method == "GET" and body != want):
        return "206-missing", detail
    return None, detail


R2 = {"rewrite": rewrite_problem, "cap": cap_problem, "capsrv": capsrv_problem, "fndata": fndata_problem, "etagsrc": etagsrc_problem, "ius": ius_problem, "cfg": cfg_problem, "mix": mix_problem, "sf": sf_problem,
      "sfval": sf_validator_problem, "big": big_problem}


def r2_eval(R, space, params, nontrivial=True):
    R.ev()
    try:
        what, detail = R2[space](*params)
    except Exception as e:  # noqa: BLE001
        what, detail = "harness-exception:" + type(e).__name__, repr(e)
    R.use("r2:" + space)
    R.outcome((space, what))
    if nontrivial:
        R.nontrivial((space, params))
    if what:
        R.violation(f"{space}:{what}", {"kind": "r2", "space": space, "params": list(params), "what": what,
                                        "detail": repr(detail)[:600]})
    return what, detail


# ------------------------------------------------------------------ units

def units(tier):
    us = []
    ths = tag_headers()
    per = 3
    for i in range(0, len(ths), per):
        us.append(("val", i, i + per))
    nmax = NMAX_THOROUGH if tier == "thorough" else 6
    shapes = body_shapes(tier)
    for n in range(nmax + 1):
        for si in range(len(shapes)):
            us.append(("rng", n, si))
    for name in FILES:
        for src in ("path", "bytesio"):
            us.append(("file", name, src))
    # ---- round 2
    T_ = tier == "thorough"
    if T_:
        t3 = tag_headers3()
        for i in range(0, len(t3), 7):
            us.append(("val3", i, i + 7))
    for si in range(len(ESRC)):
        for kind in ("INM", "IM"):
            us.append(("r2es", si, kind))
    for hi in range(len(IU_HEADERS)):
        us.append(("r2ius", hi))
    for cfg in range(1, len(CFGS)):
        for name in R2_SHAPES:
            us.append(("r2cfg", cfg, name))
    for name in R2_SHAPES[:2] if not T_ else R2_SHAPES:
        for n in ((0, 3, 6) if not T_ else range(0, 9)):
            us.append(("r2mix", name, n))
    for cfgi in range(len(SF_CFGS)):
        for src in ("path", "bytesio"):
            if SF_CFGS[cfgi][4] and src != "path":
                continue
            for name in ("f6", "big", "f0"):
                us.append(("r2sf", cfgi, src, name))
    us.append(("r2sfval",))
    for ci in range(len(CAPS)):
        us.append(("r2cap", ci))
    us.append(("r2capsrv",))
    for mi in range(len(RW_MTIMES)):
        us.append(("r2rewrite", mi))
    for srci in range(len(BIG_SRC)):
        us.append(("r2big", srci))
    return us


R2_SHAPES = ["list1", "list2e", "fw2", "gen2", "fwns3", "list3mv"]


def shape_index(name):
    return [x[0] for x in body_shapes("quick")].index(name)


IFR_SHAPES = {"list1", "list2e", "gen2", "fw2", "fwns3"}


def run_unit(unit, R, tier):
    kind = unit[0]
    if kind == "val":
        run_val_unit(unit, R, tier)
    elif kind == "val3":
        run_val_unit(unit, R, tier, tag_headers3())
    elif kind == "rng":
        run_rng_unit(unit, R, tier)
    elif kind == "file":
        run_file_unit(unit, R, tier)
    else:
        run_r2_unit(unit, R, tier)


def run_r2_unit(unit, R, tier):
    kind = unit[0]
    T_ = tier == "thorough"
    if kind == "r2es":
        _, si, k = unit
        for hi in range(len(ES_HEADERS)):
            for lmi in range(len(LMS)):
                for imsi in range(len(IMSS)):
                    for method in METHODS:
                        r2_eval(R, "etagsrc", (si, k, hi, lmi, imsi, method))
        R.use("esrc:" + ESRC[si])
        if si == 0 and k == "INM":
            for hi in range(len(ES_HEADERS)):
                for lmi in range(len(LMS)):
                    for imsi in range(len(IMSS)):
                        for method in METHODS:
                            r2_eval(R, "fndata", (hi, lmi, imsi, method))
    elif kind == "r2ius":
        hi = unit[1]
        for k in ("INM", "IM"):
            for ei in range(len(ETAGS)):
                if k == "IM" and (ETAGS[ei] is None or IU_HEADERS[hi] is None):
                    continue
                for lmi in range(len(LMS)):
                    for imsi in range(len(IMSS)):
                        for iusi in range(len(IUSS)):
                            for method in METHODS:
                                r2_eval(R, "ius", (hi, k, ei, lmi, imsi, iusi, method))
    elif kind == "r2cfg":
        _, cfg, name = unit
        si = shape_index(name)
        R.use("cfg:" + CFGS[cfg][0])
        for n in range(0, 7):
            for hi in range(len(range_headers(n, "quick"))):
                for method in METHODS:
                    for ifr in (0, 2, 4):
                        what, d = r2_eval(R, "cfg", (cfg, si, n, hi, method, ifr))
                        if not what:
                            R.use("cfg-code:%s:%s" % (CFGS[cfg][4], d[3][0]))
    elif kind == "r2mix":
        _, name, n = unit
        si = shape_index(name)
        for hi in range(len(range_headers(n, "quick"))):
            for method in METHODS:
                for ifr in range(len(IF_RANGES)):
                    for inmi in range(len(MX_INM)):
                        for imsi in MX_IMS:
                            if inmi == 0 and imsi == 0:
                                continue  # no validators: the plain range space
                            what, d = r2_eval(R, "mix", (si, n, hi, method, ifr, inmi, imsi))
                            if not what and len(d) > 3:
                                R.use("mix-code:%s" % (d[3][0],))
    elif kind == "r2sf":
        _, cfgi, src, name = unit
        n = len(FILES[name])
        hdrs = BIG_RANGES if name == "big" else range_headers(n, "quick")
        R.use("sfcfg:" + SF_CFGS[cfgi][0])
        with scratch():
            for hdr in hdrs:
                for method in METHODS:
                    for ifr in range(len(IF_RANGES)):
                        if not IF_RANGES[ifr][3] and (src == "path" or SF_CFGS[cfgi][4]):
                            continue
                        what, d = r2_eval(R, "sf", (cfgi, src, name, hdr, method, ifr))
                        if not what:
                            R.use("sf-code:%s:%s" % (SF_CFGS[cfgi][3], d[4]))
    elif kind == "r2cap":
        ci = unit[1]
        R.use("cap:" + CAPS[ci][0])
        for bs in (CAP_BS if not T_ else CAP_BS + [4, 5, 64]):
            for n in range(0, 7 if not T_ else 11):
                for hi in range(len(range_headers(n, "quick"))):
                    for method in METHODS:
                        for ifr in ((0,) if not T_ else range(len(IF_RANGES))):
                            what, d = r2_eval(R, "cap", (ci, bs, n, hi, method, ifr))
                            if not what and len(d) > 3:
                                R.use("cap-code:%s" % (d[3][0],))
                            elif not what:
                                R.use("cap-exception-admitted")
        for n in (0, 3, 6):
            for hi in range(len(range_headers(n, "quick"))):
                for method in METHODS:
                    for ifr in (0, 2):
                        r2_eval(R, "cap", (ci, 0, n, hi, method, ifr, 1))
    elif kind == "r2rewrite":
        mi = unit[1]
        for ci in range(len(RW_CONTENT)):
            for mode in RW_MODES:
                for method in METHODS:
                    for ek in ("auto",):
                        what, d = r2_eval(R, "rewrite", (mi, ci, mode, method, ek))
                        if not what and d and isinstance(d, tuple):
                            R.use("rw-code:%s" % d[2], "rw-tag-changed:%s" % (d[0] != d[1]))
        if mi == 0:
            R.sample({"space": "rewrite", "case": "same size, mtime +0.5 s, If-None-Match: old tag",
                      "result": repr(rewrite_problem(0, 0, "inm", "GET", "auto"))})
    elif kind == "r2capsrv":
        with scratch():
            for wi in range(4):
                for name in ("f6", "big"):
                    hdrs = BIG_RANGES if name == "big" else range_headers(6, "quick")
                    for hdr in hdrs:
                        for method in METHODS:
                            for ifr in (0, 2, 4):
                                what, d = r2_eval(R, "capsrv", (wi, name, hdr, method, ifr))
                                if not what:
                                    R.use("capsrv:%d:%s" % (wi, d[3]))
    elif kind == "r2sfval":
        with scratch():
            for cfgi in range(len(SF_CFGS)):
                for src in ("path", "bytesio"):
                    if SF_CFGS[cfgi][4] and src != "path":
                        continue
                    for name in ("f6", "big", "f0"):
                        for method in METHODS:
                            for mode in ("inm-own", "inm-other", "ims-own", "ims-older"):
                                what, d = r2_eval(R, "sfval", (cfgi, src, name, method, mode))
                                if not what:
                                    R.use("sfval-code:%s" % d)
    elif kind == "r2big":
        srci = unit[1]
        R.use("bigsrc:" + BIG_SRC[srci])
        with scratch():
            for hi in range(len(big_headers())):
                for method in METHODS:
                    for ifr in (range(len(IF_RANGES)) if T_ else (0, 2, 4)):
                        if not IF_RANGES[ifr][3] and BIG_SRC[srci] in ("path", "server-wrapper", "server-wrapper-seekable"):
                            continue
                        what, d = r2_eval(R, "big", (srci, hi, method, ifr))
                        if not what:
                            R.use("big-code:%s" % (d[2],))
        R.sample({"space": "8192-multiples", "source": BIG_SRC[srci], "headers": len(big_headers())})


def run_val_unit(unit, R, tier, all_headers=None):
    _, lo, hi = unit
    ths = (all_headers if all_headers is not None else tag_headers())[lo:hi]
    for hdr in ths:
        for kind in ("INM", "IM"):
            for etag in ETAGS:
                if kind == "IM" and etag is None:
                    continue
                for lmi in range(len(LMS)):
                    for imsi in range(len(IMSS)):
                        for method in METHODS:
                            one_validator(R, kind, hdr, etag, lmi, imsi, method)
                        if kind == "INM":
                            one_fn(R, kind, hdr, etag, lmi, imsi)
    if lo == 0 and all_headers is None:
        for etag in ETAGS:
            for lmi in range(len(LMS)):
                for imsi in range(len(IMSS)):
                    for method in METHODS:
                        one_validator(R, None, None, etag, lmi, imsi, method)
                    one_fn(R, None, None, etag, lmi, imsi)


def one_validator(R, kind, hdr, etag, lmi, imsi, method):
    R.ev()
    what, allowed, code, body = validator_problem(kind, hdr, etag, lmi, imsi, method)
    R.use("v:kind:%s" % kind, "v:lm:%s" % LMS[lmi][0], "v:ims:%s" % IMSS[imsi][0], "v:code:%s" % code,
          "v:allowed:%s" % sorted(allowed))
    R.outcome(("v", code, tuple(sorted(allowed))))
    if allowed != {200}:
        R.nontrivial(("v", kind, hdr, etag, lmi, imsi, method))
    if what:
        R.violation("validator:" + what,
                    {"kind": "validator", "cond": kind, "header": hdr, "etag": etag, "lm": lmi, "ims": imsi,
                     "method": method, "allowed": sorted(allowed), "code": code, "what": what})


def one_fn(R, kind, hdr, etag, lmi, imsi):
    R.ev()
    what, want, got = fn_problem(kind, hdr, etag, lmi, imsi)
    R.use("fn:%s" % got)
    R.outcome(("fn", got, tuple(sorted(want))))
    if what:
        R.violation("validator:" + what,
                    {"kind": "fn", "cond": kind, "header": hdr, "etag": etag, "lm": lmi, "ims": imsi,
                     "want_modified": sorted(want), "got": got, "what": what})


def run_rng_unit(unit, R, tier):
    _, n, si = unit
    shape = body_shapes(tier)[si]
    data = bytes(range(65, 65 + n))
    hdrs = range_headers(n, tier)
    full_ifr = tier == "thorough" or shape[0] in IFR_SHAPES
    R.use("shape:" + shape[1])
    for hi, hdr in enumerate(hdrs):
        for method in METHODS:
            for ifr in (range(len(IF_RANGES)) if full_ifr else (0,)):
                one_range(R, shape, data, hdr, method, ifr)
    if n == 4:
        try:
            ex = repr(run_range_case(shape, data, "bytes=1-2", "GET", 0))
        except Exception as e:  # noqa: BLE001 - reported per case above
            ex = repr(e)
        R.sample({"space": "ranges", "shape": shape[0], "length": n, "headers": len(hdrs),
                  "example": {"Range": "bytes=1-2", "result": ex}})


def one_range(R, shape, data, hdr, method, ifr):
    R.ev()
    n = len(data)
    allowed = allowed_range(method, hdr, n, ifr)
    rec = {"kind": "range", "shape": list(shape), "n": n, "header": hdr, "method": method, "ifr": ifr}
    try:
        result = run_range_case(shape, data, hdr, method, ifr)
    except Exception as e:  # noqa: BLE001
        rec["exception"] = repr(e)
        R.violation("range:exception:" + type(e).__name__, rec)
        return
    what = judge_range(result, allowed, data, method)
    R.use("r:code:%s" % result[0], "r:ifr:%s" % IF_RANGES[ifr][0])
    if hdr is not None and allowed != {"none"}:
        R.nontrivial(("r", shape[0], n, hdr, method, ifr))
    R.outcome(("r", result[0], what))
    for a in allowed:
        R.use("r:allowed:%s" % (a if isinstance(a, str) else "range"))
    if what:
        _b, _dp, items = make_body(shape, data)
        rec.update(what=what, allowed=sorted(map(repr, allowed)), code=result[0],
                   content_range=(result[1] or {}).get("Content-Range"), got=result[2], items=items)
        R.violation("range:" + what, rec)


def run_file_unit(unit, R, tier):
    _, name, src = unit
    data = FILES[name]
    n = len(data)
    tmpdir = tempfile.mkdtemp(prefix="c11_")
    try:
        for fname, content in FILES.items():
            with open(os.path.join(tmpdir, fname), "wb") as f:
                f.write(content)
        hdrs = BIG_RANGES if name == "big" else range_headers(n, tier)
        for hdr in hdrs:
            for method in METHODS:
                for ifr in range(len(IF_RANGES)):
                    if not IF_RANGES[ifr][3] and src == "path":
                        continue  # a path always carries Last-Modified (mtime): not a 'bare' response
                    R.ev()
                    allowed = allowed_range(method, hdr, n, ifr)
                    rec = {"kind": "file", "file": name, "src": src, "header": hdr, "method": method, "ifr": ifr}
                    try:
                        result = run_send_file_case(src, name, hdr, method, ifr, tmpdir)
                    except Exception as e:  # noqa: BLE001
                        rec["exception"] = repr(e)
                        R.violation("file:exception:" + type(e).__name__, rec)
                        continue
                    what = judge_range(result, allowed, data, method)
                    R.use("f:code:%s" % result[0], "f:src:" + src)
                    R.outcome(("f", result[0], what))
                    if hdr is not None and allowed != {"none"}:
                        R.nontrivial(("f", name, src, hdr, method, ifr))
                    if what:
                        rec.update(what=what, allowed=sorted(map(repr, allowed)), code=result[0],
                                   content_range=(result[1] or {}).get("Content-Range"),
                                   got_len=None if result[2] is None else len(result[2]))
                        R.violation("file:" + what, rec)
    finally:
        shutil.rmtree(tmpdir, ignore_errors=True)


def finalize(R, tier):
    need = {"v:kind:None", "v:kind:INM", "v:kind:IM", "v:code:200", "v:code:304", "v:code:412",
            "v:allowed:[200]", "v:allowed:[304]", "v:allowed:[200, 304]", "v:allowed:[200, 412]",
            "fn:True", "fn:False",
            "r:code:200", "r:code:206", "r:code:416", "r:allowed:none", "r:allowed:416", "r:allowed:range",
            "f:code:200", "f:code:206", "f:code:416", "f:src:path", "f:src:bytesio",
            "shape:list", "shape:tuple", "shape:gen", "shape:fw", "shape:fwns"}
    need |= {"v:lm:" + x[0] for x in LMS} | {"v:ims:" + x[0] for x in IMSS} | {"r:ifr:" + x[0] for x in IF_RANGES}
    need |= {"shape:list-ba", "shape:list-mv", "shape:gen-mv"}
    need |= {"r2:" + k for k in R2} | {"esrc:" + e for e in ESRC} | {"cfg:" + c[0] for c in CFGS[1:]}
    need |= {"sfcfg:" + c[0] for c in SF_CFGS} | {"bigsrc:" + b for b in BIG_SRC}
    need |= {"cap:" + c[0] for c in CAPS} | {"cap-code:206", "cap-code:416", "cap-code:200"}
    need |= {"capsrv:%d:206" % i for i in range(4)}
    need |= {"rw-code:200", "rw-code:304", "rw-code:206", "rw-tag-changed:True", "rw-tag-changed:False"}
    need |= {"cfg-code:base:206", "cfg-code:base:416", "cfg-code:ignored:200", "cfg-code:may:200",
             "mix-code:206", "mix-code:200", "mix-code:416", "sf-code:base:206", "sf-code:base:416",
             "sf-code:ignored:200", "sfval-code:304", "sfval-code:200", "big-code:206", "big-code:416", "big-code:200"}
    missing = need - R.used
    if missing:
        raise core.Broken(f"vacuity: never exercised {sorted(missing)}")
    # reference self-test (the oracle must not admit everything)
    checks = [
        (ref_range("bytes=1-2", 6), {(1, 3)}), (ref_range("bytes=4-", 6), {(4, 6)}), (ref_range("bytes=-2", 6), {(4, 6)}),
        (ref_range("bytes=6-", 6), {"416"}), (ref_range("bytes=0-1,3-4", 6), {"416"}), (ref_range("bytes=2-1", 6), {"416"}),
        (ref_range(None, 6), {"none"}), (ref_range("bytes=2-99", 6), {(2, 6)}),
        (allowed_status("GET", "INM", '"a"', ("a", False), True, -1), {304}),
        (allowed_status("GET", "INM", '"b"', ("a", False), True, 0), {200}),
        (allowed_status("GET", None, None, ("a", False), True, 0), {304}),
        (allowed_status("GET", None, None, ("a", False), True, -1), {200}),
        (allowed_status("GET", "IM", "*", ("a", False), False, None), {200}),
        (allowed_status("GET", "IM", '"b"', ("a", False), False, None), {200, 412}),
    ]
    for got, want in checks:
        if got != want:
            raise core.Broken(f"reference self-test: {got} != {want}")
    return {"bound": "resource length <= %d, tag lists <= %d items" % ((NMAX_THOROUGH, 3) if tier == "thorough" else (6, 2)),
            "exhaustive": True,
            "explanation": "full validator grid; every single-range header with positions 0..n+1 for every length "
                           "0..n x body shapes x methods x If-Range forms; send_file on real files"}


# ------------------------------------------------------------------ replay / findings

def replay(rec):
    k = rec.get("kind")
    if k == "validator":
        etag = tuple(rec["etag"]) if rec["etag"] is not None else None
        what, allowed, code, body = validator_problem(rec["cond"], rec["header"], etag, rec["lm"], rec["ims"],
                                                      rec["method"])
        text = (f"{rec['method']} with {'If-None-Match' if rec['cond'] == 'INM' else 'If-Match' if rec['cond'] else '(no tag header)'}"
                f"={rec['header']!r} If-Modified-Since={IMSS[rec['ims']][1]!r}\n"
                f"response ETag={etag} (value, weak) Last-Modified={LMS[rec['lm']][0]}\n"
                f"status={code} admitted by the statement={sorted(allowed)} problem={what}")
        return bool(what), text
    if k == "fn":
        etag = tuple(rec["etag"]) if rec["etag"] is not None else None
        what, want, got = fn_problem(rec["cond"], rec["header"], etag, rec["lm"], rec["ims"])
        return bool(what), (f"is_resource_modified(If-None-Match={rec['header']!r}, If-Modified-Since="
                            f"{IMSS[rec['ims']][1]!r}, etag={etag}, last_modified={LMS[rec['lm']][0]}) -> {got}; "
                            f"admitted: {sorted(want)}; problem={what}")
    if k == "range":
        shape = rec["shape"]
        shape = (shape[0], shape[1], tuple(shape[2]) if isinstance(shape[2], (list, tuple)) else shape[2])
        data = bytes(range(65, 65 + rec["n"]))
        allowed = allowed_range(rec["method"], rec["header"], rec["n"], rec["ifr"])
        try:
            result = run_range_case(shape, data, rec["header"], rec["method"], rec["ifr"])
        except Exception as e:  # noqa: BLE001
            return True, f"exception {e!r}"
        what = judge_range(result, allowed, data, rec["method"])
        _b, _dp, items = make_body(shape, data)
        text = (f"resource={data!r} supplied as {shape[0]} {items if items is not None else ''}\n"
                f"{rec['method']} Range={rec['header']!r} If-Range={IF_RANGES[rec['ifr']][1]!r}\n"
                f"status={result[0]} Content-Range={(result[1] or {}).get('Content-Range')!r} "
                f"Content-Length={(result[1] or {}).get('Content-Length')!r} body={result[2]!r}\n"
                f"admitted={sorted(map(repr, allowed))} problem={what}")
        return bool(what), text
    if k == "file":
        tmpdir = tempfile.mkdtemp(prefix="c11_")
        try:
            for fname, content in FILES.items():
                with open(os.path.join(tmpdir, fname), "wb") as f:
                    f.write(content)
            data = FILES[rec["file"]]
            allowed = allowed_range(rec["method"], rec["header"], len(data), rec["ifr"])
            try:
                result = run_send_file_case(rec["src"], rec["file"], rec["header"], rec["method"], rec["ifr"], tmpdir)
            except Exception as e:  # noqa: BLE001
                return True, f"exception {e!r}"
            what = judge_range(result, allowed, data, rec["method"])
            return bool(what), (f"send_file({rec['file']} via {rec['src']}) {rec['method']} Range={rec['header']!r} "
                                f"If-Range={IF_RANGES[rec['ifr']][1]!r} -> status={result[0]} "
                                f"Content-Range={(result[1] or {}).get('Content-Range')!r} "
                                f"len(body)={None if result[2] is None else len(result[2])}; "
                                f"admitted={sorted(map(repr, allowed))} problem={what}")
        finally:
            shutil.rmtree(tmpdir, ignore_errors=True)
    if k == "r2":
        params = rec["params"]
        what, detail = R2[rec["space"]](*params)
        return bool(what), f"{rec['space']}{tuple(params)} -> problem={what}\n{detail!r}"
    return True, rec.get("traceback", "unit exception")


def _if_match_star(rec):
    """If-Match containing '*' (admits any current representation) answered with 412."""
    if rec.get("kind") != "validator" or rec.get("what") != "412-admitted" or rec.get("cond") != "IM":
        return False
    tags = ref_tags(rec["header"])
    return bool(tags and tags[0] and rec["code"] == 412 and rec["etag"] is not None)


def _empty_item_truncates(rec):
    """206 over a list/tuple/generator body: the body stops at an empty item inside the range."""
    if rec.get("kind") != "range" or rec.get("what") != "206-body" or rec.get("code") != 206:
        return False
    items = rec.get("items")
    if not items or b"" not in list(items):
        return False
    m = re.fullmatch(r"bytes (\d+)-(\d+)/(\d+)", rec.get("content_range") or "")
    if not m:
        return False
    a, b = int(m.group(1)), int(m.group(2)) + 1
    data = b"".join(items)
    got = rec["got"]
    if not (data[a:b].startswith(got) and len(got) < b - a):
        return False
    # the cut must be exactly at the offset of an empty item lying strictly inside the range
    off = 0
    offsets = set()
    for it in items:
        if it == b"":
            offsets.add(off)
        off += len(it)
    return (a + len(got)) in offsets and a < a + len(got) < b


def _suffix_zero(rec):
    """'bytes=-0' (a suffix of zero bytes) answered with 206 and the whole body."""
    if rec.get("kind") not in ("range", "file") or rec.get("what") != "206-unexpected" or rec.get("code") != 206:
        return False
    if not re.fullmatch(r"\s*bytes\s*=\s*-\s*0+\s*", rec.get("header") or "", re.I):
        return False
    m = re.fullmatch(r"bytes 0-(\d+)/(\d+)", rec.get("content_range") or "")
    return bool(m and int(m.group(1)) + 1 == int(m.group(2)))


def _if_range_date_overridden(rec):
    """failed If-Range date (older than Last-Modified) + a matching If-None-Match (or a non-admitting If-Match):
    the Range is honoured / validated although it has to be ignored."""
    if rec.get("kind") != "r2" or rec.get("space") != "mix":
        return False
    if rec.get("what") not in ("206-unexpected", "416-unexpected"):
        return False
    si, n, hi, method, ifr, inmi, imsi = rec["params"]
    if IF_RANGES[ifr][0] != "date-earlier" or method not in ("GET", "HEAD"):
        return False
    cond = MX_INM[inmi]
    if cond is None:
        return False
    if isinstance(cond, str):
        tags = ref_tags(cond)
        return bool(tags[0] or "a" in tags[1] or "a" in tags[2])
    tags = ref_tags(cond[1])
    return not (tags[0] or "a" in tags[1])


FINDINGS = {
    "C11-if-range-date-overridden-by-validators": _if_range_date_overridden,
    "C11-if-match-star-412": _if_match_star,
    "C11-range-empty-item-truncates": _empty_item_truncates,
    "C11-suffix-zero-206": _suffix_zero,
}

LEVEL_TEXT = (
    "Bounded exhaustive exploration of Response.make_conditional / is_resource_modified / _RangeWrapper / send_file: the "
    "complete validator grid and every single-range header with positions 0..n+1 against every resource length 0..n and "
    "every way of supplying the body, compared with a harness-side reading of RFC 7232/7233 restricted to what the "
    "property statement claims. Off-by-one slices and stale 304s depend on relations between header values, length and "
    "chunk size; the grid contains every such relation below the bound."
)
LEVEL_NOTE = (
    "Trusted: the reference functions ref_tags / allowed_status / ref_range in the check (self-tested in finalize) and "
    "werkzeug.test.create_environ for building the request. Resource length <= 6 (12 thorough) except three send_file "
    "sizes; tag lists <= 2 items; Range is not combined with If-None-Match / If-Modified-Since."
)
TECHNIQUE = "small-scope exhaustive enumeration against a reference evaluation of RFC 7232/7233"
DESIGN_REF = "DESIGN.md §4 C11"
